//! C21 real-thread layer: worker threads write to their own spill files within a byte budget (sum of
//! budgets <= limit), "hog" threads only issue writes larger than the limit (always rejected), an observer
//! samples used_disk_space() continuously; barriers with exact equalities at quiescent points.
//! Only what DiskMgr.tla proves for every interleaving is asserted: used = bytes of live files + bytes of
//! writes in flight (so an observer may see the limit exceeded by in-flight bytes, and a fitting write may
//! be rejected while a hog's bytes are in flight - add-then-check-then-rollback is the design), rejected
//! writes change nothing, exact equality at quiescence, zero after release.

use datafusion_execution::disk_manager::{DiskManager, DiskManagerBuilder};
use datafusion_execution::spill_file::{SpillFile, SpillWriter};
use parking_lot::Mutex;
use rand::rngs::StdRng;
use rand::{Rng, SeedableRng};
use serde_json::{Value, json};
use std::io::Write;
use std::sync::atomic::{AtomicU64, AtomicUsize, Ordering};
use std::sync::{Arc, Barrier};

fn bad(m: &Mutex<Vec<String>>, s: String) {
    let mut g = m.lock();
    if g.len() < 5 {
        g.push(s);
    }
}

pub fn run(seed: u64, workers: usize, hogs: usize, rounds: usize, ops: usize, limit: u64, st: &[AtomicU64; 4]) -> Vec<String> {
    let dm: Arc<DiskManager> = Arc::new(DiskManagerBuilder::default().with_max_temp_directory_size(limit).build().expect("disk manager"));
    let budget = limit / workers as u64;
    let hog_max = limit * 4;
    let msgs = Arc::new(Mutex::new(vec![]));
    let held: Arc<Vec<AtomicU64>> = Arc::new((0..workers).map(|_| AtomicU64::new(0)).collect());
    let arrived = Arc::new(AtomicUsize::new(0));
    let barrier = Arc::new(Barrier::new(workers + hogs + 1));
    std::thread::scope(|s| {
        for w in 0..workers {
            let (dm, msgs, held, arrived, barrier) = (dm.clone(), msgs.clone(), held.clone(), arrived.clone(), barrier.clone());
            s.spawn(move || {
                let mut rng = StdRng::seed_from_u64(seed * 313 + w as u64);
                let mut file: Arc<dyn SpillFile> = dm.create_tmp_file("verif C21 threads").expect("create");
                let mut clones: Vec<Arc<dyn SpillFile>> = vec![];
                let mut writer: Box<dyn SpillWriter> = file.open_writer().expect("writer");
                let mut total = 0u64;
                for _ in 0..rounds {
                    for _ in 0..ops {
                        st[0].fetch_add(1, Ordering::Relaxed);
                        match rng.random_range(0..10) {
                            0..=6 if total < budget => {
                                let n = rng.random_range(1..=(budget - total).min(64));
                                match writer.write_all(&vec![b'x'; n as usize]) {
                                    Ok(()) => total += n,
                                    Err(e) => {
                                        // a fitting write may lose against bytes in flight; it must then be a clean rejection
                                        st[1].fetch_add(1, Ordering::Relaxed);
                                        if !e.to_string().contains("exceeded the allowable limit") {
                                            bad(&msgs, format!("worker {w}: write failed with {e}"));
                                        }
                                    }
                                }
                            }
                            7 => clones.push(Arc::clone(&file)),
                            8 if !clones.is_empty() => drop(clones.pop()),
                            9 if rng.random_range(0..8) == 0 => {
                                // release the file (last handle) and start a new one
                                clones.clear();
                                drop(writer);
                                let path = file.path().map(|p| p.to_path_buf());
                                file = dm.create_tmp_file("verif C21 threads").expect("create");
                                writer = file.open_writer().expect("writer");
                                if let Some(p) = path {
                                    if p.exists() {
                                        bad(&msgs, format!("worker {w}: released file still exists"));
                                    }
                                }
                                total = 0;
                            }
                            _ => {}
                        }
                        let sz = file.size().unwrap_or(u64::MAX);
                        if sz != total {
                            bad(&msgs, format!("worker {w}: size()={sz} but {total} bytes were successfully written"));
                            total = sz;
                        }
                    }
                    let on_disk = file.path().and_then(|p| std::fs::metadata(p).ok()).map(|m| m.len()).unwrap_or(u64::MAX);
                    if on_disk != total {
                        bad(&msgs, format!("worker {w}: file holds {on_disk} bytes, size() says {total}"));
                    }
                    held[w].store(total, Ordering::SeqCst);
                    arrived.fetch_add(1, Ordering::SeqCst);
                    barrier.wait();
                    barrier.wait();
                }
            });
        }
        for h in 0..hogs {
            let (dm, msgs, arrived, barrier) = (dm.clone(), msgs.clone(), arrived.clone(), barrier.clone());
            s.spawn(move || {
                let mut rng = StdRng::seed_from_u64(seed * 717 + h as u64);
                let file = dm.create_tmp_file("verif C21 hog").expect("create");
                let mut writer = file.open_writer().expect("writer");
                let buf = vec![b'h'; hog_max as usize];
                for _ in 0..rounds {
                    let mut k = 0usize;
                    while k < ops || arrived.load(Ordering::Relaxed) < workers {
                        let n = rng.random_range(limit + 1..=hog_max) as usize;
                        st[2].fetch_add(1, Ordering::Relaxed);
                        match writer.write_all(&buf[..n]) {
                            Ok(()) => bad(&msgs, format!("hog {h}: a write of {n} bytes was admitted with a limit of {limit}")),
                            Err(e) if !e.to_string().contains("exceeded the allowable limit") => bad(&msgs, format!("hog {h}: {e}")),
                            _ => {}
                        }
                        if file.size() != Some(0) {
                            bad(&msgs, format!("hog {h}: a rejected write left size()={:?}", file.size()));
                        }
                        k += 1;
                    }
                    arrived.fetch_add(1, Ordering::SeqCst);
                    barrier.wait();
                    barrier.wait();
                }
            });
        }
        let bound = budget * workers as u64 + hogs as u64 * hog_max;
        for round in 0..rounds {
            while arrived.load(Ordering::SeqCst) < workers + hogs {
                let u = dm.used_disk_space();
                st[3].fetch_add(1, Ordering::Relaxed);
                // used = live bytes (<= sum of budgets) + bytes in flight (<= one write per thread)
                if u > bound {
                    bad(&msgs, format!("observer: used_disk_space()={u} exceeds live budgets + in-flight bound {bound}"));
                }
            }
            barrier.wait();
            let want: u64 = held.iter().map(|h| h.load(Ordering::SeqCst)).sum();
            let u = dm.used_disk_space();
            let prog = dm.spilling_progress();
            if u != want {
                bad(&msgs, format!("quiescent point {round}: used_disk_space()={u} but live files hold {want}"));
            }
            if u > limit {
                bad(&msgs, format!("quiescent point {round}: committed bytes {u} exceed the limit {limit}"));
            }
            if prog.active_files_count != workers + hogs {
                bad(&msgs, format!("quiescent point {round}: active_files_count={} with {} live files", prog.active_files_count, workers + hogs));
            }
            arrived.store(0, Ordering::SeqCst);
            barrier.wait();
        }
    });
    let (u, a) = (dm.used_disk_space(), dm.spilling_progress().active_files_count);
    if u != 0 || a != 0 {
        bad(&msgs, format!("after every file was released used_disk_space()={u}, active_files_count={a}"));
    }
    let v = msgs.lock().clone();
    v
}

/// Contended admission: `n` writers are released together by a barrier, each writing `size` bytes to its own
/// file, with less headroom than the sum of the writes.  DiskMgr.tla (w_add / w_check / rollback) proves that the
/// committed bytes never exceed the limit in force; which of the writers win is not specified.  Asserted at the
/// quiescent point after every round: used_disk_space() = sum of size() of the live files = bytes on disk <= limit.
pub fn contended(seed: u64, n: usize, size: u64, limit: u64, rounds: usize, st: &[AtomicU64; 3]) -> Vec<String> {
    let dm: Arc<DiskManager> = Arc::new(DiskManagerBuilder::default().with_max_temp_directory_size(limit).build().expect("disk manager"));
    let msgs = Arc::new(Mutex::new(vec![]));
    let sizes: Arc<Vec<AtomicU64>> = Arc::new((0..n).map(|_| AtomicU64::new(0)).collect());
    let disk: Arc<Vec<AtomicU64>> = Arc::new((0..n).map(|_| AtomicU64::new(0)).collect());
    let nfiles: Arc<Vec<AtomicU64>> = Arc::new((0..n).map(|_| AtomicU64::new(0)).collect());
    let barrier = Arc::new(Barrier::new(n + 1));
    std::thread::scope(|s| {
        for w in 0..n {
            let (dm, msgs, sizes, disk, nfiles, barrier) = (dm.clone(), msgs.clone(), sizes.clone(), disk.clone(), nfiles.clone(), barrier.clone());
            s.spawn(move || {
                let mut rng = StdRng::seed_from_u64(seed * 9001 + w as u64);
                let mut files: Vec<(Arc<dyn SpillFile>, u64)> = vec![];
                let buf = vec![b'c'; size as usize];
                for _ in 0..rounds {
                    let f = dm.create_tmp_file("verif C21 contended").expect("create");
                    let mut wr = f.open_writer().expect("writer");
                    let chunks = if rng.random_bool(0.5) { 1 } else { 2 };
                    barrier.wait(); // ---- released together
                    let mut ok = 0u64;
                    for c in 0..chunks {
                        let (lo, hi) = (size as usize * c / chunks, size as usize * (c + 1) / chunks);
                        st[0].fetch_add(1, Ordering::Relaxed);
                        match wr.write_all(&buf[lo..hi]) {
                            Ok(()) => ok += (hi - lo) as u64,
                            Err(e) => {
                                st[1].fetch_add(1, Ordering::Relaxed);
                                if !e.to_string().contains("exceeded the allowable limit") {
                                    bad(&msgs, format!("writer {w}: {e}"));
                                }
                            }
                        }
                    }
                    drop(wr);
                    if f.size() != Some(ok) {
                        bad(&msgs, format!("writer {w}: size()={:?} but {ok} bytes were admitted", f.size()));
                    }
                    files.push((f, ok));
                    sizes[w].store(files.iter().map(|(f, _)| f.size().unwrap_or(0)).sum(), Ordering::SeqCst);
                    disk[w].store(files.iter().map(|(f, _)| f.path().and_then(|p| std::fs::metadata(p).ok()).map(|m| m.len()).unwrap_or(0)).sum(), Ordering::SeqCst);
                    nfiles[w].store(files.len() as u64, Ordering::SeqCst);
                    barrier.wait(); // ---- quiescent point (coordinator checks)
                    barrier.wait();
                    // release some files so that the headroom varies from round to round
                    files.retain(|_| rng.random_bool(0.35));
                }
            });
        }
        for round in 0..rounds {
            barrier.wait();
            barrier.wait();
            st[2].fetch_add(1, Ordering::Relaxed);
            let total: u64 = sizes.iter().map(|x| x.load(Ordering::SeqCst)).sum();
            let on_disk: u64 = disk.iter().map(|x| x.load(Ordering::SeqCst)).sum();
            let nf: u64 = nfiles.iter().map(|x| x.load(Ordering::SeqCst)).sum();
            let used = dm.used_disk_space();
            if used != total {
                bad(&msgs, format!("round {round}: used_disk_space()={used} but the live files report {total} bytes"));
            }
            if total > limit || used > limit {
                bad(&msgs, format!("round {round}: {n} writers of {size} bytes released together: committed {total} bytes (used_disk_space()={used}) exceed the limit {limit}"));
            }
            if on_disk > limit || on_disk != total {
                bad(&msgs, format!("round {round}: {on_disk} bytes on disk, size() total {total}, limit {limit}"));
            }
            if dm.spilling_progress().active_files_count as u64 != nf {
                bad(&msgs, format!("round {round}: active_files_count={} with {nf} live files", dm.spilling_progress().active_files_count));
            }
            barrier.wait();
        }
    });
    if dm.used_disk_space() != 0 || dm.spilling_progress().active_files_count != 0 {
        bad(&msgs, format!("after every file was released used_disk_space()={}", dm.used_disk_space()));
    }
    let v = msgs.lock().clone();
    v
}

pub fn main_threads(seed: u64, quick: bool) -> Value {
    let st: [AtomicU64; 4] = [AtomicU64::new(0), AtomicU64::new(0), AtomicU64::new(0), AtomicU64::new(0)];
    let mut violations = vec![];
    let (rounds, ops) = if quick { (8, 300) } else { (40, 1200) };
    let cfgs = [(2usize, 2usize, 4096u64), (3, 1, 999), (1, 3, 512), (4, 2, 100_000)];
    for (i, (w, h, limit)) in cfgs.iter().enumerate() {
        let m = run(seed * 100 + i as u64, *w, *h, rounds, ops, *limit, &st);
        if !m.is_empty() {
            violations.push(json!({"kind": "threads", "violation": {"case": {"workers": w, "hogs": h, "limit": limit, "seed": seed * 100 + i as u64}, "message": m.join(" ;; ")}, "case_index": i, "harness_seed": seed}));
        }
    }
    // contended admission: writers released together whose combined writes exceed the headroom
    let cst: [AtomicU64; 3] = [AtomicU64::new(0), AtomicU64::new(0), AtomicU64::new(0)];
    let ccfgs: [(usize, u64, u64); 7] = [(4, 1 << 20, 3 << 19), (2, 600, 1000), (3, 4096, 4097), (6, 10_000, 25_000), (8, 100, 150), (5, 70_000, 200_000), (2, 1, 1)];
    let crounds = if quick { 40 } else { 400 };
    for (i, (n, size, limit)) in ccfgs.iter().enumerate() {
        let m = contended(seed * 1000 + i as u64, *n, *size, *limit, crounds, &cst);
        if !m.is_empty() {
            violations.push(json!({"kind": "threads", "violation": {"case": {"contended_writers": n, "size": size, "limit": limit, "rounds": crounds, "seed": seed * 1000 + i as u64}, "message": m.join(" ;; ")}, "case_index": 100 + i, "harness_seed": seed}));
        }
    }
    json!({"evaluations": cfgs.len() + ccfgs.len(), "violations": violations, "worker_ops": st[0].load(Ordering::Relaxed),
           "contended": {"configs": ccfgs.len(), "rounds_each": crounds, "writes": cst[0].load(Ordering::Relaxed), "writes_rejected": cst[1].load(Ordering::Relaxed), "quiescent_points": cst[2].load(Ordering::Relaxed)},
           "fitting_writes_rejected_while_bytes_in_flight(allowed_by_design)": st[1].load(Ordering::Relaxed),
           "hog_writes_all_rejected": st[2].load(Ordering::Relaxed), "observer_samples": st[3].load(Ordering::Relaxed),
           "known": [], "tool_errors": [], "samples": []})
}
