//! C21 real-thread layer: worker threads write to their own spill files within a byte budget (sum of
//! budgets <= limit), "hog" threads only issue writes larger than the limit (always rejected), an observer
//! samples used_disk_space() continuously; barriers with exact equalities at quiescent points.
//! Only what DiskMgr.tla proves for every interleaving is asserted: used = bytes of live files + bytes of
//! writes in flight (so an observer may see the limit exceeded by in-flight bytes, and a fitting write may
//! be rejected while a hog's bytes are in flight - add-then-check-then-rollback is the design), rejected
//! writes change nothing, exact equality at quiescence, zero after release.

use datafusion_execution::disk_manager::{DiskManager, DiskManagerBuilder};
use datafusion_execution::spill_file::{SpillFile, SpillWriter};
use parking_lot::Mutex;
use rand::rngs::StdRng;
use rand::{Rng, SeedableRng};
use serde_json::{Value, json};
use std::io::Write;
use std::sync::atomic::{AtomicU64, AtomicUsize, Ordering};
use std::sync::{Arc, Barrier};

fn bad(m: &Mutex<Vec<String>>, s: String) {
    let mut g = m.lock();
    if g.len() < 5 {
        g.push(s);
    }
}

pub fn run(seed: u64, workers: usize, hogs: usize, rounds: usize, ops: usize, limit: u64, st: &[AtomicU64; 4]) -> Vec<String> {
    let dm: Arc<DiskManager> = Arc::new(DiskManagerBuilder::default().with_max_temp_directory_size(limit).build().expect("disk manager"));
    let budget = limit / workers as u64;
    let hog_max = limit * 4;
    let msgs = Arc::new(Mutex::new(vec![]));
    let held: Arc<Vec<AtomicU64>> = Arc::new((0..workers).map(|_| AtomicU64::new(0)).collect());
    let arrived = Arc::new(AtomicUsize::new(0));
    let barrier = Arc::new(Barrier::new(workers + hogs + 1));
    std::thread::scope(|s| {
        for w in 0..workers {
            let (dm, msgs, held, arrived, barrier) = (dm.clone(), msgs.clone(), held.clone(), arrived.clone(), barrier.clone());
            s.spawn(move || {
                let mut rng = StdRng::seed_from_u64(seed * 313 + w as u64);
                let mut file: Arc<dyn SpillFile> = dm.create_tmp_file("verif C21 threads").expect("create");
                let mut clones: Vec<Arc<dyn SpillFile>> = vec![];
                let mut writer: Box<dyn SpillWriter> = file.open_writer().expect("writer");
                let mut total = 0u64;
                for _ in 0..rounds {
                    for _ in 0..ops {
                        st[0].fetch_add(1, Ordering::Relaxed);
                        match rng.random_range(0..10) {
                            0..=6 if total < budget => {
                                let n = rng.random_range(1..=(budget - total).min(64));
                                match writer.write_all(&vec![b'x'; n as usize]) {
                                    Ok(()) => total += n,
                                    Err(e) => {
                                        // a fitting write may lose against bytes in flight; it must then be a clean rejection
                                        st[1].fetch_add(1, Ordering::Relaxed);
                                        if !e.to_string().contains("exceeded the allowable limit") {
                                            bad(&msgs, format!("worker {w}: write failed with {e}"));
                                        }
                                    }
                                }
                            }
                            7 => clones.push(Arc::clone(&file)),
                            8 if !clones.is_empty() => drop(clones.pop()),
                            9 if rng.random_range(0..8) == 0 => {
                                // release the file (last handle) and start a new one
                                clones.clear();
                                drop(writer);
                                let path = file.path().map(|p| p.to_path_buf());
                                file = dm.create_tmp_file("verif C21 threads").expect("create");
                                writer = file.open_writer().expect("writer");
                                if let Some(p) = path {
                                    if p.exists() {
                                        bad(&msgs, format!("worker {w}: released file still exists"));
                                    }
                                }
                                total = 0;
                            }
                            _ => {}
                        }
                        let sz = file.size().unwrap_or(u64::MAX);
                        if sz != total {
                            bad(&msgs, format!("worker {w}: size()={sz} but {total} bytes were successfully written"));
                            total = sz;
                        }
                    }
                    let on_disk = file.path().and_then(|p| std::fs::metadata(p).ok()).map(|m| m.len()).unwrap_or(u64::MAX);
                    if on_disk != total {
                        bad(&msgs, format!("worker {w}: file holds {on_disk} bytes, size() says {total}"));
                    }
                    held[w].store(total, Ordering::SeqCst);
                    arrived.fetch_add(1, Ordering::SeqCst);
                    barrier.wait();
                    barrier.wait();
                }
            });
        }
        for h in 0..hogs {
            let (dm, msgs, arrived, barrier) = (dm.clone(), msgs.clone(), arrived.clone(), barrier.clone());
            s.spawn(move || {
                let mut rng = StdRng::seed_from_u64(seed * 717 + h as u64);
                let file = dm.create_tmp_file("verif C21 hog").expect("create");
                let mut writer = file.open_writer().expect("writer");
                let buf = vec![b'h'; hog_max as usize];
                for _ in 0..rounds {
                    let mut k = 0usize;
                    while k < ops || arrived.load(Ordering::Relaxed) < workers {
                        let n = rng.random_range(limit + 1..=hog_max) as usize;
                        st[2].fetch_add(1, Ordering::Relaxed);
                        match writer.write_all(&buf[..n]) {
                            Ok(()) => bad(&msgs, format!("hog {h}: a write of {n} bytes was admitted with a limit of {limit}")),
                            Err(e) if !e.to_string().contains("exceeded the allowable limit") => bad(&msgs, format!("hog {h}: {e}")),
                            _ => {}
                        }
                        if file.size() != Some(0) {
                            bad(&msgs, format!("hog {h}: a rejected write left size()={:?}", file.size()));
                        }
                        k += 1;
                    }
                    arrived.fetch_add(1, Ordering::SeqCst);
                    barrier.wait();
                    barrier.wait();
                }
            });
        }
        let bound = budget * workers as u64 + hogs as u64 * hog_max;
        for round in 0..rounds {
            while arrived.load(Ordering::SeqCst) < workers + hogs {
                let u = dm.used_disk_space();
                st[3].fetch_add(1, Ordering::Relaxed);
                // used = live bytes (<= sum of budgets) + bytes in flight (<= one write per thread)
                if u > bound {
                    bad(&msgs, format!("observer: used_disk_space()={u} exceeds live budgets + in-flight bound {bound}"));
                }
            }
            barrier.wait();
            let want: u64 = held.iter().map(|h| h.load(Ordering::SeqCst)).sum();
            let u = dm.used_disk_space();
            let prog = dm.spilling_progress();
            if u != want {
                bad(&msgs, format!("quiescent point {round}: used_disk_space()={u} but live files hold {want}"));
            }
            if u > limit {
                bad(&msgs, format!("quiescent point {round}: committed bytes {u} exceed the limit {limit}"));
            }
            if prog.active_files_count != workers + hogs {
                bad(&msgs, format!("quiescent point {round}: active_files_count={} with {} live files", prog.active_files_count, workers + hogs));
            }
            arrived.store(0, Ordering::SeqCst);
            barrier.wait();
        }
    });
    let (u, a) = (dm.used_disk_space(), dm.spilling_progress().active_files_count);
    if u != 0 || a != 0 {
        bad(&msgs, format!("after every file was released used_disk_space()={u}, active_files_count={a}"));
    }
    let v = msgs.lock().clone();
    v
}

pub fn main_threads(seed: u64, quick: bool) -> Value {
    let st: [AtomicU64; 4] = [AtomicU64::new(0), AtomicU64::new(0), AtomicU64::new(0), AtomicU64::new(0)];
    let mut violations = vec![];
    let (rounds, ops) = if quick { (8, 300) } else { (40, 1200) };
    let cfgs = [(2usize, 2usize, 4096u64), (3, 1, 999), (1, 3, 512), (4, 2, 100_000)];
    for (i, (w, h, limit)) in cfgs.iter().enumerate() {
        let m = run(seed * 100 + i as u64, *w, *h, rounds, ops, *limit, &st);
        if !m.is_empty() {
            violations.push(json!({"kind": "threads", "violation": {"case": {"workers": w, "hogs": h, "limit": limit, "seed": seed * 100 + i as u64}, "message": m.join(" ;; ")}, "case_index": i, "harness_seed": seed}));
        }
    }
    json!({"evaluations": cfgs.len(), "violations": violations, "worker_ops": st[0].load(Ordering::Relaxed),
           "fitting_writes_rejected_while_bytes_in_flight(allowed_by_design)": st[1].load(Ordering::Relaxed),
           "hog_writes_all_rejected": st[2].load(Ordering::Relaxed), "observer_samples": st[3].load(Ordering::Relaxed),
           "known": [], "tool_errors": [], "samples": []})
}
