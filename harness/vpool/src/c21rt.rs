//! C21 round trip: SpillFile.tla histories replayed on InProgressSpillFile / SpillManager over many
//! column types x codecs x read-buffer capacities; read back == written (logical equality), in order;
//! disk usage == bytes on disk, zero after release, also with injected write failures / limits.

use super::{FAULT, FAULT_LEN, HITS, install_hook, site_hits};
use arrow::array::*;
use arrow::buffer::NullBuffer;
use arrow::datatypes::*;
use arrow::record_batch::{RecordBatch, RecordBatchOptions};
use datafusion_common::config::SpillCompression;
use datafusion_execution::disk_manager::{DiskManagerBuilder, DiskManagerMode};
use datafusion_execution::runtime_env::{RuntimeEnv, RuntimeEnvBuilder};
use datafusion_execution::spill_file::SpillFile;
use datafusion_physical_plan::metrics::{ExecutionPlanMetricsSet, SpillMetrics};
use datafusion_physical_plan::spill::SpillManager;
use futures::StreamExt;
use rand::rngs::StdRng;
use rand::{Rng, SeedableRng};
use serde_json::{Value, json};
use std::sync::Arc;
use std::sync::atomic::Ordering;

pub const NKINDS: usize = 26;

fn rstr(rng: &mut StdRng, long: bool) -> String {
    let n = if long { rng.random_range(13..120) } else { rng.random_range(0..13) };
    (0..n).map(|_| (b'a' + rng.random_range(0..26u8)) as char).collect()
}

fn opt<T>(rng: &mut StdRng, nulls: f64, f: impl FnOnce(&mut StdRng) -> T) -> Option<T> {
    if rng.random_bool(nulls) { None } else { Some(f(rng)) }
}

/// A column of `kind` with `n` rows. `nulls` = null probability (1.0: all null where possible);
/// `big` = long strings (so that view arrays carry > 10 KB data buffers and the GC path runs).
pub fn gen_col(kind: usize, n: usize, nulls: f64, big: bool, rng: &mut StdRng) -> ArrayRef {
    let long = |rng: &mut StdRng| big || rng.random_bool(0.4);
    match kind {
        0 => Arc::new((0..n).map(|_| opt(rng, nulls, |r| r.random_range(-5..1000i32))).collect::<Int32Array>()),
        1 => Arc::new((0..n).map(|_| opt(rng, nulls, |r| r.random::<i64>())).collect::<Int64Array>()),
        2 => Arc::new(
            (0..n)
                .map(|_| opt(rng, nulls, |r| match r.random_range(0..6) { 0 => f64::NAN, 1 => -0.0, 2 => f64::INFINITY, _ => r.random_range(-100..100) as f64 / 4.0 }))
                .collect::<Float64Array>(),
        ),
        3 => Arc::new((0..n).map(|_| opt(rng, nulls, |r| r.random_bool(0.5))).collect::<BooleanArray>()),
        4 => Arc::new((0..n).map(|_| opt(rng, nulls, |r| { let l = long(r); rstr(r, l) })).collect::<StringArray>()),
        5 => Arc::new((0..n).map(|_| opt(rng, nulls, |r| { let l = long(r); rstr(r, l) })).collect::<LargeStringArray>()),
        6 => Arc::new((0..n).map(|_| opt(rng, nulls, |r| rstr(r, false).into_bytes())).collect::<BinaryArray>()),
        7 => Arc::new((0..n).map(|_| opt(rng, nulls, |r| { let l = long(r); rstr(r, l) })).collect::<StringViewArray>()),
        8 => Arc::new((0..n).map(|_| opt(rng, nulls, |r| { let l = long(r); rstr(r, l).into_bytes() })).collect::<BinaryViewArray>()),
        9 => {
            let pool: Vec<String> = (0..rng.random_range(1..5)).map(|_| rstr(rng, false)).collect();
            let v: Vec<Option<&str>> = (0..n).map(|_| opt(rng, nulls, |r| pool[r.random_range(0..pool.len())].as_str())).collect();
            Arc::new(v.into_iter().collect::<DictionaryArray<Int32Type>>())
        }
        10 => {
            let pool: Vec<String> = (0..rng.random_range(1..4)).map(|_| rstr(rng, true)).collect();
            let v: Vec<Option<&str>> = (0..n).map(|_| opt(rng, nulls, |r| pool[r.random_range(0..pool.len())].as_str())).collect();
            Arc::new(v.into_iter().collect::<DictionaryArray<Int8Type>>())
        }
        11 => Arc::new(ListArray::from_iter_primitive::<Int32Type, _, _>(
            (0..n).map(|_| opt(rng, nulls, |r| (0..r.random_range(0..4)).map(|_| opt(r, 0.2, |r| r.random_range(0..100))).collect::<Vec<_>>())).collect::<Vec<_>>(),
        )),
        12 => {
            let mut b = ListBuilder::new(StringViewBuilder::new());
            for _ in 0..n {
                if rng.random_bool(nulls) {
                    b.append(false);
                } else {
                    for _ in 0..rng.random_range(0..4) {
                        let l = long(rng);
                        b.values().append_option(opt(rng, 0.2, |r| rstr(r, l)));
                    }
                    b.append(true);
                }
            }
            Arc::new(b.finish())
        }
        13 => {
            let a = gen_col(0, n, 0.2_f64.max(nulls.min(0.5)), big, rng);
            let s = gen_col(7, n, 0.2, big, rng);
            let fields = Fields::from(vec![Field::new("x", DataType::Int32, true), Field::new("y", DataType::Utf8View, true)]);
            let nb: NullBuffer = (0..n).map(|_| !rng.random_bool(nulls)).collect::<Vec<bool>>().into();
            Arc::new(StructArray::new(fields, vec![a, s], Some(nb)))
        }
        14 => Arc::new(
            (0..n).map(|_| opt(rng, nulls, |r| r.random_range(-1_000_000_000_000i128..1_000_000_000_000))).collect::<Decimal128Array>().with_precision_and_scale(20, 3).unwrap(),
        ),
        15 => Arc::new((0..n).map(|_| opt(rng, nulls, |r| r.random_range(0..4_000_000_000_000_000_000i64))).collect::<TimestampNanosecondArray>().with_timezone("+02:00")),
        16 => Arc::new((0..n).map(|_| opt(rng, nulls, |r| r.random_range(-1000..30000))).collect::<Date32Array>()),
        17 => {
            let v: Vec<Option<Vec<u8>>> = (0..n).map(|_| opt(rng, nulls, |r| (0..5).map(|_| r.random::<u8>()).collect())).collect();
            Arc::new(FixedSizeBinaryArray::try_from_sparse_iter_with_size(v.into_iter(), 5).unwrap())
        }
        18 => Arc::new(FixedSizeListArray::from_iter_primitive::<Int16Type, _, _>(
            (0..n).map(|_| opt(rng, nulls, |r| (0..3).map(|_| opt(r, 0.2, |r| r.random::<i16>())).collect::<Vec<_>>())).collect::<Vec<_>>(),
            3,
        )),
        19 => {
            let mut b = LargeListBuilder::new(StringBuilder::new());
            for _ in 0..n {
                if rng.random_bool(nulls) {
                    b.append(false);
                } else {
                    for _ in 0..rng.random_range(0..3) {
                        b.values().append_option(opt(rng, 0.2, |r| rstr(r, false)));
                    }
                    b.append(true);
                }
            }
            Arc::new(b.finish())
        }
        20 => {
            let mut b = MapBuilder::new(None, StringBuilder::new(), Int32Builder::new());
            for _ in 0..n {
                if rng.random_bool(nulls) {
                    b.append(false).unwrap();
                } else {
                    for _ in 0..rng.random_range(0..3) {
                        b.keys().append_value(rstr(rng, false));
                        b.values().append_option(opt(rng, 0.3, |r| r.random_range(0..9)));
                    }
                    b.append(true).unwrap();
                }
            }
            Arc::new(b.finish())
        }
        21 => Arc::new(NullArray::new(n)),
        22 => {
            // struct< l: list<struct<s: utf8view, d: dictionary<int32, utf8>>>, b: binaryview >
            let inner_fields = Fields::from(vec![
                Field::new("s", DataType::Utf8View, true),
                Field::new("d", DataType::Dictionary(Box::new(DataType::Int32), Box::new(DataType::Utf8)), true),
            ]);
            let lens: Vec<usize> = (0..n).map(|_| rng.random_range(0..3)).collect();
            let total: usize = lens.iter().sum();
            let s = gen_col(7, total, 0.2, big, rng);
            let d = gen_col(9, total, 0.2, big, rng);
            let inner = StructArray::new(inner_fields.clone(), vec![s, d], None);
            let offsets = arrow::buffer::OffsetBuffer::<i32>::from_lengths(lens);
            let lnulls: NullBuffer = (0..n).map(|_| !rng.random_bool(nulls)).collect::<Vec<bool>>().into();
            let list = ListArray::new(Arc::new(Field::new("item", DataType::Struct(inner_fields), true)), offsets, Arc::new(inner), Some(lnulls));
            let b = gen_col(8, n, 0.2, big, rng);
            let fields = Fields::from(vec![Field::new("l", list.data_type().clone(), true), Field::new("b", DataType::BinaryView, true)]);
            Arc::new(StructArray::new(fields, vec![Arc::new(list) as ArrayRef, b], None))
        }
        23 => Arc::new((0..n).map(|_| opt(rng, nulls, |r| r.random::<u8>())).collect::<UInt8Array>()),
        24 => Arc::new((0..n).map(|_| opt(rng, nulls, |r| r.random_range(0..86_400_000_000i64))).collect::<Time64MicrosecondArray>()),
        _ => Arc::new((0..n).map(|_| opt(rng, nulls, |r| r.random::<i64>())).collect::<DurationMillisecondArray>()),
    }
}

pub struct Plan {
    pub kinds: Vec<usize>,
    pub schema: SchemaRef,
    pub big: bool,
}

pub fn gen_plan(rng: &mut StdRng, idx: usize) -> Plan {
    // the first column cycles through every kind so that all types are covered quickly
    let mut kinds = vec![idx % NKINDS];
    for _ in 0..rng.random_range(0..3) {
        kinds.push(rng.random_range(0..NKINDS));
    }
    if rng.random_bool(0.05) {
        kinds.clear(); // a batch with no columns (row count only)
    }
    let big = rng.random_bool(0.35);
    let mut r2 = StdRng::seed_from_u64(1);
    let fields: Vec<Field> = kinds.iter().enumerate().map(|(i, k)| Field::new(format!("c{i}"), gen_col(*k, 1, 0.0, false, &mut r2).data_type().clone(), true)).collect();
    Plan { kinds, schema: Arc::new(Schema::new(fields)), big }
}

pub fn gen_batch(p: &Plan, token: &str, rng: &mut StdRng) -> RecordBatch {
    let mk = |n: usize, nulls: f64, rng: &mut StdRng| -> RecordBatch {
        let cols: Vec<ArrayRef> = p.kinds.iter().map(|k| gen_col(*k, n, nulls, p.big, rng)).collect();
        RecordBatch::try_new_with_options(Arc::clone(&p.schema), cols, &RecordBatchOptions::new().with_row_count(Some(n))).expect("batch")
    };
    let rows = if p.big { rng.random_range(150..400) } else { rng.random_range(1..40) };
    match token {
        "empty" => mk(0, 0.2, rng),
        "nulls" => mk(rows.min(50), 1.0, rng),
        "sliced" => {
            let b = mk(rows + 7, 0.2, rng);
            let off = rng.random_range(1..6);
            let len = rng.random_range(1..=(rows + 7 - off));
            b.slice(off, len)
        }
        _ => mk(rows, 0.15, rng),
    }
}

fn same_batch(a: &RecordBatch, b: &RecordBatch) -> Result<(), String> {
    if a.schema() != b.schema() {
        return Err(format!("schema differs: written {:?} read {:?}", a.schema(), b.schema()));
    }
    if a.num_rows() != b.num_rows() {
        return Err(format!("row count differs: written {} read {}", a.num_rows(), b.num_rows()));
    }
    for i in 0..a.num_columns() {
        if a.column(i).to_data() != b.column(i).to_data() {
            return Err(format!("column {i} ({}) differs", a.schema().field(i).data_type()));
        }
    }
    // second, independent comparison through the display form
    let fa = arrow::util::pretty::pretty_format_batches(&[a.clone()]).map(|d| d.to_string());
    let fb = arrow::util::pretty::pretty_format_batches(&[b.clone()]).map(|d| d.to_string());
    match (fa, fb) {
        (Ok(x), Ok(y)) if x != y => Err("rendered text of written and read batch differs".to_string()),
        _ => Ok(()),
    }
}

#[derive(Clone, Debug)]
pub struct Cfg {
    pub codec: usize,
    pub cap: usize,
    pub multi: bool,
    pub atomic: bool,
    /// 0 none; k>0: the k-th OS write call fails
    pub fault_at: i64,
    /// 0 none; else disk limit in bytes
    pub limit: u64,
}

fn codec(i: usize) -> SpillCompression {
    [SpillCompression::Uncompressed, SpillCompression::Lz4Frame, SpillCompression::Zstd][i % 3]
}

pub struct RtOut {
    pub write_calls: u64,
    pub cum_bytes: Vec<u64>,
    pub final_bytes: u64,
    pub known_leak: bool,
    pub gc_candidate: bool,
    pub rows: u64,
    pub batches_read: u64,
    pub op_results: Vec<String>,
}

/// Executes one SpillFile.tla history under `cfg`. Err = violation message.
pub fn run_rt(case: &Value, seed: u64, idx: usize, cfg: &Cfg) -> Result<RtOut, String> {
    let mut rng = StdRng::seed_from_u64(seed);
    let plan = gen_plan(&mut rng, idx);
    let tmp = tempfile::tempdir().map_err(|e| e.to_string())?;
    let dmb = DiskManagerBuilder::default().with_mode(DiskManagerMode::Directories(vec![tmp.path().to_path_buf()]));
    let env: Arc<RuntimeEnv> = RuntimeEnvBuilder::new().with_disk_manager_builder(dmb).build_arc().map_err(|e| e.to_string())?;
    let dm = Arc::clone(&env.disk_manager);
    if cfg.limit > 0 {
        dm.set_max_temp_directory_size(cfg.limit).map_err(|e| e.to_string())?;
    }
    let mset = ExecutionPlanMetricsSet::new();
    let metrics = SpillMetrics::new(&mset, 0);
    let sm = SpillManager::new(Arc::clone(&env), metrics.clone(), Arc::clone(&plan.schema))
        .with_compression_type(codec(cfg.codec))
        .with_batch_read_buffer_capacity(cfg.cap);
    let ops = case["ops"].as_array().unwrap();
    let faulty = cfg.fault_at > 0 || cfg.limit > 0;
    let w0 = HITS[2].load(Ordering::Relaxed);
    FAULT.store(if cfg.fault_at > 0 { 9 + cfg.fault_at } else { 0 }, Ordering::Relaxed);
    FAULT_LEN.store(0, Ordering::Relaxed);
    let mut written: Vec<RecordBatch> = vec![];
    let mut out = RtOut { write_calls: 0, cum_bytes: vec![], final_bytes: 0, known_leak: false, gc_candidate: plan.big, rows: 0, batches_read: 0, op_results: vec![] };
    let mut file: Option<Arc<dyn SpillFile>> = None;
    let mut failed_op: Option<String> = None;
    let check_usage = |what: &str, f: Option<&Arc<dyn SpillFile>>| -> Result<(), String> {
        let used = dm.used_disk_space();
        if cfg.limit > 0 && used > cfg.limit {
            return Err(format!("{what}: used_disk_space()={used} exceeds the limit {}", cfg.limit));
        }
        if let Some(f) = f {
            let sz = f.size().unwrap_or(u64::MAX);
            let on_disk = std::fs::metadata(f.path().unwrap()).map(|m| m.len()).unwrap_or(u64::MAX);
            if sz != on_disk {
                return Err(format!("{what}: SpillFile::size()={sz} but the file holds {on_disk} bytes"));
            }
            if !faulty && used != sz {
                return Err(format!("{what}: used_disk_space()={used} but the only live file holds {sz} bytes"));
            }
        }
        Ok(())
    };
    let all_appends = ops.iter().all(|o| o["op"] == "append" || o["op"] == "finish") && ops.iter().filter(|o| o["op"] == "finish").count() == 1
        && ops.last().map(|o| o["op"] == "finish").unwrap_or(false);
    if cfg.atomic && all_appends {
        // spill_record_batch_and_finish == Append* ; Finish
        for o in ops.iter().filter(|o| o["op"] == "append") {
            written.push(gen_batch(&plan, o["k"].as_str().unwrap(), &mut rng));
        }
        let r = sm.spill_record_batch_and_finish(&written, "verif C21");
        let exp = ops.last().unwrap()["res"].as_str().unwrap();
        match r {
            Ok(Some(f)) if exp == "file" => file = Some(f),
            Ok(None) if exp == "none" => {}
            Ok(x) => return Err(format!("spill_record_batch_and_finish returned {} but the specification expects {exp}", if x.is_some() { "a file" } else { "None" })),
            Err(e) if faulty => failed_op = Some(format!("spill_record_batch_and_finish: {e}")),
            Err(e) => return Err(format!("spill_record_batch_and_finish failed: {e}")),
        }
        out.op_results.push("atomic".into());
    } else {
        let mut ip = sm.create_in_progress_file("verif C21").map_err(|e| format!("create_in_progress_file: {e}"))?;
        for (i, o) in ops.iter().enumerate() {
            let exp = o["res"].as_str().unwrap();
            let got: String;
            match o["op"].as_str().unwrap() {
                "append" => {
                    let b = gen_batch(&plan, o["k"].as_str().unwrap(), &mut rng);
                    match ip.append_batch(&b) {
                        Ok(_) => {
                            got = "ok".into();
                            written.push(b);
                        }
                        Err(e) => {
                            got = "err".into();
                            if exp != "err" {
                                if faulty {
                                    failed_op = Some(format!("append_batch #{}: {e}", i + 1));
                                    break;
                                }
                                return Err(format!("op {}: append_batch failed: {e}", i + 1));
                            }
                        }
                    }
                }
                "flush" => match ip.flush() {
                    Ok(()) => got = "ok".into(),
                    Err(e) => return Err(format!("op {}: flush failed: {e}", i + 1)),
                },
                _ => match ip.finish() {
                    Ok(Some(f)) => {
                        got = "file".into();
                        file = Some(f);
                    }
                    Ok(None) => got = "none".into(),
                    Err(e) => {
                        got = "err".into();
                        if exp != "err" {
                            if faulty {
                                failed_op = Some(format!("finish #{}: {e}", i + 1));
                                break;
                            }
                            return Err(format!("op {}: finish failed: {e}", i + 1));
                        }
                    }
                },
            }
            if got != exp {
                return Err(format!("op {} ({}): returned {got}, the specification expects {exp}", i + 1, o["op"]));
            }
            out.op_results.push(got);
            out.cum_bytes.push(dm.used_disk_space());
            check_usage(&format!("after op {}", i + 1), ip.file().or(file.as_ref()))?;
        }
        drop(ip);
    }
    FAULT.store(0, Ordering::Relaxed);
    out.write_calls = HITS[2].load(Ordering::Relaxed) - w0;
    let flen = FAULT_LEN.load(Ordering::Relaxed) as u64;
    if cfg.fault_at > 0 && cfg.fault_at as u64 <= out.write_calls && failed_op.is_none() {
        return Err(format!("the {}-th OS write failed (ENOSPC) but every operation reported success", cfg.fault_at));
    }
    if let Some(_f) = &failed_op {
        // the failing operation surfaced its error; everything is released below and usage must be 0
        drop(file.take());
        let used = dm.used_disk_space();
        let prog = dm.spilling_progress();
        if prog.active_files_count != 0 {
            return Err(format!("after a failed write and release active_files_count={}", prog.active_files_count));
        }
        if used != 0 {
            if cfg.fault_at > 0 && used == flen {
                out.known_leak = true;
            } else {
                return Err(format!("after a failed/rejected write and release of every file used_disk_space()={used}"));
            }
        }
        return Ok(out);
    }
    // ---------------- read back
    let expect_read: Vec<&str> = case["read"].as_array().unwrap().iter().map(|x| x.as_str().unwrap()).collect();
    if case["finished"].as_u64().unwrap() == 1 {
        let f = file.clone().ok_or("specification expects a finished file but none was returned")?;
        if expect_read.len() != written.len() {
            return Err(format!("harness bookkeeping: {} written vs {} expected", written.len(), expect_read.len()));
        }
        out.final_bytes = f.size().unwrap_or(0);
        check_usage("after finish", Some(&f))?;
        if !faulty && metrics.spilled_bytes.value() as u64 != out.final_bytes {
            return Err(format!("spilled_bytes metric {} != file size {}", metrics.spilled_bytes.value(), out.final_bytes));
        }
        let wrows: usize = written.iter().map(|b| b.num_rows()).sum();
        if !faulty && metrics.spilled_rows.value() != wrows {
            return Err(format!("spilled_rows metric {} != rows written {wrows}", metrics.spilled_rows.value()));
        }
        let rt = if cfg.multi {
            tokio::runtime::Builder::new_multi_thread().worker_threads(2).enable_all().build().unwrap()
        } else {
            tokio::runtime::Builder::new_current_thread().enable_all().build().unwrap()
        };
        for pass in 0..2 {
            let sm2 = sm.clone();
            let f2 = Arc::clone(&f);
            let unbuffered = pass == 1 && !cfg.multi;
            let got: Result<Vec<RecordBatch>, String> = rt.block_on(async move {
                let mut s = if unbuffered { sm2.read_spill_as_stream_unbuffered(f2, None) } else { sm2.read_spill_as_stream(f2, Some(1)) }
                    .map_err(|e| format!("read_spill_as_stream: {e}"))?;
                let mut v = vec![];
                while let Some(b) = s.next().await {
                    v.push(b.map_err(|e| format!("reading the spill file failed: {e}"))?);
                }
                Ok(v)
            });
            let got = got?;
            if got.len() != written.len() {
                return Err(format!("read pass {pass}: {} batches read, {} written", got.len(), written.len()));
            }
            for (i, (w, g)) in written.iter().zip(got.iter()).enumerate() {
                same_batch(w, g).map_err(|m| format!("read pass {pass}: batch {} ({}): {m}", i + 1, expect_read[i]))?;
            }
            out.batches_read += got.len() as u64;
            out.rows += got.iter().map(|b| b.num_rows() as u64).sum::<u64>();
        }
        drop(rt);
        let path = f.path().unwrap().to_path_buf();
        drop(f);
        drop(file.take());
        if path.exists() {
            return Err("released spill file still exists".into());
        }
    } else if file.is_some() {
        return Err("a file was returned although the specification expects none".into());
    }
    let used = dm.used_disk_space();
    let prog = dm.spilling_progress();
    if used != 0 || prog.active_files_count != 0 {
        return Err(format!("after releasing every file used_disk_space()={used}, active_files_count={}", prog.active_files_count));
    }
    Ok(out)
}

fn pick_cfg(rng: &mut StdRng, i: usize) -> Cfg {
    Cfg { codec: i % 3, cap: [1usize, 2, 5, 16][rng.random_range(0..4)], multi: rng.random_bool(0.5), atomic: rng.random_bool(0.5), fault_at: 0, limit: 0 }
}

fn cfg_json(c: &Cfg) -> Value {
    json!({"codec": c.codec, "cap": c.cap, "multi": c.multi, "atomic": c.atomic, "fault_at": c.fault_at, "limit": c.limit})
}

fn cfg_from(v: &Value) -> Cfg {
    Cfg { codec: v["codec"].as_u64().unwrap() as usize, cap: v["cap"].as_u64().unwrap() as usize, multi: v["multi"].as_bool().unwrap(),
          atomic: v["atomic"].as_bool().unwrap(), fault_at: v["fault_at"].as_i64().unwrap(), limit: v["limit"].as_u64().unwrap() }
}

fn guarded(case: &Value, seed: u64, idx: usize, cfg: &Cfg) -> Result<RtOut, String> {
    let r = std::panic::catch_unwind(std::panic::AssertUnwindSafe(|| run_rt(case, seed, idx, cfg)));
    FAULT.store(0, Ordering::Relaxed);
    match r {
        Ok(x) => x,
        Err(p) => Err(format!("panic: {}", p.downcast_ref::<String>().cloned().or_else(|| p.downcast_ref::<&str>().map(|s| s.to_string())).unwrap_or_default())),
    }
}

pub fn run(cases: &[Value], seed: u64) -> Value {
    install_hook();
    std::panic::set_hook(Box::new(|_| {}));
    let mut violations = vec![];
    let mut known = vec![];
    let mut samples = vec![];
    let (mut evals, mut faults, mut limits, mut leaks, mut gc, mut rows, mut batches) = (0u64, 0u64, 0u64, 0u64, 0u64, 0u64, 0u64);
    let mut kinds_seen = std::collections::BTreeSet::new();
    let mut distinct = std::collections::HashSet::new();
    let viol = |violations: &mut Vec<Value>, case: &Value, s: u64, i: usize, c: &Cfg, m: String| {
        if violations.len() < 10 {
            violations.push(json!({"kind": "rt", "violation": {"case": case, "message": m}, "case_seed": s, "case_index": i, "cfg": cfg_json(c)}));
        }
    };
    let quick = vcommon::util::tier_quick();
    let (every, nfault, nlimit) = if quick { (5usize, 4usize, 2usize) } else { (2, 8, 4) };
    for (i, case) in cases.iter().enumerate() {
        let s = seed.wrapping_mul(7_777_777).wrapping_add(i as u64);
        let mut rng = StdRng::seed_from_u64(s ^ 0x5eed);
        let c0 = pick_cfg(&mut rng, i);
        match guarded(case, s, i, &c0) {
            Ok(o) => {
                evals += 1;
                rows += o.rows;
                batches += o.batches_read;
                if o.gc_candidate {
                    gc += 1;
                }
                kinds_seen.insert(i % NKINDS);
                distinct.insert((case["ops"].to_string(), c0.codec, c0.cap, c0.multi, c0.atomic, i % NKINDS));
                if samples.len() < 2 && o.batches_read > 2 {
                    samples.push(json!({"case": case, "cfg": cfg_json(&c0), "observed": {"op_results": o.op_results, "file_bytes": o.final_bytes, "os_write_calls": o.write_calls, "batches_read": o.batches_read, "rows_read": o.rows}}));
                }
                // fault at every OS write call of this history (sampled), and a limit below every cumulative size
                if o.write_calls > 0 && i % every == 0 {
                    let ks: Vec<i64> = if o.write_calls as usize <= nfault { (1..=o.write_calls as i64).collect() } else { (0..nfault).map(|_| rng.random_range(1..=o.write_calls as i64)).collect() };
                    for k in ks {
                        let c = Cfg { fault_at: k, ..c0.clone() };
                        match guarded(case, s, i, &c) {
                            Ok(o2) => {
                                faults += 1;
                                if o2.known_leak {
                                    leaks += 1;
                                    if known.len() < 1 {
                                        known.push(json!({"case": case, "cfg": cfg_json(&c), "message": "after the injected OS write failure and release of every file used_disk_space() stays at the length of the failed write"}));
                                    }
                                }
                            }
                            Err(m) => viol(&mut violations, case, s, i, &c, m),
                        }
                    }
                    let mut cb = o.cum_bytes.clone();
                    cb.push(o.final_bytes);
                    cb.sort();
                    cb.dedup();
                    for b in cb.into_iter().filter(|b| *b > 1).take(nlimit) {
                        let c = Cfg { limit: b - 1, ..c0.clone() };
                        match guarded(case, s, i, &c) {
                            Ok(_) => limits += 1,
                            Err(m) => viol(&mut violations, case, s, i, &c, m),
                        }
                    }
                }
            }
            Err(m) => viol(&mut violations, case, s, i, &c0, m),
        }
    }
    json!({"evaluations": evals, "fault_runs": faults, "limit_runs": limits, "known_leak_runs": leaks, "gc_candidate_cases": gc, "rows_read": rows, "batches_read": batches,
           "column_kinds_as_first_column": kinds_seen.len(), "distinct_nontrivial": distinct.len(),
           "violations": violations, "known": known, "tool_errors": [], "samples": samples, "sites": site_hits()})
}

pub fn replay(v: &Value) -> Value {
    install_hook();
    let case = &v["violation"]["case"];
    let c = cfg_from(&v["cfg"]);
    let r = guarded(case, v["case_seed"].as_u64().unwrap(), v["case_index"].as_u64().unwrap() as usize, &c);
    let violations: Vec<Value> = match r {
        Ok(_) => vec![],
        Err(m) => vec![json!({"kind": "rt", "violation": {"case": case, "message": m}, "case_seed": v["case_seed"], "case_index": v["case_index"], "cfg": v["cfg"]})],
    };
    json!({"evaluations": 1, "violations": violations, "known": [], "tool_errors": [], "samples": [json!({"case": case, "cfg": v["cfg"]})]})
}
