//! C31 — dynamic filters.
//!  mode filter: DynFilter.tla sequential histories replayed on the real DynamicFilterPhysicalExpr
//!               (base + filters derived by with_new_children) and a multi-thread stress run whose
//!               oracle is the specification's NotStale invariant.
//!  mode e2e:    DynPushGen.tla cases (joins of every SQL join type, ORDER BY .. LIMIT k) and seeded
//!               larger random tables executed over Parquet with dynamic filter pushdown on and off.

use arrow::array::{ArrayRef, Int64Array, RecordBatch, StringArray};
use arrow::datatypes::{DataType, Field, Schema, SchemaRef};
use datafusion::prelude::{ParquetReadOptions, SessionConfig, SessionContext};
use datafusion_common::ScalarValue;
use datafusion_expr::Operator;
use datafusion_physical_expr::PhysicalExpr;
use datafusion_physical_expr::expressions::{BinaryExpr, Column, DynamicFilterPhysicalExpr, Literal};
use rand::rngs::StdRng;
use rand::{Rng, SeedableRng};
use serde_json::{Value, json};
use std::future::Future;
use std::sync::Arc;
use std::sync::atomic::{AtomicBool, AtomicU64, Ordering};
use std::task::{Context, Poll};
use vcommon::util;

// ------------------------------------------------------------------------------------------ layer (a)

fn schema3() -> SchemaRef {
    Arc::new(Schema::new(vec![Field::new("a", DataType::Int64, true), Field::new("b", DataType::Int64, true), Field::new("c", DataType::Int64, true)]))
}

fn token_expr(k: i64) -> Arc<dyn PhysicalExpr> {
    Arc::new(BinaryExpr::new(Arc::new(Column::new("a", 0)), Operator::Eq, Arc::new(Literal::new(ScalarValue::Int64(Some(k))))))
}

/// (column name, column index, token) of an expression `col = literal`
fn parse(e: &Arc<dyn PhysicalExpr>) -> Result<(String, usize, i64), String> {
    let b = e.downcast_ref::<BinaryExpr>().ok_or_else(|| format!("not a binary expression: {e}"))?;
    let c = b.left().downcast_ref::<Column>().ok_or_else(|| format!("left side is not a column: {e}"))?;
    let l = b.right().downcast_ref::<Literal>().ok_or_else(|| format!("right side is not a literal: {e}"))?;
    match l.value() {
        ScalarValue::Int64(Some(v)) => Ok((c.name().to_string(), c.index(), v.to_owned())),
        o => Err(format!("unexpected literal {o:?}")),
    }
}

const COLS: [(&str, usize); 3] = [("a", 0), ("b", 1), ("c", 2)];

fn mk_filters(nf: usize) -> (Arc<DynamicFilterPhysicalExpr>, Vec<Arc<dyn PhysicalExpr>>) {
    let base = Arc::new(DynamicFilterPhysicalExpr::new(vec![Arc::new(Column::new("a", 0)) as Arc<dyn PhysicalExpr>], token_expr(0)));
    let mut fs: Vec<Arc<dyn PhysicalExpr>> = vec![base.clone()];
    for f in 1..nf {
        let (n, i) = COLS[f % 3];
        // derive from the previous filter (chains of with_new_children), alternating with the base
        let src: Arc<dyn PhysicalExpr> = if f % 2 == 0 { fs[f - 1].clone() } else { base.clone() };
        fs.push(src.with_new_children(vec![Arc::new(Column::new(n, i)) as Arc<dyn PhysicalExpr>]).expect("with_new_children"));
    }
    (base, fs)
}

fn dynf(e: &Arc<dyn PhysicalExpr>) -> &DynamicFilterPhysicalExpr {
    e.downcast_ref::<DynamicFilterPhysicalExpr>().expect("derived filter is a DynamicFilterPhysicalExpr")
}

fn poll_once<F: Future>(f: std::pin::Pin<&mut F>) -> Poll<F::Output> {
    let w = futures::task::noop_waker();
    let mut cx = Context::from_waker(&w);
    f.poll(&mut cx)
}

fn run_filter_history(case: &Value, rng: &mut StdRng, checks: &mut u64) -> Result<(), String> {
    let nf = case["nf"].as_u64().unwrap() as usize;
    let (_base, fs) = mk_filters(nf);
    let batch = RecordBatch::try_new(
        schema3(),
        vec![Arc::new(Int64Array::from(vec![0, 1, 2, 3])) as ArrayRef, Arc::new(Int64Array::from(vec![3, 2, 1, 0])), Arc::new(Int64Array::from(vec![1, 1, 2, 2]))],
    )
    .unwrap();
    let id0 = fs[0].expression_id();
    let mut complete = false;
    for (i, op) in case["ops"].as_array().unwrap().iter().enumerate() {
        let val = op["val"].as_i64().unwrap();
        let g = op["gen"].as_u64().unwrap();
        match op["op"].as_str().unwrap() {
            "update" => {
                // a waiter registered before the update must be released by it, and only by it
                let wf = dynf(&fs[rng.random_range(0..nf)]);
                let mut w = Box::pin(wf.wait_update());
                if poll_once(w.as_mut()).is_ready() {
                    return Err(format!("op {}: wait_update() returned although no update happened", i + 1));
                }
                // producers update through the original filter (update() through a derived filter would
                // pre-remap the stored expression for everybody)
                dynf(&fs[0]).update(token_expr(val)).map_err(|e| format!("update failed: {e}"))?;
                if !poll_once(w.as_mut()).is_ready() {
                    return Err(format!("op {}: wait_update() still pending after update()", i + 1));
                }
            }
            "mark_complete" => {
                let wf = dynf(&fs[rng.random_range(0..nf)]);
                let mut w = Box::pin(wf.wait_complete());
                if !complete && poll_once(w.as_mut()).is_ready() {
                    return Err(format!("op {}: wait_complete() returned before mark_complete()", i + 1));
                }
                dynf(&fs[rng.random_range(0..nf)]).mark_complete();
                complete = true;
                if !poll_once(w.as_mut()).is_ready() {
                    return Err(format!("op {}: wait_complete() still pending after mark_complete()", i + 1));
                }
                let mut w2 = Box::pin(dynf(&fs[0]).wait_complete());
                if !poll_once(w2.as_mut()).is_ready() {
                    return Err(format!("op {}: wait_complete() after completion does not return immediately", i + 1));
                }
            }
            _ => {
                let f = op["f"].as_u64().unwrap() as usize - 1;
                let d = dynf(&fs[f]);
                let (want_name, want_idx) = if f == 0 { COLS[0] } else { COLS[f % 3] };
                let which = rng.random_range(0..3);
                let e = match which {
                    0 => d.current().map_err(|e| format!("current failed: {e}"))?,
                    1 => fs[f].snapshot().map_err(|e| format!("snapshot failed: {e}"))?.ok_or("snapshot returned None")?,
                    _ => d.current().map_err(|e| format!("current failed: {e}"))?,
                };
                let (n, ix, tok) = parse(&e)?;
                *checks += 1;
                if tok != val {
                    return Err(format!("op {}: current() of filter {} returned the expression of update {tok}; the specification expects update {val} (generation {g})", i + 1, f + 1));
                }
                if n != want_name || ix != want_idx {
                    return Err(format!("op {}: filter {} returned column {n}@{ix}; its children were remapped to {want_name}@{want_idx}", i + 1, f + 1));
                }
                if fs[f].snapshot_generation() != g {
                    return Err(format!("op {}: snapshot_generation()={} ; the specification expects {g}", i + 1, fs[f].snapshot_generation()));
                }
                if which == 2 {
                    // evaluating the filter = evaluating the current expression
                    let got = fs[f].evaluate(&batch).and_then(|v| v.into_array(4)).map_err(|e| format!("evaluate failed: {e}"))?;
                    let want = e.evaluate(&batch).and_then(|v| v.into_array(4)).map_err(|e| format!("evaluate failed: {e}"))?;
                    let col = batch.column(want_idx).as_any().downcast_ref::<Int64Array>().unwrap();
                    let manual: Vec<Option<bool>> = (0..4).map(|r| Some(col.value(r) == val)).collect();
                    let manual: ArrayRef = Arc::new(arrow::array::BooleanArray::from(manual));
                    if got.to_data() != want.to_data() || got.to_data() != manual.to_data() {
                        return Err(format!("op {}: evaluate() of filter {} differs from {want_name} = {val}", i + 1, f + 1));
                    }
                }
                if fs[f].expression_id() != id0 {
                    return Err(format!("op {}: derived filter reports a different expression_id", i + 1));
                }
            }
        }
    }
    Ok(())
}

/// Real threads: `nw` writers install increasing tokens, readers call current() on base and derived
/// filters.  Oracle (sound for any schedule): with generation g0 read *before* the call, the returned
/// token's generation is >= g0 (single writer: generation = token + 1); per writer the tokens a reader
/// sees never go backwards; the remap matches the filter.
fn stress(seed: u64, nw: usize, nr: usize, updates: usize) -> Result<(u64, u64), String> {
    let (_base, fs) = mk_filters(3);
    let fs = Arc::new(fs);
    let stop = Arc::new(AtomicBool::new(false));
    let reads = Arc::new(AtomicU64::new(0));
    let slow_path = Arc::new(AtomicU64::new(0));
    let mut hs = vec![];
    for r in 0..nr {
        let fs = fs.clone();
        let stop = stop.clone();
        let reads = reads.clone();
        hs.push(std::thread::spawn(move || -> Result<(), String> {
            let mut rng = StdRng::seed_from_u64(seed * 31 + r as u64);
            let mut last = vec![vec![-1i64; nw]; 3];
            loop {
                let done = stop.load(Ordering::Acquire);
                let f = rng.random_range(0..3usize);
                let d = dynf(&fs[f]);
                let g0 = fs[f].snapshot_generation();
                let e = d.current().map_err(|e| e.to_string())?;
                let (n, ix, tok) = parse(&e)?;
                reads.fetch_add(1, Ordering::Relaxed);
                let (wn, wi) = if f == 0 { COLS[0] } else { COLS[f % 3] };
                if n != wn || ix != wi {
                    return Err(format!("reader {r}: filter {} returned column {n}@{ix}, expected {wn}@{wi}", f + 1));
                }
                if tok > 0 {
                    let w = (tok / 1_000_000) as usize;
                    let k = tok % 1_000_000;
                    if k < last[f][w] {
                        return Err(format!("reader {r}: filter {} went backwards: update {k} of writer {w} after update {}", f + 1, last[f][w]));
                    }
                    last[f][w] = k;
                    if nw == 1 && (k as u64 + 1) < g0 {
                        return Err(format!("reader {r}: current() returned generation {} but generation {g0} was visible before the call", k + 1));
                    }
                } else if g0 > 1 {
                    return Err(format!("reader {r}: current() returned the initial expression but generation {g0} was visible before the call"));
                }
                if done {
                    return Ok(());
                }
                if rng.random_range(0..16) == 0 {
                    std::thread::yield_now();
                }
            }
        }));
    }
    let mut ws = vec![];
    for w in 0..nw {
        let fs = fs.clone();
        ws.push(std::thread::spawn(move || {
            let mut rng = StdRng::seed_from_u64(seed * 77 + w as u64);
            for k in 1..=updates {
                dynf(&fs[0]).update(token_expr((w * 1_000_000 + k) as i64)).unwrap();
                if rng.random_range(0..4) == 0 {
                    std::thread::yield_now();
                }
            }
        }));
    }
    for w in ws {
        w.join().map_err(|_| "writer panicked".to_string())?;
    }
    stop.store(true, Ordering::Release);
    for h in hs {
        h.join().map_err(|_| "reader panicked".to_string())??;
    }
    // quiescent: every filter now returns the last installed generation
    let gfin = fs[0].snapshot_generation();
    if gfin != (nw * updates) as u64 + 1 {
        return Err(format!("final generation {gfin}, expected {}", nw * updates + 1));
    }
    for f in 0..3 {
        let (_, _, tok) = parse(&dynf(&fs[f]).current().map_err(|e| e.to_string())?)?;
        if nw == 1 && tok != updates as i64 {
            return Err(format!("after all updates filter {} returns update {tok}, expected {updates}", f + 1));
        }
    }
    let _ = slow_path;
    Ok((reads.load(Ordering::Relaxed), gfin))
}

fn filter_mode(cases: &[Value], seed: u64) -> Value {
    let mut violations = vec![];
    let mut evals = 0u64;
    let mut checks = 0u64;
    let mut samples = vec![];
    for (ci, case) in cases.iter().enumerate() {
        let mut rng = StdRng::seed_from_u64(seed * 9_999_991 + ci as u64);
        match run_filter_history(case, &mut rng, &mut checks) {
            Ok(()) => {
                evals += 1;
                if samples.len() < 1 && ci == cases.len() / 2 {
                    samples.push(json!({"case": case, "observed": "every current()/snapshot()/evaluate() returned the expected generation and remap"}));
                }
            }
            Err(m) => {
                if violations.len() < 10 {
                    violations.push(json!({"kind": "filter", "violation": {"case": case, "message": m}, "case_index": ci, "harness_seed": seed}));
                }
            }
        }
    }
    let quick = util::tier_quick();
    let mut stress_runs = 0u64;
    let mut stress_reads = 0u64;
    for i in 0..(if quick { 12 } else { 80 }) {
        let (nw, nr) = [(1usize, 3usize), (2, 2), (1, 2), (3, 3)][i % 4];
        match stress(seed * 1000 + i as u64, nw, nr, if quick { 400 } else { 3000 }) {
            Ok((r, _)) => {
                stress_runs += 1;
                stress_reads += r;
            }
            Err(m) => {
                if violations.len() < 10 {
                    violations.push(json!({"kind": "stress", "violation": {"case": {"writers": nw, "readers": nr, "seed": seed * 1000 + i as u64}, "message": m}, "case_index": i, "harness_seed": seed}));
                }
            }
        }
    }
    json!({"evaluations": evals, "current_checks": checks, "stress_runs": stress_runs, "stress_reads": stress_reads, "violations": violations, "samples": samples, "tool_errors": []})
}

// ------------------------------------------------------------------------------------- layers (b)/(c)

#[derive(Clone, Debug)]
struct Knobs {
    dynf: bool,
    tp: usize,
    pushdown: bool,
    partitioned: bool,
    inlist_small: bool,
    batch: usize,
}

fn session(k: &Knobs) -> SessionContext {
    let mut cfg = SessionConfig::new().with_target_partitions(k.tp).with_batch_size(k.batch);
    cfg = cfg
        .set_bool("datafusion.optimizer.enable_dynamic_filter_pushdown", k.dynf)
        .set_bool("datafusion.execution.parquet.pushdown_filters", k.pushdown)
        .set_bool("datafusion.optimizer.prefer_hash_join", true)
        .set_bool("datafusion.optimizer.repartition_joins", true)
        .set_usize("datafusion.optimizer.hash_join_single_partition_threshold", if k.partitioned { 0 } else { 1 << 30 })
        .set_usize("datafusion.optimizer.hash_join_single_partition_threshold_rows", if k.partitioned { 0 } else { 1 << 30 });
    if k.inlist_small {
        cfg = cfg.set_usize("datafusion.optimizer.hash_join_inlist_pushdown_max_distinct_values", 1).set_usize("datafusion.optimizer.hash_join_inlist_pushdown_max_size", 0);
    }
    SessionContext::new_with_config(cfg)
}

struct Table {
    cols: Vec<(String, ArrayRef)>,
}

fn write_table(dir: &std::path::Path, t: &Table, files: usize, rg: usize) -> Result<(), String> {
    use datafusion::parquet::arrow::ArrowWriter;
    use datafusion::parquet::file::properties::WriterProperties;
    std::fs::create_dir_all(dir).map_err(|e| e.to_string())?;
    let schema = Arc::new(Schema::new(t.cols.iter().map(|(n, a)| Field::new(n, a.data_type().clone(), true)).collect::<Vec<_>>()));
    let batch = RecordBatch::try_new(schema.clone(), t.cols.iter().map(|(_, a)| a.clone()).collect()).map_err(|e| e.to_string())?;
    let n = batch.num_rows();
    let per = n.div_ceil(files.max(1)).max(1);
    for f in 0..files.max(1) {
        let lo = (f * per).min(n);
        let hi = ((f + 1) * per).min(n);
        let part = batch.slice(lo, hi - lo);
        let file = std::fs::File::create(dir.join(format!("part-{f}.parquet"))).map_err(|e| e.to_string())?;
        let props = WriterProperties::builder().set_max_row_group_row_count(Some(rg)).build();
        let mut w = ArrowWriter::try_new(file, schema.clone(), Some(props)).map_err(|e| e.to_string())?;
        w.write(&part).map_err(|e| e.to_string())?;
        w.close().map_err(|e| e.to_string())?;
    }
    Ok(())
}

fn render(batches: &[RecordBatch]) -> Vec<String> {
    let mut out = vec![];
    for b in batches {
        for r in 0..b.num_rows() {
            let mut s = String::new();
            for c in 0..b.num_columns() {
                let a = b.column(c);
                if c > 0 {
                    s.push('|');
                }
                if a.is_null(r) {
                    s.push('N');
                } else if let Some(x) = a.as_any().downcast_ref::<Int64Array>() {
                    s.push_str(&x.value(r).to_string());
                } else if let Some(x) = a.as_any().downcast_ref::<StringArray>() {
                    s.push_str(x.value(r));
                } else if let Some(x) = a.as_any().downcast_ref::<arrow::array::StringViewArray>() {
                    s.push_str(x.value(r));
                } else {
                    s.push_str(&arrow::util::display::array_value_to_string(a, r).unwrap_or_default());
                }
            }
            out.push(s);
        }
    }
    out
}

fn pruned(plan: &Arc<dyn datafusion::physical_plan::ExecutionPlan>) -> u64 {
    use datafusion::physical_plan::metrics::MetricValue;
    let mut n = 0u64;
    if let Some(m) = plan.metrics() {
        for x in m.iter() {
            match x.value() {
                MetricValue::PruningMetrics { pruning_metrics, .. } => n += pruning_metrics.pruned() as u64,
                MetricValue::Count { name, count } if name.contains("pruned") => n += count.value() as u64,
                _ => {}
            }
        }
    }
    for c in plan.children() {
        n += pruned(c);
    }
    n
}

struct RunOut {
    pruned: u64,
    rows: Vec<String>,
    plan_has_dynf: bool,
    dynf_populated: bool,
}

fn run_sql(rt: &tokio::runtime::Runtime, k: &Knobs, tables: &[(&str, &std::path::Path)], sql: &str) -> Result<RunOut, String> {
    rt.block_on(async {
        let ctx = session(k);
        for (n, p) in tables {
            ctx.register_parquet(*n, p.to_str().unwrap(), ParquetReadOptions::default()).await.map_err(|e| format!("register {n}: {e}"))?;
        }
        let df = ctx.sql(sql).await.map_err(|e| format!("planning failed: {e}"))?;
        let plan = df.create_physical_plan().await.map_err(|e| format!("physical planning failed: {e}"))?;
        let before = datafusion::physical_plan::displayable(plan.as_ref()).indent(false).to_string();
        let res = datafusion::physical_plan::collect(plan.clone(), ctx.task_ctx()).await.map_err(|e| format!("execution failed: {e}"))?;
        let after = datafusion::physical_plan::displayable(plan.as_ref()).indent(false).to_string();
        Ok(RunOut { pruned: pruned(&plan), rows: render(&res), plan_has_dynf: before.contains("DynamicFilter"), dynf_populated: after.contains("DynamicFilter [") && !after.contains("DynamicFilter [ empty ]") })
    })
}

fn val(v: &Value) -> Option<i64> {
    if v["k"] == "n" { None } else { Some(v["v"].as_i64().unwrap()) }
}

fn table_from_rows(rows: &Value, names: [&str; 2]) -> Table {
    let rows = rows.as_array().unwrap();
    let k: Vec<Option<i64>> = rows.iter().map(|r| val(&r[0])).collect();
    let id: Vec<Option<i64>> = rows.iter().map(|r| val(&r[1])).collect();
    Table { cols: vec![(names[0].to_string(), Arc::new(Int64Array::from(k))), (names[1].to_string(), Arc::new(Int64Array::from(id)))] }
}

fn join_sql(jt: &str, keys: &[&str]) -> String {
    let on = keys.iter().map(|k| format!("l.{k} = r.{k}")).collect::<Vec<_>>().join(" AND ");
    let lcols = keys.iter().map(|k| format!("l.{k}")).collect::<Vec<_>>().join(", ");
    let rcols = keys.iter().map(|k| format!("r.{k}")).collect::<Vec<_>>().join(", ");
    match jt {
        "Inner" => format!("SELECT {lcols}, l.id, {rcols}, r.id FROM l JOIN r ON {on}"),
        "Left" => format!("SELECT {lcols}, l.id, {rcols}, r.id FROM l LEFT JOIN r ON {on}"),
        "Right" => format!("SELECT {lcols}, l.id, {rcols}, r.id FROM l RIGHT JOIN r ON {on}"),
        "Full" => format!("SELECT {lcols}, l.id, {rcols}, r.id FROM l FULL JOIN r ON {on}"),
        "LeftSemi" => format!("SELECT {lcols}, l.id FROM l LEFT SEMI JOIN r ON {on}"),
        "LeftAnti" => format!("SELECT {lcols}, l.id FROM l LEFT ANTI JOIN r ON {on}"),
        "RightSemi" => format!("SELECT {rcols}, r.id FROM l RIGHT SEMI JOIN r ON {on}"),
        _ => format!("SELECT {rcols}, r.id FROM l RIGHT ANTI JOIN r ON {on}"),
    }
}

fn all_knobs(rng: &mut StdRng, full: bool) -> Vec<Knobs> {
    let mut v = vec![];
    let combos: Vec<(usize, bool)> = if full { vec![(1, false), (2, false), (2, true), (4, true)] } else { vec![(1, false), (3, true), (2, false)] };
    for (tp, partitioned) in combos {
        v.push(Knobs { dynf: true, tp, pushdown: rng.random_bool(0.7), partitioned, inlist_small: rng.random_bool(0.4), batch: [2usize, 7, 8192][rng.random_range(0..3)] });
    }
    v
}

#[derive(Default)]
struct E2e {
    evals: u64,
    queries: u64,
    on_runs: u64,
    plans_with_dynf: u64,
    populated: u64,
    runs_scan_pruned: u64,
    join_types: std::collections::BTreeMap<String, u64>,
    violations: Vec<Value>,
    samples: Vec<Value>,
    distinct: std::collections::HashSet<String>,
}

fn viol(e: &mut E2e, case: Value, knobs: &Knobs, sql: &str, msg: String, ci: usize, seed: u64) {
    if e.violations.len() < 10 {
        e.violations.push(json!({"kind": "e2e", "violation": {"case": case, "sql": sql, "knobs": format!("{knobs:?}"), "message": msg}, "case_index": ci, "harness_seed": seed}));
    }
}

fn e2e_case(rt: &tokio::runtime::Runtime, e: &mut E2e, case: &Value, ci: usize, seed: u64, full: bool) -> Result<(), String> {
    let mut rng = StdRng::seed_from_u64(seed * 7_654_321 + ci as u64);
    let tmp = tempfile::tempdir().map_err(|e| e.to_string())?;
    let kind = case["kind"].as_str().unwrap();
    let (ldir, rdir) = (tmp.path().join("l"), tmp.path().join("r"));
    let lt = table_from_rows(&case["l"], ["k", "id"]);
    write_table(&ldir, &lt, rng.random_range(1..=3), 2)?;
    let sql;
    let mut tables: Vec<(&str, &std::path::Path)> = vec![("l", ldir.as_path())];
    let ordered = kind == "topk";
    if kind == "join" {
        let rt_ = table_from_rows(&case["r"], ["k", "id"]);
        write_table(&rdir, &rt_, rng.random_range(1..=3), 2)?;
        tables.push(("r", rdir.as_path()));
        sql = join_sql(case["jt"].as_str().unwrap(), &["k"]);
        *e.join_types.entry(case["jt"].as_str().unwrap().to_string()).or_default() += 1;
    } else {
        let desc = case["desc"].as_bool().unwrap();
        let nf = case["nf"].as_bool().unwrap();
        sql = format!("SELECT k, id FROM l ORDER BY k {} NULLS {}, id LIMIT {}", if desc { "DESC" } else { "ASC" }, if nf { "FIRST" } else { "LAST" }, case["k"]);
        *e.join_types.entry("topk".into()).or_default() += 1;
    }
    let mut expect: Vec<String> = case["expect"].as_array().unwrap().iter().map(|r| r.as_array().unwrap().iter().map(|v| val(v).map(|x| x.to_string()).unwrap_or("N".into())).collect::<Vec<_>>().join("|")).collect();
    if !ordered {
        expect.sort();
    }
    for k in all_knobs(&mut rng, full) {
        for dynf in [false, true] {
            let k = Knobs { dynf, ..k.clone() };
            e.queries += 1;
            let out = match run_sql(rt, &k, &tables, &sql) {
                Ok(o) => o,
                Err(m) => {
                    viol(e, case.clone(), &k, &sql, m, ci, seed);
                    continue;
                }
            };
            let mut rows = out.rows;
            if !ordered {
                rows.sort();
            }
            if dynf {
                e.on_runs += 1;
                e.plans_with_dynf += out.plan_has_dynf as u64;
                e.populated += out.dynf_populated as u64;
                e.runs_scan_pruned += (out.pruned > 0) as u64;
            }
            if rows != expect {
                viol(e, case.clone(), &k, &sql, format!("result {rows:?} differs from the specification's {expect:?}"), ci, seed);
            }
            e.distinct.insert(format!("{}|{}|{}|{}|{}|{}", case["jt"], k.tp, k.partitioned, k.pushdown, k.inlist_small, dynf));
        }
    }
    e.evals += 1;
    if e.samples.is_empty() && kind == "join" && expect.len() >= 2 {
        e.samples.push(json!({"case": case, "sql": sql, "observed": "identical to the specification's result with dynamic filter pushdown on and off in every partition mode"}));
    }
    Ok(())
}

/// seeded larger tables: differential on vs off (+ a sort-based reference for top-k)
fn e2e_random(rt: &tokio::runtime::Runtime, e: &mut E2e, i: usize, seed: u64, full: bool) -> Result<(), String> {
    let mut rng = StdRng::seed_from_u64(seed * 424_243 + i as u64);
    let tmp = tempfile::tempdir().map_err(|e| e.to_string())?;
    let (ldir, rdir) = (tmp.path().join("l"), tmp.path().join("r"));
    let nb = [1usize, 3, 20, 200][rng.random_range(0..4)] + rng.random_range(0..5);
    let np = rng.random_range(50..1500);
    let dom = [5i64, 40, 1000, 100000][rng.random_range(0..4)];
    let two = rng.random_bool(0.4);
    let strk = rng.random_bool(0.3);
    let mk = |n: usize, lo: i64, hi: i64, rng: &mut StdRng, base: i64| -> Table {
        let k1: Vec<Option<i64>> = (0..n).map(|_| if rng.random_bool(0.05) { None } else { Some(rng.random_range(lo..hi)) }).collect();
        let k2: Vec<Option<String>> = (0..n).map(|_| if rng.random_bool(0.05) { None } else { Some(format!("s{}", rng.random_range(0..4))) }).collect();
        let id: Vec<i64> = (0..n as i64).map(|x| base + x).collect();
        let mut cols: Vec<(String, ArrayRef)> = vec![("k".into(), Arc::new(Int64Array::from(k1)))];
        cols.push(("k2".into(), Arc::new(StringArray::from(k2))));
        cols.push(("id".into(), Arc::new(Int64Array::from(id))));
        Table { cols }
    };
    // the build side covers a sub-range of the probe domain so that bounds / membership filters prune
    let blo = rng.random_range(0..dom);
    let bhi = (blo + rng.random_range(1..=dom)).min(dom + 1).max(blo + 1);
    let small_left = rng.random_bool(0.5);
    let (l, r) = if small_left { (mk(nb, blo, bhi, &mut rng, 1_000_000), mk(np, 0, dom, &mut rng, 2_000_000)) } else { (mk(np, 0, dom, &mut rng, 1_000_000), mk(nb, blo, bhi, &mut rng, 2_000_000)) };
    write_table(&ldir, &l, rng.random_range(1..=4), [16usize, 100, 100000][rng.random_range(0..3)])?;
    write_table(&rdir, &r, rng.random_range(1..=4), [16usize, 100, 100000][rng.random_range(0..3)])?;
    let tables: Vec<(&str, &std::path::Path)> = vec![("l", ldir.as_path()), ("r", rdir.as_path())];
    let jts = ["Inner", "Left", "Right", "Full", "LeftSemi", "LeftAnti", "RightSemi", "RightAnti"];
    let jt = jts[i % 8];
    let keys: Vec<&str> = if two { vec!["k", "k2"] } else if strk { vec!["k2"] } else { vec!["k"] };
    let mut sqls = vec![(join_sql(jt, &keys), false)];
    // top-k over the larger table, total order through id
    let big = if small_left { "r" } else { "l" };
    let desc = rng.random_bool(0.5);
    let nf = rng.random_bool(0.5);
    let kk = [1usize, 5, 37][rng.random_range(0..3)];
    sqls.push((format!("SELECT k, k2, id FROM {big} ORDER BY k {} NULLS {}, id LIMIT {kk}", if desc { "DESC" } else { "ASC" }, if nf { "FIRST" } else { "LAST" }), true));
    sqls.push((format!("SELECT l.id, r.id FROM l JOIN r ON l.k = r.k ORDER BY r.id DESC, l.id LIMIT {kk}"), true));
    for (sql, ordered) in sqls {
        let mut reference: Option<Vec<String>> = None;
        for k in all_knobs(&mut rng, full) {
            for dynf in [false, true] {
                let k = Knobs { dynf, ..k.clone() };
                e.queries += 1;
                let out = match run_sql(rt, &k, &tables, &sql) {
                    Ok(o) => o,
                    Err(m) => {
                        viol(e, json!({"random_case": i, "jt": jt}), &k, &sql, m, i, seed);
                        continue;
                    }
                };
                let mut rows = out.rows;
                if !ordered {
                    rows.sort();
                }
                if dynf {
                    e.on_runs += 1;
                    e.plans_with_dynf += out.plan_has_dynf as u64;
                    e.populated += out.dynf_populated as u64;
                    e.runs_scan_pruned += (out.pruned > 0) as u64;
                }
                match &reference {
                    None => reference = Some(rows), // first run is with dynamic filters OFF
                    Some(rf) if *rf != rows => {
                        let lost = rf.iter().filter(|x| !rows.contains(x)).take(3).cloned().collect::<Vec<_>>();
                        viol(e, json!({"random_case": i, "jt": jt, "build_rows": nb, "probe_rows": np}), &k, &sql,
                             format!("{} rows with dynamic filter pushdown {} vs {} rows in the reference run (pushdown off); e.g. missing {lost:?}", rows.len(), if dynf { "on" } else { "off" }, rf.len()), i, seed);
                    }
                    _ => {}
                }
                e.distinct.insert(format!("R{}|{}|{}|{}|{}|{}|{}", if ordered { "topk" } else { jt }, k.tp, k.partitioned, k.pushdown, k.inlist_small, dynf, keys.len()));
            }
        }
    }
    e.evals += 1;
    Ok(())
}

fn e2e_mode(cases: &[Value], seed: u64, nrandom: usize) -> Value {
    let rt = tokio::runtime::Builder::new_multi_thread().worker_threads(4).enable_all().build().unwrap();
    let full = !util::tier_quick();
    let mut e = E2e::default();
    let mut tool_errors = vec![];
    for (ci, case) in cases.iter().enumerate() {
        if let Err(m) = e2e_case(&rt, &mut e, case, ci, seed, full) {
            tool_errors.push(m);
        }
    }
    for i in 0..nrandom {
        if let Err(m) = e2e_random(&rt, &mut e, i, seed, full) {
            tool_errors.push(m);
        }
    }
    json!({"evaluations": e.evals, "queries": e.queries, "runs_with_pushdown_on": e.on_runs, "plans_with_dynamic_filter": e.plans_with_dynf,
           "dynamic_filter_populated_after_run": e.populated, "pushdown_on_runs_where_the_scan_pruned_rows_or_row_groups": e.runs_scan_pruned, "per_join_type": e.join_types, "distinct_nontrivial": e.distinct.len(),
           "violations": e.violations, "samples": e.samples, "tool_errors": tool_errors})
}

pub fn main() {
    let mode = util::arg("--mode").unwrap_or_else(|| "filter".into());
    let out = util::arg("--out").expect("--out");
    let seed = util::seed();
    let res = if let Some(rp) = util::arg("--replay") {
        let v: Value = serde_json::from_str(&std::fs::read_to_string(&rp).expect("replay file")).expect("json");
        let hs = v["harness_seed"].as_u64().unwrap_or(seed);
        let ci = v["case_index"].as_u64().unwrap_or(0) as usize;
        match v["kind"].as_str().unwrap_or("filter") {
            "filter" => {
                let mut cases = vec![json!({"nf": 1, "ops": []}); ci];
                cases.push(v["violation"]["case"].clone());
                let mut r = filter_mode(&cases, hs);
                r["evaluations"] = json!(1);
                r
            }
            "stress" => filter_mode(&[], hs),
            _ => {
                let rt = tokio::runtime::Builder::new_multi_thread().worker_threads(4).enable_all().build().unwrap();
                let mut e = E2e::default();
                let case = &v["violation"]["case"];
                let r = if case.get("random_case").is_some() { e2e_random(&rt, &mut e, ci, hs, !util::tier_quick()) } else { e2e_case(&rt, &mut e, case, ci, hs, !util::tier_quick()) };
                json!({"evaluations": 1, "violations": e.violations, "samples": [case], "tool_errors": r.err().map(|m| vec![m]).unwrap_or_default()})
            }
        }
    } else {
        let cases = util::read_ndjson(&util::arg("--in").expect("--in"));
        match mode.as_str() {
            "filter" => filter_mode(&cases, seed),
            _ => e2e_mode(&cases, seed, util::arg("--random").and_then(|s| s.parse().ok()).unwrap_or(0)),
        }
    };
    std::fs::write(&out, serde_json::to_string(&res).unwrap()).unwrap();
    util::summary(json!({"evaluations": res["evaluations"], "violations": res["violations"].as_array().map(|a| a.len())}));
}
