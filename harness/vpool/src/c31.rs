pub fn main() { eprintln!("c31: not built yet"); std::process::exit(2); }
