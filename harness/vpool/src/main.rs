//! Resource accounting drivers (B3 behaviour replay): C21 disk manager + spill files,
//! C17 memory pools, C31 dynamic filters — DESIGN.md §7.2.
mod c17;
mod c21;
mod c31;

fn main() {
    let a: Vec<String> = std::env::args().collect();
    let cmd = a.get(1).map(|s| s.as_str()).unwrap_or("");
    match cmd {
        "c21" => c21::main(),
        "c17" => c17::main(),
        "c31" => c31::main(),
        _ => {
            eprintln!("usage: vpool <c21|c17|c31> [options]");
            std::process::exit(2);
        }
    }
}
