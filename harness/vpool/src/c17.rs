pub fn main() { eprintln!("c17: not built yet"); std::process::exit(2); }
