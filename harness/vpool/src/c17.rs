//! C17 — memory pools.  Replays MemPool.tla histories (sequential behaviours with the observable
//! values expected after every operation) on every real pool kind x wrapper combination.

use datafusion_common::{DataFusionError, human_readable_size};
use datafusion_execution::memory_pool::{
    FairSpillPool, GreedyMemoryPool, MemoryConsumer, MemoryLimit, MemoryPool, MemoryReservation, PeakRecordingPool, TrackConsumersPool,
    UnboundedMemoryPool,
};
use rand::rngs::StdRng;
use rand::{Rng, SeedableRng};
use serde_json::{Value, json};
use std::fmt::{Display, Formatter};
use std::num::NonZeroUsize;
use std::sync::Arc;
use vcommon::util;

#[path = "c17t.rs"]
mod threads;

/// transparent adapter so that TrackConsumersPool (generic over an owned pool) can wrap any pool
#[derive(Debug)]
struct Dyn(Arc<dyn MemoryPool>);
impl Display for Dyn {
    fn fmt(&self, f: &mut Formatter<'_>) -> std::fmt::Result {
        Display::fmt(&self.0, f)
    }
}
impl MemoryPool for Dyn {
    fn name(&self) -> &str {
        self.0.name()
    }
    fn register(&self, c: &MemoryConsumer) {
        self.0.register(c)
    }
    fn unregister(&self, c: &MemoryConsumer) {
        self.0.unregister(c)
    }
    fn grow(&self, r: &MemoryReservation, a: usize) {
        self.0.grow(r, a)
    }
    fn shrink(&self, r: &MemoryReservation, s: usize) {
        self.0.shrink(r, s)
    }
    fn try_grow(&self, r: &MemoryReservation, a: usize) -> datafusion_common::Result<()> {
        self.0.try_grow(r, a)
    }
    fn reserved(&self) -> usize {
        self.0.reserved()
    }
    fn memory_limit(&self) -> MemoryLimit {
        self.0.memory_limit()
    }
}

pub const WRAPS: [&str; 6] = ["plain", "track", "peak", "peak(track)", "track(peak)", "track(track)"];

struct Pools {
    pool: Arc<dyn MemoryPool>,
    tracks: Vec<Arc<TrackConsumersPool<Dyn>>>,
    peak: Option<Arc<PeakRecordingPool>>,
}

/// self-test only (never part of a verdict): a greedy pool whose try_grow is "add, then roll back and
/// fail when over the limit" - sequentially identical to the real pool, wrong under concurrency.  Used to
/// show that the thread layer's oracles can observe exactly this class of defect.
#[derive(Debug)]
struct AddThenRollback {
    limit: usize,
    used: std::sync::atomic::AtomicUsize,
}
impl Display for AddThenRollback {
    fn fmt(&self, f: &mut Formatter<'_>) -> std::fmt::Result {
        write!(f, "selftest")
    }
}
impl MemoryPool for AddThenRollback {
    fn name(&self) -> &str {
        "selftest"
    }
    fn grow(&self, _r: &MemoryReservation, a: usize) {
        self.used.fetch_add(a, std::sync::atomic::Ordering::Relaxed);
    }
    fn shrink(&self, _r: &MemoryReservation, s: usize) {
        self.used.fetch_sub(s, std::sync::atomic::Ordering::Relaxed);
    }
    fn try_grow(&self, _r: &MemoryReservation, a: usize) -> datafusion_common::Result<()> {
        let new = self.used.fetch_add(a, std::sync::atomic::Ordering::Relaxed) + a;
        if new > self.limit {
            self.used.fetch_sub(a, std::sync::atomic::Ordering::Relaxed);
            return Err(DataFusionError::ResourcesExhausted("selftest".into()));
        }
        Ok(())
    }
    fn reserved(&self) -> usize {
        self.used.load(std::sync::atomic::Ordering::Relaxed)
    }
    fn memory_limit(&self) -> MemoryLimit {
        MemoryLimit::Finite(self.limit)
    }
}

fn build(kind: &str, limit: usize, wrap: usize) -> Pools {
    let base: Arc<dyn MemoryPool> = match kind {
        "selftest" => Arc::new(AddThenRollback { limit, used: Default::default() }),
        "unbounded" => Arc::new(UnboundedMemoryPool::default()),
        "greedy" => Arc::new(GreedyMemoryPool::new(limit)),
        _ => Arc::new(FairSpillPool::new(limit)),
    };
    let top = NonZeroUsize::new(3).unwrap();
    match wrap {
        0 => Pools { pool: base, tracks: vec![], peak: None },
        1 => {
            let t = Arc::new(TrackConsumersPool::new(Dyn(base), top));
            Pools { pool: t.clone(), tracks: vec![t], peak: None }
        }
        2 => {
            let p = Arc::new(PeakRecordingPool::new(base));
            Pools { pool: p.clone(), tracks: vec![], peak: Some(p) }
        }
        3 => {
            let t = Arc::new(TrackConsumersPool::new(Dyn(base), top));
            let p = Arc::new(PeakRecordingPool::new(t.clone()));
            Pools { pool: p.clone(), tracks: vec![t], peak: Some(p) }
        }
        4 => {
            let p = Arc::new(PeakRecordingPool::new(base));
            let t = Arc::new(TrackConsumersPool::new(Dyn(p.clone()), top));
            Pools { pool: t.clone(), tracks: vec![t], peak: Some(p) }
        }
        _ => {
            let t1 = Arc::new(TrackConsumersPool::new(Dyn(base), top));
            let t2 = Arc::new(TrackConsumersPool::new(Dyn(t1.clone()), NonZeroUsize::new(1).unwrap()));
            Pools { pool: t2.clone(), tracks: vec![t1, t2], peak: None }
        }
    }
}

#[derive(Default)]
pub struct Stats {
    pub runs: u64,
    pub ops: u64,
    pub try_grow_ok: u64,
    pub try_grow_err: u64,
    pub known: u64,
    pub post_known_ops: u64,
    pub report_top_checks: u64,
}

fn arr(v: &Value) -> Vec<u64> {
    v.as_array().unwrap().iter().map(|x| x.as_u64().unwrap()).collect()
}

fn run_history(case: &Value, wrap: usize, rng: &mut StdRng, st: &mut Stats, observed: &mut Vec<Value>) -> Result<bool, Value> {
    let kind = case["kind"].as_str().unwrap();
    let unit: usize = [1usize, 1, 10, 1000, 1 << 20][rng.random_range(0..5)];
    let limit = case["limit"].as_u64().unwrap() as usize * unit;
    let pools = build(kind, limit, wrap);
    let pool = &pools.pool;
    let ops = case["ops"].as_array().unwrap();
    let nr = ops[0]["sizes"].as_array().unwrap().len();
    let nc = ops[0]["tr"].as_array().unwrap().len();
    let mut res: Vec<Option<MemoryReservation>> = (0..nr).map(|_| None).collect();
    let mut owner = vec![0usize; nr];
    let mut cons_spill = vec![false; nc];
    let mut cons_live = vec![false; nc];
    let mut ncons = 0usize;
    let mut diverged = false; // the known fair-pool divergence happened: only the property-level oracle applies
    let mut hit_known = false;
    let fail = |i: usize, msg: String, obs: Value| -> Value {
        json!({"case": case, "wrap": WRAPS[wrap], "unit": unit, "op_index": i + 1, "message": msg, "observed": obs})
    };
    match pool.memory_limit() {
        MemoryLimit::Infinite if kind == "unbounded" => {}
        MemoryLimit::Finite(l) if kind != "unbounded" && l == limit => {}
        _ => return Err(fail(0, "memory_limit() does not report the configured limit".into(), json!(null))),
    }
    for (i, op) in ops.iter().enumerate() {
        st.ops += 1;
        if diverged {
            st.post_known_ops += 1;
        }
        let o = op["op"].as_str().unwrap();
        let r = op["r"].as_u64().unwrap() as usize;
        let n = op["n"].as_u64().unwrap() as usize * unit;
        let exp_res = op["res"].as_str().unwrap();
        let exp_ret = op["ret"].as_u64().unwrap() as usize;
        if diverged && matches!(o, "shrink" | "split") {
            // after the known divergence the real reservation may hold less than the model's (a try_shrink the
            // model rejects can succeed on the real, larger size): never call shrink/split outside their contract
            if res[r - 1].as_ref().map(|x| x.size()).unwrap_or(0) < n {
                break;
            }
        }
        let before_reserved = pool.reserved();
        let before_sizes: Vec<usize> = res.iter().map(|x| x.as_ref().map(|x| x.size()).unwrap_or(0)).collect();
        let mut got = "ok".to_string();
        let mut ret: Option<usize> = None;
        let mut errtxt = String::new();
        let mut was_try_grow = false;
        match o {
            "register" | "register_spill" => {
                ncons += 1;
                let sp = o == "register_spill";
                let c = MemoryConsumer::new(format!("c{ncons}")).with_can_spill(sp);
                res[r - 1] = Some(c.register(pool));
                owner[r - 1] = ncons;
                cons_spill[ncons - 1] = sp;
                cons_live[ncons - 1] = true;
            }
            "grow" => {
                let x = res[r - 1].as_ref().unwrap();
                if rng.random_bool(0.3) { x.resize(x.size() + n) } else { x.grow(n) }
            }
            "try_grow" => {
                was_try_grow = true;
                let x = res[r - 1].as_ref().unwrap();
                let rr = if rng.random_bool(0.3) { x.try_resize(x.size() + n) } else { x.try_grow(n) };
                match rr {
                    Ok(()) => st.try_grow_ok += 1,
                    Err(e) => {
                        st.try_grow_err += 1;
                        got = "err".into();
                        errtxt = e.to_string();
                        if !matches!(e, DataFusionError::ResourcesExhausted(_)) {
                            return Err(fail(i, format!("try_grow failed with an error that is not ResourcesExhausted: {errtxt}"), json!(null)));
                        }
                    }
                }
            }
            "shrink" => {
                let x = res[r - 1].as_ref().unwrap();
                if rng.random_bool(0.3) { x.resize(x.size() - n) } else { x.shrink(n) }
            }
            "try_shrink" => {
                let x = res[r - 1].as_ref().unwrap();
                if n <= x.size() && rng.random_bool(0.3) {
                    match x.try_resize(x.size() - n) {
                        Ok(()) => ret = Some(x.size()),
                        Err(e) => {
                            got = "err".into();
                            errtxt = e.to_string();
                        }
                    }
                } else {
                    match x.try_shrink(n) {
                        Ok(v) => ret = Some(v),
                        Err(e) => {
                            got = "err".into();
                            errtxt = e.to_string();
                        }
                    }
                }
            }
            "free" => ret = Some(res[r - 1].as_ref().unwrap().free()),
            "split" | "take" | "new_empty" => {
                let q = exp_ret;
                let x = res[r - 1].as_mut().unwrap();
                let nw = match o {
                    "split" => x.split(n),
                    "take" => x.take(),
                    _ => x.new_empty(),
                };
                res[q - 1] = Some(nw);
                owner[q - 1] = owner[r - 1];
            }
            "drop" => {
                let c = owner[r - 1];
                drop(res[r - 1].take());
                if !(0..nr).any(|k| res[k].is_some() && owner[k] == c) {
                    cons_live[c - 1] = false;
                }
            }
            "reset_peak" => {
                if let Some(p) = &pools.peak {
                    p.reset_peak();
                }
            }
            other => return Err(json!({"tool_error": format!("unknown op {other}")})),
        }
        // ---------------- observe
        let reserved = pool.reserved();
        let sizes: Vec<usize> = res.iter().map(|x| x.as_ref().map(|x| x.size()).unwrap_or(0)).collect();
        let alive: Vec<u64> = res.iter().map(|x| x.is_some() as u64).collect();
        let mut tracked: Vec<Vec<(String, bool, usize, usize)>> = vec![];
        for t in &pools.tracks {
            let mut m: Vec<(String, bool, usize, usize)> = t.metrics().into_iter().map(|m| (m.name, m.can_spill, m.reserved, m.peak)).collect();
            m.sort();
            tracked.push(m);
        }
        let pk = pools.peak.as_ref().map(|p| (p.peak_reserved(), p.max_reserved()));
        let obs = json!({"res": got, "err": errtxt, "ret": ret, "reserved": reserved, "sizes": sizes, "alive": alive,
                         "tracked": tracked.iter().map(|m| m.iter().map(|(a, b, c, d)| json!([a, b, c, d])).collect::<Vec<_>>()).collect::<Vec<_>>(),
                         "peak_max": pk.map(|(a, b)| vec![a, b])});
        if observed.len() < 32 {
            observed.push(json!({"op": o, "r": r, "n": n, "res": got, "reserved": reserved, "sizes": sizes}));
        }
        // ---------------- known finding: the fair pool bounds each reservation, not the consumer
        if !diverged && o == "try_grow" && kind == "fair" && exp_res == "err" && exp_ret == 1 && got == "ok" {
            let c = owner[r - 1];
            let nres_of_c = (0..nr).filter(|k| res[*k].is_some() && owner[*k] == c).count();
            if cons_spill[c - 1] && nres_of_c >= 2 {
                diverged = true;
                hit_known = true;
                st.known += 1;
            }
        }
        // ---------------- property-level oracle
        let mut msg: Option<String> = None;
        let total: usize = sizes.iter().sum();
        if reserved != total {
            msg = Some(format!("pool.reserved()={reserved} but the live reservations hold {total}"));
        } else if alive.iter().sum::<u64>() == 0 && reserved != 0 {
            msg = Some(format!("everything dropped but reserved()={reserved}"));
        } else if got == "err" && (reserved != before_reserved || sizes != before_sizes) {
            msg = Some(format!("a failed {o} changed the state: reserved {before_reserved}->{reserved}, sizes {before_sizes:?}->{sizes:?}"));
        } else if was_try_grow && got == "ok" && kind == "greedy" && reserved > limit {
            msg = Some(format!("greedy pool granted try_grow to reserved()={reserved} beyond its limit {limit}"));
        }
        for (ti, m) in tracked.iter().enumerate() {
            if msg.is_some() {
                break;
            }
            let live_n = cons_live.iter().filter(|x| **x).count();
            if m.len() != live_n {
                msg = Some(format!("tracking pool #{ti} lists {} consumers, {live_n} are registered", m.len()));
                break;
            }
            for c in 1..=nc {
                if !cons_live[c - 1] {
                    continue;
                }
                let want: usize = (0..nr).filter(|k| res[*k].is_some() && owner[*k] == c).map(|k| sizes[k]).sum();
                match m.iter().find(|e| e.0 == format!("c{c}")) {
                    None => msg = Some(format!("tracking pool #{ti} has no entry for registered consumer c{c}")),
                    Some(e) if e.1 != cons_spill[c - 1] => msg = Some(format!("tracking pool #{ti}: can_spill of c{c} wrong")),
                    Some(e) if e.2 != want => msg = Some(format!("tracking pool #{ti}: consumer c{c} reserved {} but its reservations hold {want}", e.2)),
                    Some(e) if e.3 < e.2 => msg = Some(format!("tracking pool #{ti}: consumer c{c} peak {} < reserved {}", e.3, e.2)),
                    _ => {}
                }
            }
        }
        if msg.is_none() {
            if let Some((p, m)) = pk {
                if p < reserved || m < p {
                    msg = Some(format!("peak recorder: peak {p} max {m} reserved {reserved}"));
                }
            }
        }
        // report_top: the k largest consumers by current reservation, with their peaks
        if msg.is_none() && !tracked.is_empty() && rng.random_bool(0.5) {
            st.report_top_checks += 1;
            let k = rng.random_range(1..=3usize);
            let rep = pools.tracks[0].report_top(k);
            let lines: Vec<&str> = rep.trim_end_matches('.').split(",\n").filter(|l| !l.trim().is_empty()).collect();
            let m = &tracked[0];
            let mut sorted: Vec<usize> = m.iter().map(|e| e.2).collect();
            sorted.sort_by(|a, b| b.cmp(a));
            let want_n = k.min(m.len());
            if lines.len() != want_n {
                msg = Some(format!("report_top({k}) lists {} consumers, expected {want_n}: {rep:?}", lines.len()));
            } else {
                for (li, l) in lines.iter().enumerate() {
                    // the li-th line must describe some consumer whose reservation equals the li-th largest
                    let ok = m.iter().any(|e| {
                        e.2 == sorted[li]
                            && l.trim_start().starts_with(&format!("{}#", e.0))
                            && l.contains(&format!("(can spill: {}) consumed {}, peak {}", e.1, human_readable_size(e.2), human_readable_size(e.3)))
                    });
                    if !ok {
                        msg = Some(format!("report_top({k}) line {} = {l:?} does not describe a consumer holding the {}-th largest reservation {}; metrics {m:?}", li + 1, li + 1, sorted[li]));
                        break;
                    }
                }
            }
        }
        // ---------------- conformance with the values MemPool.tla expects
        if msg.is_none() && !diverged {
            let e_sizes: Vec<usize> = arr(&op["sizes"]).iter().map(|x| *x as usize * unit).collect();
            let e_alive = arr(&op["alive"]);
            let e_tr = arr(&op["tr"]);
            let e_pk = arr(&op["pk"]);
            let e_present = arr(&op["present"]);
            if got != exp_res {
                msg = Some(format!("{o} returned {got} ({errtxt}); the specification expects {exp_res}"));
            } else if reserved != op["reserved"].as_u64().unwrap() as usize * unit {
                msg = Some(format!("reserved()={reserved}; the specification expects {}", op["reserved"].as_u64().unwrap() as usize * unit));
            } else if sizes != e_sizes || alive != e_alive {
                msg = Some(format!("sizes {sizes:?}; the specification expects {e_sizes:?}"));
            } else if let (Some(v), true) = (ret, matches!(o, "free" | "try_shrink") && got == "ok") {
                if v != exp_ret * unit {
                    msg = Some(format!("{o} returned {v}; the specification expects {}", exp_ret * unit));
                }
            }
            for (ti, m) in tracked.iter().enumerate() {
                if msg.is_some() {
                    break;
                }
                for c in 1..=nc {
                    let e = m.iter().find(|e| e.0 == format!("c{c}"));
                    match (e_present[c - 1] == 1, e) {
                        (true, Some(e)) => {
                            if e.2 != e_tr[c - 1] as usize * unit || e.3 != e_pk[c - 1] as usize * unit {
                                msg = Some(format!("tracking pool #{ti}: c{c} reserved/peak = {}/{}; the specification expects {}/{}", e.2, e.3, e_tr[c - 1] as usize * unit, e_pk[c - 1] as usize * unit));
                            }
                        }
                        (false, None) => {}
                        (true, None) => msg = Some(format!("tracking pool #{ti}: entry of c{c} missing")),
                        (false, Some(_)) => msg = Some(format!("tracking pool #{ti}: entry of unregistered c{c} still present")),
                    }
                }
            }
            if msg.is_none() {
                if let Some((p, m)) = pk {
                    let (ep, em) = (op["peak"].as_u64().unwrap() as usize * unit, op["max"].as_u64().unwrap() as usize * unit);
                    if p != ep || m != em {
                        msg = Some(format!("peak_reserved()/max_reserved() = {p}/{m}; the specification expects {ep}/{em}"));
                    }
                }
            }
        }
        if let Some(m) = msg {
            return Err(fail(i, m, obs));
        }
    }
    // ---------------- end: drop everything
    for x in res.iter_mut() {
        drop(x.take());
    }
    if pool.reserved() != 0 {
        return Err(fail(ops.len(), format!("after dropping every reservation reserved()={}", pool.reserved()), json!(null)));
    }
    for (ti, t) in pools.tracks.iter().enumerate() {
        if !t.metrics().is_empty() {
            return Err(fail(ops.len(), format!("tracking pool #{ti} still lists consumers after everything was dropped"), json!(null)));
        }
    }
    st.runs += 1;
    Ok(hit_known)
}

fn one(case: &Value, ci: usize, wrap: usize, seed: u64, st: &mut Stats, observed: &mut Vec<Value>) -> Result<bool, Value> {
    let mut rng = StdRng::seed_from_u64(seed.wrapping_mul(1_000_003).wrapping_add(ci as u64 * 8 + wrap as u64));
    match std::panic::catch_unwind(std::panic::AssertUnwindSafe(|| run_history(case, wrap, &mut rng, st, observed))) {
        Ok(r) => r,
        Err(p) => {
            let m = p.downcast_ref::<String>().cloned().or_else(|| p.downcast_ref::<&str>().map(|s| s.to_string())).unwrap_or_default();
            Err(json!({"case": case, "wrap": WRAPS[wrap], "message": format!("panic: {m}")}))
        }
    }
}

pub fn main() {
    let out = util::arg("--out").expect("--out");
    let seed = util::seed();
    std::panic::set_hook(Box::new(|_| {}));
    let mut st = Stats::default();
    let mut violations = vec![];
    let mut known = vec![];
    let mut samples = vec![];
    let mut tool_errors: Vec<String> = vec![];
    let mut per_wrap = vec![0u64; WRAPS.len()];
    let mut per_kind = std::collections::BTreeMap::<String, u64>::new();
    if util::arg("--mode").as_deref() == Some("threads") {
        let res = threads::main_threads(seed, util::tier_quick(), None);
        std::fs::write(&out, serde_json::to_string(&res).unwrap()).unwrap();
        util::summary(json!({"evaluations": res["evaluations"], "violations": res["violations"].as_array().unwrap().len()}));
        return;
    }
    if let Some(rp) = util::arg("--replay") {
        let v: Value = serde_json::from_str(&std::fs::read_to_string(&rp).expect("replay file")).expect("json");
        if v["kind"] == "threads" {
            let res = threads::main_threads(seed, util::tier_quick(), Some(threads::cfg_from(&v["violation"]["case"])));
            std::fs::write(&out, serde_json::to_string(&res).unwrap()).unwrap();
            util::summary(json!({"evaluations": 1, "violations": res["violations"].as_array().unwrap().len()}));
            return;
        }
        let wrap = WRAPS.iter().position(|w| *w == v["violation"]["wrap"].as_str().unwrap_or("plain")).unwrap_or(0);
        let mut obs = vec![];
        match one(&v["violation"]["case"], v["case_index"].as_u64().unwrap_or(0) as usize, wrap, v["harness_seed"].as_u64().unwrap_or(seed), &mut st, &mut obs) {
            Ok(_) => {}
            Err(e) => violations.push(json!({"violation": e, "case_index": v["case_index"], "harness_seed": v["harness_seed"]})),
        }
        samples.push(json!({"case": v["violation"]["case"], "observed": obs}));
    } else {
        let cases = util::read_ndjson(&util::arg("--in").expect("--in"));
        for (ci, case) in cases.iter().enumerate() {
            *per_kind.entry(case["kind"].as_str().unwrap().to_string()).or_default() += 1;
            for wrap in 0..WRAPS.len() {
                let mut obs = vec![];
                match one(case, ci, wrap, seed, &mut st, &mut obs) {
                    Ok(k) => {
                        per_wrap[wrap] += 1;
                        if k && known.len() < 1 {
                            known.push(json!({"case": case, "wrap": WRAPS[wrap], "observed": obs.clone()}));
                        }
                        if samples.len() < 2 && ci % 499 == 7 && wrap == 3 {
                            samples.push(json!({"case": case, "wrap": WRAPS[wrap], "observed": obs}));
                        }
                    }
                    Err(e) => {
                        if let Some(t) = e.get("tool_error") {
                            tool_errors.push(t.to_string());
                        } else if violations.len() < 10 {
                            violations.push(json!({"violation": e, "case_index": ci, "harness_seed": seed}));
                        }
                    }
                }
            }
        }
    }
    let res = json!({"evaluations": st.runs, "ops": st.ops, "try_grow_ok": st.try_grow_ok, "try_grow_err": st.try_grow_err,
                     "known_divergences": st.known, "post_known_ops": st.post_known_ops, "report_top_checks": st.report_top_checks,
                     "per_wrapper": WRAPS.iter().zip(per_wrap.iter()).map(|(w, n)| json!([w, n])).collect::<Vec<_>>(), "per_kind": per_kind,
                     "violations": violations, "known": known, "tool_errors": tool_errors, "samples": samples});
    std::fs::write(&out, serde_json::to_string(&res).unwrap()).unwrap();
    util::summary(json!({"evaluations": st.runs, "violations": res["violations"].as_array().unwrap().len()}));
}
