//! C17 real-thread layer.  3-7 OS threads share one real pool (+ wrapper stack):
//!   hogs     only issue fallible growths larger than the limit            -> must always fail
//!   workers  run seeded op scripts whose own total never exceeds a budget  (sum of budgets <= limit,
//!            fair pool: budget = limit / #spillable consumers)            -> a fitting try_grow must succeed
//!   observer samples reserved()/metrics() continuously
//! with barriers; at every quiescent point reserved == sum of sizes exactly.
//! Every oracle is an invariant MemPool.tla proves for ALL interleavings (WithinLimit,
//! NoSpuriousRefusal, FailedChangesNothing, Accounting, Tracked): one observed breach is a violation;
//! observing none proves nothing about the interleavings that did not occur.

use super::{WRAPS, build};
use datafusion_execution::memory_pool::{MemoryConsumer, MemoryReservation};
use parking_lot::Mutex;
use rand::rngs::StdRng;
use rand::{Rng, SeedableRng};
use serde_json::{Value, json};
use std::sync::atomic::{AtomicBool, AtomicU64, AtomicUsize, Ordering};
use std::sync::{Arc, Barrier};

#[derive(Clone, Debug)]
pub struct TCfg {
    pub kind: String,
    pub wrap: usize,
    pub limit: usize,
    pub workers: usize,
    pub hogs: usize,
    pub rounds: usize,
    pub ops: usize,
    pub seed: u64,
}

pub fn cfg_json(c: &TCfg) -> Value {
    json!({"kind": c.kind, "wrap": WRAPS[c.wrap], "limit": c.limit, "workers": c.workers, "hogs": c.hogs, "rounds": c.rounds, "ops_per_round": c.ops, "seed": c.seed})
}

pub fn cfg_from(v: &Value) -> TCfg {
    TCfg {
        kind: v["kind"].as_str().unwrap().to_string(),
        wrap: WRAPS.iter().position(|w| *w == v["wrap"].as_str().unwrap()).unwrap_or(0),
        limit: v["limit"].as_u64().unwrap() as usize,
        workers: v["workers"].as_u64().unwrap() as usize,
        hogs: v["hogs"].as_u64().unwrap() as usize,
        rounds: v["rounds"].as_u64().unwrap() as usize,
        ops: v["ops_per_round"].as_u64().unwrap() as usize,
        seed: v["seed"].as_u64().unwrap(),
    }
}

#[derive(Default)]
pub struct TStats {
    pub worker_ops: AtomicU64,
    pub fitting_try_grow: AtomicU64,
    pub hog_attempts: AtomicU64,
    pub observer_samples: AtomicU64,
    pub metric_samples: AtomicU64,
    pub quiescent_points: AtomicU64,
    pub max_seen: AtomicUsize,
}

struct Shared {
    msgs: Mutex<Vec<String>>,
    arrived: AtomicUsize,
    stop_obs: AtomicBool,
    held: Vec<AtomicUsize>,
}

fn bad(sh: &Shared, m: String) {
    let mut g = sh.msgs.lock();
    if g.len() < 5 {
        g.push(m);
    }
}

/// one worker op on its reservations; `total` is the worker's own ground truth
fn worker_op(rng: &mut StdRng, main: &mut MemoryReservation, extra: &mut Vec<MemoryReservation>, total: &mut usize, budget: usize, limit: usize, fair: bool, w: usize, sh: &Shared, st: &TStats) {
    let room = budget - *total;
    match rng.random_range(0..12) {
        0..=3 if room > 0 => {
            // a growth that fits whatever the other threads can ever hold: must be granted
            let n = rng.random_range(1..=room);
            let target = if !extra.is_empty() && rng.random_bool(0.3) { &extra[0] } else { &*main };
            let r = if rng.random_bool(0.25) { target.try_resize(target.size() + n) } else { target.try_grow(n) };
            st.fitting_try_grow.fetch_add(1, Ordering::Relaxed);
            match r {
                Ok(()) => *total += n,
                Err(e) => bad(sh, format!("worker {w}: try_grow({n}) refused although it holds {} of its budget {budget} (limit {limit}): {}", *total, e.to_string().lines().last().unwrap_or(""))),
            }
        }
        4 => {
            // cannot fit under any interleaving: must fail and change nothing.  greedy: more than the whole
            // pool; fair: more than the consumer's share (only when `main` holds the consumer's whole total,
            // so that the per-reservation and the per-consumer reading of the share agree)
            if limit != usize::MAX && (!fair || extra.is_empty()) {
                let n = if fair { room + 1 + rng.random_range(0..limit) } else { limit + 1 + rng.random_range(0..limit) };
                let before = main.size();
                if main.try_grow(n).is_ok() {
                    bad(sh, format!("worker {w}: try_grow({n}) granted beyond the limit {limit} / share {budget} (holding {})", *total));
                    main.shrink(n);
                }
                if main.size() != before {
                    bad(sh, format!("worker {w}: a failed try_grow changed the reservation size {before} -> {}", main.size()));
                }
            }
        }
        5 if room > 0 => {
            let n = rng.random_range(1..=room);
            if rng.random_bool(0.3) { main.resize(main.size() + n) } else { main.grow(n) }
            *total += n;
        }
        6 | 7 if main.size() > 0 => {
            let n = rng.random_range(1..=main.size());
            match rng.random_range(0..3) {
                0 => main.shrink(n),
                1 => {
                    if main.try_shrink(n).is_err() {
                        bad(sh, format!("worker {w}: try_shrink({n}) of {} failed", main.size() + 0));
                    }
                }
                _ => main.resize(main.size() - n),
            }
            *total -= n;
        }
        8 if main.size() > 0 => {
            let f = main.free();
            *total -= f;
        }
        9 if extra.len() < 2 => {
            let e = match rng.random_range(0..3) {
                0 if main.size() > 0 => main.split(rng.random_range(1..=main.size())),
                1 => main.take(),
                _ => main.new_empty(),
            };
            extra.push(e);
        }
        10 if !extra.is_empty() => {
            let e = extra.remove(rng.random_range(0..extra.len()));
            *total -= e.size();
            drop(e);
        }
        11 => {
            if main.try_shrink(main.size() + 1).is_ok() {
                bad(sh, format!("worker {w}: try_shrink beyond the size succeeded"));
            }
        }
        _ => {}
    }
    let sum: usize = main.size() + extra.iter().map(|e| e.size()).sum::<usize>();
    if sum != *total {
        bad(sh, format!("worker {w}: its reservations hold {sum}, expected {}", *total));
        *total = sum;
    }
    st.worker_ops.fetch_add(1, Ordering::Relaxed);
}

pub fn run_threads(c: &TCfg, st: &TStats) -> Vec<String> {
    let pools = build(&c.kind, c.limit, c.wrap);
    let pool = pools.pool.clone();
    let fair = c.kind == "fair";
    let bounded = c.kind != "unbounded";
    let hogs = if bounded { c.hogs } else { 0 };
    let nspill = c.workers + hogs;
    let budget = if fair { c.limit / nspill } else { c.limit / c.workers };
    let bound = if bounded { c.limit } else { budget * c.workers };
    let sh = Arc::new(Shared { msgs: Mutex::new(vec![]), arrived: AtomicUsize::new(0), stop_obs: AtomicBool::new(false), held: (0..c.workers).map(|_| AtomicUsize::new(0)).collect() });
    let barrier = Arc::new(Barrier::new(c.workers + hogs + 1));
    // every consumer is registered before any growth (the fair share is then constant)
    let wres: Vec<MemoryReservation> = (0..c.workers).map(|i| MemoryConsumer::new(format!("w{i}")).with_can_spill(fair).register(&pool)).collect();
    let hres: Vec<MemoryReservation> = (0..hogs).map(|i| MemoryConsumer::new(format!("h{i}")).with_can_spill(fair).register(&pool)).collect();
    std::thread::scope(|s| {
        for (w, mut main) in wres.into_iter().enumerate() {
            let (sh, barrier) = (sh.clone(), barrier.clone());
            s.spawn(move || {
                let mut rng = StdRng::seed_from_u64(c.seed * 131 + w as u64);
                let mut extra: Vec<MemoryReservation> = vec![];
                let mut total = 0usize;
                for _ in 0..c.rounds {
                    for _ in 0..c.ops {
                        worker_op(&mut rng, &mut main, &mut extra, &mut total, budget, if bounded { c.limit } else { usize::MAX }, fair, w, &sh, st);
                    }
                    sh.held[w].store(total, Ordering::SeqCst);
                    sh.arrived.fetch_add(1, Ordering::SeqCst);
                    barrier.wait();
                    barrier.wait();
                }
                drop(extra);
                drop(main);
            });
        }
        for (h, res) in hres.into_iter().enumerate() {
            let (sh, barrier) = (sh.clone(), barrier.clone());
            s.spawn(move || {
                let mut rng = StdRng::seed_from_u64(c.seed * 977 + h as u64);
                for _ in 0..c.rounds {
                    // keep hammering until every worker finished its round
                    let mut k = 0usize;
                    while k < c.ops * 2 || sh.arrived.load(Ordering::Relaxed) < c.workers {
                        let n = c.limit + 1 + rng.random_range(0..c.limit * 9);
                        st.hog_attempts.fetch_add(1, Ordering::Relaxed);
                        if res.try_grow(n).is_ok() {
                            bad(&sh, format!("hog {h}: try_grow({n}) granted on a pool of {}", c.limit));
                            res.shrink(n);
                        }
                        if res.size() != 0 {
                            bad(&sh, format!("hog {h}: a failed try_grow left {} in its reservation", res.size()));
                        }
                        k += 1;
                    }
                    sh.arrived.fetch_add(1, Ordering::SeqCst);
                    barrier.wait();
                    barrier.wait();
                }
                drop(res);
            });
        }
        // observer / coordinator
        let mut rng = StdRng::seed_from_u64(c.seed * 7);
        for round in 0..c.rounds {
            while sh.arrived.load(Ordering::SeqCst) < c.workers + hogs {
                let r = pool.reserved();
                st.observer_samples.fetch_add(1, Ordering::Relaxed);
                st.max_seen.fetch_max(r, Ordering::Relaxed);
                if r > bound {
                    bad(&sh, format!("observer: reserved()={r} exceeds {} (limit {}, only fitting growth can succeed)", bound, c.limit));
                }
                if let Some(t) = pools.tracks.first() {
                    if rng.random_range(0..4) == 0 {
                        st.metric_samples.fetch_add(1, Ordering::Relaxed);
                        for m in t.metrics() {
                            let cap = if m.name.starts_with('h') { 0 } else { budget };
                            if m.reserved > cap || m.peak > cap {
                                bad(&sh, format!("observer: consumer {} tracked reserved {} peak {} but it can never hold more than {cap}", m.name, m.reserved, m.peak));
                            }
                        }
                    }
                }
                if rng.random_range(0..64) == 0 {
                    std::thread::yield_now();
                }
            }
            barrier.wait();
            // ---------------- quiescent point: exact equalities
            st.quiescent_points.fetch_add(1, Ordering::Relaxed);
            let want: usize = sh.held.iter().map(|h| h.load(Ordering::SeqCst)).sum();
            let r = pool.reserved();
            if r != want {
                bad(&sh, format!("quiescent point {round}: reserved()={r} but the live reservations hold {want}"));
            }
            for t in &pools.tracks {
                let ms = t.metrics();
                if ms.len() != c.workers + hogs {
                    bad(&sh, format!("quiescent point {round}: {} tracked consumers, {} registered", ms.len(), c.workers + hogs));
                }
                for m in ms {
                    let want = if m.name.starts_with('h') { 0 } else { sh.held[m.name[1..].parse::<usize>().unwrap()].load(Ordering::SeqCst) };
                    if m.reserved != want || m.peak < m.reserved {
                        bad(&sh, format!("quiescent point {round}: consumer {} tracked {}/{} but holds {want}", m.name, m.reserved, m.peak));
                    }
                }
            }
            if let Some(p) = &pools.peak {
                if p.peak_reserved() < r || p.max_reserved() < p.peak_reserved() {
                    bad(&sh, format!("quiescent point {round}: peak {} max {} reserved {r}", p.peak_reserved(), p.max_reserved()));
                }
                if round % 3 == 1 {
                    p.reset_peak();
                    if p.peak_reserved() != r {
                        bad(&sh, format!("quiescent point {round}: reset_peak() left peak {} with {r} reserved", p.peak_reserved()));
                    }
                }
            }
            sh.arrived.store(0, Ordering::SeqCst);
            barrier.wait();
        }
        sh.stop_obs.store(true, Ordering::SeqCst);
    });
    if pool.reserved() != 0 {
        bad(&sh, format!("after every reservation was dropped reserved()={}", pool.reserved()));
    }
    for t in &pools.tracks {
        if !t.metrics().is_empty() {
            bad(&sh, "tracked consumers remain after every reservation was dropped".into());
        }
    }
    let v = sh.msgs.lock().clone();
    v
}

pub fn configs(seed: u64, quick: bool) -> Vec<TCfg> {
    let mut v = vec![];
    let (rounds, ops) = if quick { (12, 400) } else { (60, 1500) };
    let mut i = 0u64;
    for kind in ["greedy", "fair", "unbounded"] {
        for wrap in [0usize, 1, 3, 4, 2] {
            if kind == "unbounded" && wrap > 1 {
                continue;
            }
            i += 1;
            let (workers, hogs) = [(1usize, 3usize), (2, 2), (3, 3), (2, 1)][(i as usize + seed as usize) % 4];
            v.push(TCfg { kind: kind.to_string(), wrap, limit: [100usize, 96, 1000][(i as usize) % 3], workers, hogs, rounds, ops, seed: seed * 1000 + i });
        }
    }
    v
}

pub fn main_threads(seed: u64, quick: bool, only: Option<TCfg>) -> Value {
    let st = TStats::default();
    let mut violations = vec![];
    let mut runs = vec![];
    let cfgs = match only {
        Some(c) => vec![c],
        None => configs(seed, quick),
    };
    for c in &cfgs {
        let msgs = run_threads(c, &st);
        runs.push(json!({"cfg": cfg_json(c), "breaches": msgs.len()}));
        if !msgs.is_empty() && violations.len() < 10 {
            violations.push(json!({"kind": "threads", "violation": {"case": cfg_json(c), "message": msgs.join(" ;; ")}, "case_index": 0, "harness_seed": seed}));
        }
    }
    // positive control on a harness-local add-then-rollback pool (never part of the verdict)
    let st2 = TStats::default();
    let selftest: Vec<bool> = (0..3).map(|i| {
        let c = TCfg { kind: "selftest".into(), wrap: [0usize, 1, 3][i], limit: 100, workers: 1, hogs: 3, rounds: cfgs[0].rounds, ops: cfgs[0].ops, seed: seed * 17 + i as u64 };
        !run_threads(&c, &st2).is_empty()
    }).collect();
    json!({"evaluations": cfgs.len(), "violations": violations, "runs": runs, "selftest_add_then_rollback_pool_detected": selftest,
           "worker_ops": st.worker_ops.load(Ordering::Relaxed), "fitting_try_grow_checked": st.fitting_try_grow.load(Ordering::Relaxed),
           "hog_attempts_all_refused": st.hog_attempts.load(Ordering::Relaxed), "observer_samples": st.observer_samples.load(Ordering::Relaxed),
           "metric_samples": st.metric_samples.load(Ordering::Relaxed), "quiescent_points": st.quiescent_points.load(Ordering::Relaxed),
           "max_reserved_seen": st.max_seen.load(Ordering::Relaxed), "tool_errors": [], "samples": [cfg_json(&cfgs[0])]})
}
