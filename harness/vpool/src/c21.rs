//! C21 — disk usage accounting (replay of DiskMgr.tla histories on the real DiskManager) and
//! spill file round trips (replay of SpillFile.tla histories on InProgressSpillFile/SpillManager).

use datafusion_execution::disk_manager::{DiskManager, DiskManagerBuilder, DiskManagerMode, RefCountedTempFile};
use datafusion_execution::spill_file::{SpillFile, SpillWriter};
use rand::rngs::StdRng;
use rand::{Rng, SeedableRng};
use serde_json::{Value, json};
use std::io::Write;
use std::path::PathBuf;
use std::sync::Arc;
use std::sync::atomic::{AtomicI64, AtomicU64, Ordering};
use vcommon::util;

#[path = "c21rt.rs"]
mod rt;
#[path = "c21t.rs"]
mod threads;

/// fault plan consulted by the `dm_write_fault` switch: 0 = never, 1 = fail every consult,
/// n >= 10: fail the (n-9)-th consult from now on (then disarm)
pub static FAULT: AtomicI64 = AtomicI64::new(0);
pub static FAULT_LEN: AtomicI64 = AtomicI64::new(0);
pub static HITS: [AtomicU64; 5] = [AtomicU64::new(0), AtomicU64::new(0), AtomicU64::new(0), AtomicU64::new(0), AtomicU64::new(0)];
const SITES: [&str; 5] = ["dm_w_add", "dm_w_check", "dm_write_fault", "dm_w_file", "dm_drop"];

pub fn install_hook() {
    datafusion_common::verif::set_hook(Some(Arc::new(|site: &'static str, args: &[i64]| -> i64 {
        if let Some(i) = SITES.iter().position(|s| *s == site) {
            HITS[i].fetch_add(1, Ordering::Relaxed);
        }
        if site == "dm_write_fault" {
            let f = FAULT.load(Ordering::Relaxed);
            let fire = match f {
                0 => false,
                1 => true,
                10 => {
                    FAULT.store(0, Ordering::Relaxed);
                    true
                }
                n if n > 10 => {
                    FAULT.store(n - 1, Ordering::Relaxed);
                    false
                }
                _ => false,
            };
            if fire {
                FAULT_LEN.store(args.first().copied().unwrap_or(0), Ordering::Relaxed);
                return 1;
            }
        }
        0
    })));
}

pub fn site_hits() -> Value {
    let mut m = serde_json::Map::new();
    for (i, s) in SITES.iter().enumerate() {
        m.insert(s.to_string(), json!(HITS[i].load(Ordering::Relaxed)));
    }
    Value::Object(m)
}

const INF_UNITS: u64 = 1_000_000;
const INF_BYTES: u64 = 1 << 60;

struct FileSt {
    arcs: Vec<Arc<dyn SpillFile>>,
    scl: Vec<RefCountedTempFile>,
    writer: Option<Box<dyn SpillWriter>>,
    path: PathBuf,
    /// bytes of writes that returned Ok
    ok_bytes: u64,
}

impl FileSt {
    fn live(&self) -> bool {
        !self.arcs.is_empty() || !self.scl.is_empty()
    }
    fn sizes(&self) -> Vec<u64> {
        let mut v: Vec<u64> = self.arcs.iter().map(|a| a.size().unwrap_or(u64::MAX)).collect();
        v.extend(self.scl.iter().map(|s| SpillFile::size(s).unwrap_or(u64::MAX)));
        v
    }
    fn open_writer(&self) -> datafusion_common::Result<Box<dyn SpillWriter>> {
        if let Some(a) = self.arcs.first() { a.open_writer() } else { self.scl[0].open_writer() }
    }
}

fn scale(u: u64, unit: u64) -> u64 {
    if u >= INF_UNITS { INF_BYTES } else { u * unit }
}

#[derive(Default)]
pub struct Stats {
    pub histories: u64,
    pub ops: u64,
    pub writes_ok: u64,
    pub writes_rejected: u64,
    pub writes_oserr: u64,
    pub releases: u64,
    pub known_leaks: u64,
    pub post_leak_ops: u64,
}

/// Replays one history. Returns Err(violation json) on the first divergence that is not the
/// known defect; `known` is incremented for each occurrence of the known leak pattern.
fn run_history(case: &Value, rng: &mut StdRng, st: &mut Stats, observed: &mut Vec<Value>) -> Result<(), Value> {
    let nf = case["nf"].as_u64().unwrap_or(3) as usize;
    let unit: u64 = *[1u64, 1, 3, 64, 4096, 70_000].get(rng.random_range(0..6)).unwrap();
    let lim0 = scale(case["lim0"].as_u64().unwrap(), unit);
    let tmp_roots;
    let mut b = DiskManagerBuilder::default().with_max_temp_directory_size(lim0);
    if rng.random_bool(0.3) {
        tmp_roots = Some((tempfile::tempdir().unwrap(), tempfile::tempdir().unwrap()));
        let (a, c) = tmp_roots.as_ref().unwrap();
        b = b.with_mode(DiskManagerMode::Directories(vec![a.path().to_path_buf(), c.path().to_path_buf()]));
    } else {
        tmp_roots = None;
    }
    let dm: Arc<DiskManager> = Arc::new(b.build().map_err(|e| json!({"tool_error": e.to_string()}))?);
    let mut files: Vec<Option<FileSt>> = (0..nf).map(|_| None).collect();
    let mut leak: u64 = 0; // bytes leaked by the known defect so far (0 on a repaired tree)
    let mut limit = lim0;
    let ops = case["ops"].as_array().unwrap();
    let fail = |i: usize, msg: String, obs: Value| -> Value {
        json!({"kind": "acct", "case": case, "unit": unit, "op_index": i + 1, "message": msg, "observed": obs})
    };
    for (i, op) in ops.iter().enumerate() {
        st.ops += 1;
        if leak > 0 {
            st.post_leak_ops += 1;
        }
        let kind = op["op"].as_str().unwrap();
        let f = op["f"].as_u64().unwrap() as usize;
        let n = op["n"].as_u64().unwrap();
        let flt = op["flt"].as_u64().unwrap() != 0;
        let used_before = dm.used_disk_space();
        let leak_before = leak;
        let mut res = "ok".to_string();
        let mut errtxt = String::new();
        let mut released: Option<PathBuf> = None;
        match kind {
            "create" => {
                let a = dm.create_tmp_file("verif C21").map_err(|e| fail(i, format!("create_tmp_file failed: {e}"), json!(null)))?;
                let path = a.path().map(|p| p.to_path_buf()).unwrap_or_default();
                files[f - 1] = Some(FileSt { arcs: vec![a], scl: vec![], writer: None, path, ok_bytes: 0 });
            }
            "clone_arc" => {
                let fs = files[f - 1].as_mut().unwrap();
                let k = rng.random_range(0..fs.arcs.len());
                let c = Arc::clone(&fs.arcs[k]);
                fs.arcs.push(c);
            }
            "clone_struct" => {
                let fs = files[f - 1].as_mut().unwrap();
                let c = if !fs.arcs.is_empty() && (fs.scl.is_empty() || rng.random_bool(0.5)) {
                    RefCountedTempFile::verif_clone_of(&fs.arcs[0])
                } else {
                    fs.scl[rng.random_range(0..fs.scl.len())].clone()
                };
                fs.scl.push(c);
            }
            "drop_arc" | "drop_struct" => {
                let fs = files[f - 1].as_mut().unwrap();
                let last = fs.arcs.len() + fs.scl.len() == 1;
                if last {
                    fs.writer = None;
                    released = Some(fs.path.clone());
                    st.releases += 1;
                }
                if kind == "drop_arc" {
                    let k = rng.random_range(0..fs.arcs.len());
                    drop(fs.arcs.remove(k));
                } else {
                    let k = rng.random_range(0..fs.scl.len());
                    drop(fs.scl.remove(k));
                }
            }
            "reopen" => {
                let fs = files[f - 1].as_mut().unwrap();
                fs.writer = Some(fs.open_writer().map_err(|e| fail(i, format!("open_writer failed: {e}"), json!(null)))?);
            }
            "set_limit" => {
                limit = scale(n, unit);
                dm.set_max_temp_directory_size(limit).map_err(|e| fail(i, format!("set_max_temp_directory_size failed: {e}"), json!(null)))?;
            }
            "write" => {
                let fs = files[f - 1].as_mut().unwrap();
                if fs.writer.is_none() {
                    fs.writer = Some(fs.open_writer().map_err(|e| fail(i, format!("open_writer failed: {e}"), json!(null)))?);
                }
                let w = fs.writer.as_mut().unwrap();
                let len = n * unit;
                let buf = vec![(i as u8).wrapping_add(65); len as usize];
                FAULT.store(if flt { 1 } else { 0 }, Ordering::Relaxed);
                let r = if n == 0 { w.write(&buf).map(|k| assert_eq!(k, 0)) } else { w.write_all(&buf) };
                FAULT.store(0, Ordering::Relaxed);
                match r {
                    Ok(()) => {
                        fs.ok_bytes += len;
                        st.writes_ok += 1;
                    }
                    Err(e) => {
                        errtxt = e.to_string();
                        if errtxt.contains("exceeded the allowable limit") {
                            res = "rejected".into();
                            st.writes_rejected += 1;
                        } else {
                            res = "oserr".into();
                            st.writes_oserr += 1;
                        }
                    }
                }
            }
            other => return Err(json!({"tool_error": format!("unknown op {other}")})),
        }
        // ---------------- observe
        let used = dm.used_disk_space();
        let prog = dm.spilling_progress();
        let mut sizes = vec![0u64; nf];
        let mut alive = vec![0u64; nf];
        let mut handle_disagree = None;
        let mut disk_len = vec![0u64; nf];
        for (k, fs) in files.iter().enumerate() {
            if let Some(fs) = fs {
                if fs.live() {
                    let ss = fs.sizes();
                    sizes[k] = ss[0];
                    alive[k] = 1;
                    if ss.iter().any(|s| *s != ss[0]) {
                        handle_disagree = Some(format!("handles of file {} report different sizes {:?}", k + 1, ss));
                    }
                    disk_len[k] = std::fs::metadata(&fs.path).map(|m| m.len()).unwrap_or(u64::MAX);
                }
            }
        }
        let obs = json!({"res": res, "err": errtxt, "used": used, "progress_bytes": prog.current_bytes, "active": prog.active_files_count,
                         "sizes": sizes, "alive": alive, "disk_len": disk_len, "limit": limit, "leak_known": leak});
        if observed.len() < 64 {
            observed.push(json!({"op": kind, "f": f, "n": n, "flt": flt, "res": res, "used": used, "active": prog.active_files_count, "sizes": sizes}));
        }
        // ---------------- the known defect: a failed OS write does not roll the global counter back
        let exp_res = op["res"].as_str().unwrap();
        let mut leaked_now = false;
        // (once the real counter is inflated by an earlier leak the model's admission decisions no longer
        // apply, so the pattern is then recognised from the real observations alone)
        if kind == "write" && res == "oserr" && (exp_res == "oserr" || leak_before > 0) && used == used_before + n * unit && n > 0 {
            leak += n * unit;
            leaked_now = true;
            st.known_leaks += 1;
        }
        // ---------------- property-level oracle (independent of the model's predictions)
        let live_sum: u64 = (0..nf).filter(|k| alive[*k] == 1).map(|k| sizes[k]).sum();
        let mut msg: Option<String> = None;
        if let Some(m) = handle_disagree {
            msg = Some(m);
        } else if used != live_sum + leak {
            msg = Some(format!("used_disk_space()={used} but live files hold {live_sum} bytes (known leak so far {leak})"));
        } else if prog.current_bytes != used {
            msg = Some(format!("spilling_progress().current_bytes={} != used_disk_space()={used}", prog.current_bytes));
        } else if prog.active_files_count as u64 != alive.iter().sum::<u64>() {
            msg = Some(format!("active_files_count={} but {} files are live", prog.active_files_count, alive.iter().sum::<u64>()));
        } else if alive.iter().sum::<u64>() == 0 && used != leak {
            msg = Some(format!("all files released but used_disk_space()={used}"));
        }
        for (k, fs) in files.iter().enumerate() {
            if msg.is_some() {
                break;
            }
            if let Some(fs) = fs {
                if fs.live() {
                    if sizes[k] != fs.ok_bytes {
                        msg = Some(format!("file {} size()={} but {} bytes were successfully written", k + 1, sizes[k], fs.ok_bytes));
                    } else if disk_len[k] != sizes[k] {
                        msg = Some(format!("file {} size()={} but it holds {} bytes on disk", k + 1, sizes[k], disk_len[k]));
                    }
                }
            }
        }
        if msg.is_none() {
            if let Some(p) = &released {
                if p.exists() {
                    msg = Some(format!("released file {} still exists", p.display()));
                }
            }
        }
        if msg.is_none() && kind == "write" && n > 0 {
            match res.as_str() {
                "ok" if used > limit => msg = Some(format!("write admitted although usage {used} exceeds the limit {limit} in force")),
                "rejected" if used_before + n * unit <= limit => {
                    msg = Some(format!("write of {} bytes rejected although {used_before}+{} fits the limit {limit}", n * unit, n * unit))
                }
                "rejected" if used != used_before => msg = Some(format!("rejected write changed usage {used_before} -> {used}")),
                _ => {}
            }
        }
        // ---------------- conformance with the values DiskMgr.tla expects (valid until the first leak)
        if msg.is_none() && leak_before == 0 {
            let e_used = op["used"].as_u64().unwrap() * unit + if leaked_now { leak } else { 0 };
            let e_sizes: Vec<u64> = op["sizes"].as_array().unwrap().iter().map(|x| x.as_u64().unwrap() * unit).collect();
            let e_alive: Vec<u64> = op["alive"].as_array().unwrap().iter().map(|x| x.as_u64().unwrap()).collect();
            if res != exp_res {
                msg = Some(format!("operation returned {res} ({errtxt}), specification expects {exp_res}"));
            } else if used != e_used {
                msg = Some(format!("used_disk_space()={used}, specification expects {e_used}"));
            } else if sizes != e_sizes || alive != e_alive {
                msg = Some(format!("file sizes {sizes:?}/alive {alive:?}, specification expects {e_sizes:?}/{e_alive:?}"));
            } else if prog.active_files_count as u64 != op["active"].as_u64().unwrap() {
                msg = Some(format!("active files {}, specification expects {}", prog.active_files_count, op["active"]));
            }
        }
        if let Some(m) = msg {
            return Err(fail(i, m, obs));
        }
    }
    // ---------------- end of history: release everything, usage must return to zero
    let mut paths = vec![];
    for fs in files.iter_mut().flatten() {
        fs.writer = None;
        if fs.live() {
            paths.push(fs.path.clone());
        }
        fs.arcs.clear();
        fs.scl.clear();
    }
    let used = dm.used_disk_space();
    let prog = dm.spilling_progress();
    if used != leak || prog.active_files_count != 0 {
        return Err(fail(ops.len(), format!("after releasing every file used_disk_space()={used} (known leak {leak}), active_files_count={}", prog.active_files_count),
                        json!({"used": used, "active": prog.active_files_count})));
    }
    if let Some(p) = paths.iter().find(|p| p.exists()) {
        return Err(fail(ops.len(), format!("released file {} still exists", p.display()), json!(null)));
    }
    drop(tmp_roots);
    st.histories += 1;
    Ok(())
}

pub fn acct(cases: &[Value], seed: u64) -> Value {
    install_hook();
    let mut st = Stats::default();
    let mut violations = vec![];
    let mut known = vec![];
    let mut tool_errors = vec![];
    let mut samples = vec![];
    let mut leaked_hist = 0u64;
    for (ci, case) in cases.iter().enumerate() {
        let mut rng = StdRng::seed_from_u64(seed.wrapping_mul(1_000_003).wrapping_add(ci as u64));
        let before = st.known_leaks;
        let mut observed = vec![];
        let r = std::panic::catch_unwind(std::panic::AssertUnwindSafe(|| run_history(case, &mut rng, &mut st, &mut observed)));
        match r {
            Ok(Ok(())) => {}
            Ok(Err(v)) => {
                if v.get("tool_error").is_some() {
                    tool_errors.push(v["tool_error"].as_str().unwrap_or("?").to_string());
                } else if violations.len() < 10 {
                    violations.push(json!({"kind": "acct", "violation": v, "case_index": ci, "harness_seed": seed}));
                }
            }
            Err(p) => {
                let m = p.downcast_ref::<String>().cloned().or_else(|| p.downcast_ref::<&str>().map(|s| s.to_string())).unwrap_or_default();
                if violations.len() < 10 {
                    violations.push(json!({"kind": "acct", "violation": {"case": case, "message": format!("panic: {m}")}, "case_index": ci, "harness_seed": seed}));
                }
            }
        }
        if st.known_leaks > before {
            leaked_hist += 1;
            if known.len() < 2 {
                known.push(json!({"case": case, "observed": observed}));
            }
        }
        if samples.len() < 2 && ci % 997 == 17 {
            samples.push(json!({"case": case, "observed": observed}));
        }
    }
    json!({"evaluations": st.histories, "ops": st.ops, "writes_ok": st.writes_ok, "writes_rejected": st.writes_rejected,
           "writes_oserr": st.writes_oserr, "releases": st.releases, "known_leak_events": st.known_leaks,
           "histories_with_known_leak": leaked_hist, "post_leak_ops": st.post_leak_ops,
           "violations": violations, "known": known, "tool_errors": tool_errors, "samples": samples, "sites": site_hits()})
}

pub fn main() {
    let mode = util::arg("--mode").unwrap_or_else(|| "acct".into());
    let out = util::arg("--out").expect("--out");
    let seed = util::seed();
    let res = if let Some(rp) = util::arg("--replay") {
        let v: Value = serde_json::from_str(&std::fs::read_to_string(&rp).expect("replay file")).expect("replay json");
        let hs = v["harness_seed"].as_u64().unwrap_or(seed);
        let ci = v["case_index"].as_u64().unwrap_or(0);
        match v["kind"].as_str().unwrap_or("acct") {
            "acct" => {
                // re-seed exactly as in the original run: the case sits at its original index
                let mut cases = vec![Value::Null; ci as usize];
                cases.push(v["violation"]["case"].clone());
                acct_from(&cases, hs, ci as usize)
            }
            _ => rt::replay(&v),
        }
    } else if mode == "threads" {
        threads::main_threads(seed, util::tier_quick())
    } else {
        let cases = util::read_ndjson(&util::arg("--in").expect("--in"));
        match mode.as_str() {
            "acct" => acct(&cases, seed),
            "rt" => rt::run(&cases, seed),
            _ => panic!("unknown mode"),
        }
    };
    std::fs::write(&out, serde_json::to_string(&res).unwrap()).unwrap();
    util::summary(json!({"evaluations": res["evaluations"], "violations": res["violations"].as_array().map(|a| a.len())}));
}

fn acct_from(cases: &[Value], seed: u64, only: usize) -> Value {
    install_hook();
    let mut st = Stats::default();
    let mut rng = StdRng::seed_from_u64(seed.wrapping_mul(1_000_003).wrapping_add(only as u64));
    let mut observed = vec![];
    let r = run_history(&cases[only], &mut rng, &mut st, &mut observed);
    let violations: Vec<Value> = match r {
        Ok(()) => vec![],
        Err(v) => vec![json!({"kind": "acct", "violation": v, "case_index": only, "harness_seed": seed})],
    };
    json!({"evaluations": 1, "violations": violations, "known": [], "known_leak_events": st.known_leaks, "tool_errors": [],
           "samples": [json!({"case": cases[only], "observed": observed})], "sites": site_hits()})
}
