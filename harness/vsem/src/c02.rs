//! C02 — results do not depend on execution configuration or parallelism.
//!
//! Every case carries the configurations (rows of the TLC-generated covering array) it is to be executed
//! under: `cfgs: [{id, partitions, batch_rows, settings{key:value}, concurrent}]`.  For each configuration a
//! fresh SessionContext is built, the tables are registered in the requested layout and the SQL is executed
//! (full pipeline) on every database of the case, TWICE in a row; with `concurrent` several copies of the
//! query and other queries (`others`) are run interleaved on the one SessionContext on a multi-thread
//! runtime.  Verdicts (comparison with the one TLA+ reference result) are taken by lib/c02.py.
//!
//! `vsem c02-keys` prints every configuration key known to `ConfigOptions::entries()`.
use crate::semutil::*;
use arrow::record_batch::RecordBatch;
use datafusion::common::config::ConfigOptions;
use datafusion::datasource::MemTable;
use datafusion::physical_plan::{ExecutionPlan, collect};
use datafusion::prelude::*;
use serde_json::{Value, json};
use std::sync::Arc;
use std::sync::atomic::{AtomicUsize, Ordering};
use vcommon::sqlexec::{ExecOpts, batches_to_rows, session, table_partitions};
use vcommon::util;

static DIR_SEQ: AtomicUsize = AtomicUsize::new(0);

/// The tables of one case under one configuration: MemTables (re-filled per database) or listing tables over
/// Parquet / CSV files written to the work directory (one file per layout partition; re-written and re-registered
/// per database), optionally sorted on the first column with the order declared to the engine.
struct Source {
    ctx: SessionContext,
    opts: ExecOpts,
    kind: String,
    sorted: bool,
    mem: Option<CaseDb>,
    root: std::path::PathBuf,
}

fn sort_rows_on_first(rows: &mut Vec<Value>) {
    // ASC NULLS LAST on column 1 (values are small integers / pool indices in pool order / booleans)
    rows.sort_by_key(|r| if r[0]["k"] == "n" { (1, 0) } else { (0, r[0]["v"].as_i64().unwrap()) });
}

fn table_value(desc: &Value, rows: &Value, sorted: bool) -> Value {
    let mut rs: Vec<Value> = rows.as_array().unwrap().clone();
    if sorted {
        sort_rows_on_first(&mut rs);
    }
    json!({"name": desc["name"], "cols": desc["cols"], "rows": rs})
}

/// contiguous chunks (not round-robin) so that a sorted table stays sorted inside every partition / file
fn chunked(t: &Value, opts: &ExecOpts) -> (arrow::datatypes::SchemaRef, Vec<Vec<RecordBatch>>) {
    let np = opts.partitions.max(1);
    let rows = t["rows"].as_array().unwrap();
    let per = rows.len().div_ceil(np).max(1);
    let mut out = vec![];
    let mut schema = None;
    for p in 0..np {
        let lo = (p * per).min(rows.len());
        let hi = ((p + 1) * per).min(rows.len());
        let part = json!({"name": t["name"], "cols": t["cols"], "rows": rows[lo..hi].to_vec()});
        let (sc, mut parts) = table_partitions(&part, &ExecOpts { partitions: 1, ..opts.clone() });
        schema = Some(sc);
        out.push(parts.remove(0));
    }
    (schema.unwrap(), out)
}

impl Source {
    async fn open(case: &Value, c: &Value) -> Result<Source, String> {
        let opts = cfg_opts(c);
        let kind = c["source"].as_str().unwrap_or("mem").to_string();
        let sorted = c["sorted"].as_bool().unwrap_or(false);
        let root = std::path::PathBuf::from(format!("files/{}-{}", std::process::id(), DIR_SEQ.fetch_add(1, Ordering::SeqCst)));
        if kind == "mem" && !sorted {
            let cdb = open_case(case, &opts)?;
            return Ok(Source { ctx: cdb.ctx.clone(), opts, kind, sorted, mem: Some(cdb), root });
        }
        let ctx = session(&opts)?;
        Ok(Source { ctx, opts, kind, sorted, mem: None, root })
    }

    async fn load(&mut self, case: &Value, d: usize) -> Result<(), String> {
        if let Some(cdb) = &self.mem {
            load_db(cdb, case, d).await;
            return Ok(());
        }
        let db = &case["dbs"][d];
        for (ti, desc) in case["tables"].as_array().unwrap().iter().enumerate() {
            let name = desc["name"].as_str().unwrap();
            let t = table_value(desc, &db[ti], self.sorted);
            let (schema, parts) = chunked(&t, &self.opts);
            let order = vec![vec![col(desc["cols"][0]["name"].as_str().unwrap()).sort(true, false)]];
            let _ = self.ctx.deregister_table(name);
            if self.kind == "mem" {
                let mut mt = MemTable::try_new(schema, parts).map_err(|e| e.to_string())?;
                if self.sorted {
                    mt = mt.with_sort_order(order);
                }
                self.ctx.register_table(name, Arc::new(mt)).map_err(|e| e.to_string())?;
                continue;
            }
            let dir = self.root.join(format!("db{d}")).join(name);
            std::fs::create_dir_all(&dir).map_err(|e| e.to_string())?;
            for (pi, batches) in parts.iter().enumerate() {
                if self.kind == "parquet" {
                    let f = std::fs::File::create(dir.join(format!("part-{pi}.parquet"))).map_err(|e| e.to_string())?;
                    let mut b = parquet::file::properties::WriterProperties::builder();
                    if self.opts.batch_rows > 0 {
                        b = b.set_max_row_group_row_count(Some(self.opts.batch_rows)).set_data_page_row_count_limit(1).set_write_batch_size(1);
                    }
                    let mut w = parquet::arrow::ArrowWriter::try_new(f, schema.clone(), Some(b.build())).map_err(|e| e.to_string())?;
                    for rb in batches {
                        w.write(rb).map_err(|e| e.to_string())?;
                    }
                    w.close().map_err(|e| e.to_string())?;
                } else {
                    let f = std::fs::File::create(dir.join(format!("part-{pi}.csv"))).map_err(|e| e.to_string())?;
                    let mut w = arrow::csv::WriterBuilder::new().with_header(true).build(f);
                    for rb in batches {
                        w.write(rb).map_err(|e| e.to_string())?;
                    }
                }
            }
            let path = dir.to_str().unwrap().to_string();
            if self.kind == "parquet" {
                let mut o = ParquetReadOptions::default().schema(&schema);
                if self.sorted {
                    o = o.file_sort_order(order);
                }
                self.ctx.register_parquet(name, &path, o).await.map_err(|e| e.to_string())?;
            } else {
                let mut o = CsvReadOptions::new().schema(&schema).has_header(true);
                if self.sorted {
                    o = o.file_sort_order(order);
                }
                self.ctx.register_csv(name, &path, o).await.map_err(|e| e.to_string())?;
            }
        }
        Ok(())
    }
}

impl Drop for Source {
    fn drop(&mut self) {
        if self.mem.is_none() {
            let _ = std::fs::remove_dir_all(&self.root);
        }
    }
}

fn op_names(p: &Arc<dyn ExecutionPlan>, out: &mut std::collections::BTreeSet<String>) {
    let mut n = p.name().to_string();
    if let Some(h) = p.downcast_ref::<datafusion::physical_plan::joins::HashJoinExec>() {
        n = format!("HashJoinExec:{:?}", h.partition_mode());
    }
    if let Some(a) = p.downcast_ref::<datafusion::physical_plan::aggregates::AggregateExec>() {
        n = format!("AggregateExec:{:?}", a.mode());
    }
    if let Some(x) = p.downcast_ref::<datafusion::physical_plan::sorts::sort::SortExec>() {
        if x.fetch().is_some() {
            n = "SortExec:TopK".into();
        }
    }
    out.insert(n);
    for c in p.children() {
        op_names(c, out);
    }
}

pub fn keys_main() {
    let entries: Vec<Value> = ConfigOptions::new()
        .entries()
        .into_iter()
        .map(|e| json!({"key": e.key, "default": e.value, "description": e.description}))
        .collect();
    util::summary(json!({"entries": entries}));
}

fn cfg_opts(c: &Value) -> ExecOpts {
    ExecOpts {
        partitions: c["partitions"].as_u64().unwrap_or(1) as usize,
        batch_rows: c["batch_rows"].as_u64().unwrap_or(0) as usize,
        settings: c["settings"].as_object().map(|m| m.iter().map(|(k, v)| (k.clone(), v.as_str().unwrap().to_string())).collect()).unwrap_or_default(),
        utf8view: false,
    }
}

/// One query in its own task: a panic in the engine is data for this run (reported with the configuration), not the end of the case.
async fn run_sql(ctx: &SessionContext, sql: &str) -> Value {
    let (ctx, sql) = (ctx.clone(), sql.to_string());
    match tokio::spawn(async move { run_sql_inner(&ctx, &sql).await }).await {
        Ok(v) => v,
        Err(e) => {
            let msg = if e.is_panic() {
                let p = e.into_panic();
                p.downcast_ref::<String>().cloned().or_else(|| p.downcast_ref::<&str>().map(|s| s.to_string())).unwrap_or_else(|| "panic".into())
            } else {
                format!("{e}")
            };
            json!({"err": format!("PANIC: {msg}"), "panic": true})
        }
    }
}

async fn run_sql_inner(ctx: &SessionContext, sql: &str) -> Value {
    let df = match ctx.sql(sql).await {
        Err(e) => return json!({"err": format!("plan: {e}")}),
        Ok(df) => df,
    };
    let task = Arc::new(df.task_ctx());
    let plan = match df.create_physical_plan().await {
        Err(e) => return json!({"err": format!("plan: {e}")}),
        Ok(p) => p,
    };
    let mut ops = std::collections::BTreeSet::new();
    op_names(&plan, &mut ops);
    match collect(plan, task).await {
        Err(e) => json!({"err": format!("exec: {e}"), "ops": ops}),
        Ok(b) => json!({"rows": batches_to_rows(&b), "ops": ops}),
    }
}

fn strip_ops(mut v: Value) -> (Value, Value) {
    let ops = v.as_object_mut().and_then(|m| m.remove("ops")).unwrap_or(Value::Null);
    (v, ops)
}

fn same_bag(a: &Value, b: &Value) -> bool {
    match (a.get("rows"), b.get("rows")) {
        (Some(x), Some(y)) => {
            let mut xs: Vec<String> = x.as_array().unwrap().iter().map(|r| r.to_string()).collect();
            let mut ys: Vec<String> = y.as_array().unwrap().iter().map(|r| r.to_string()).collect();
            xs.sort();
            ys.sort();
            xs == ys
        }
        _ => a.get("err").is_some() && b.get("err").is_some(),
    }
}

async fn run_case(case: Value, max_dbs: usize) -> Value {
    let id = case["id"].clone();
    let sql = case["sql"].as_str().unwrap().to_string();
    let nd = n_dbs(&case).min(max_dbs);
    let mut runs: Vec<Value> = vec![];
    let mut conc: Vec<Value> = vec![];
    let mut executions = 0usize;
    for c in case["cfgs"].as_array().unwrap() {
        let mut cdb = match Source::open(&case, c).await {
            Ok(x) => x,
            Err(e) => {
                runs.push(json!({"cfg": c["id"], "setup_err": e}));
                continue;
            }
        };
        for d in 0..nd {
            if let Err(e) = cdb.load(&case, d).await {
                runs.push(json!({"cfg": c["id"], "setup_err": format!("load: {e}")}));
                break;
            }
            let (r1, ops) = strip_ops(run_sql(&cdb.ctx, &sql).await);
            let (r2, _) = strip_ops(run_sql(&cdb.ctx, &sql).await);
            executions += 2;
            let identical = r1 == r2;
            runs.push(if identical { json!({"cfg": c["id"], "db": d, "r1": r1, "r2_identical": true, "ops": ops}) } else { json!({"cfg": c["id"], "db": d, "r1": r1, "r2": r2, "ops": ops}) });
        }
        if c["concurrent"].as_bool().unwrap_or(false) {
            if cdb.load(&case, 0).await.is_err() {
                continue;
            }
            let others: Vec<String> = case["others"].as_array().map(|a| a.iter().map(|s| s.as_str().unwrap().to_string()).collect()).unwrap_or_default();
            // sequential baselines of the other queries on this context
            let mut base = vec![];
            for o in &others {
                base.push(strip_ops(run_sql(&cdb.ctx, o).await).0);
                executions += 1;
            }
            // interleaved: 3 copies of the case's query + 2 copies of every other query
            let mut handles = vec![];
            let mut tags = vec![];
            for k in 0..3 {
                let (ctx, q) = (cdb.ctx.clone(), sql.clone());
                handles.push(tokio::spawn(async move { run_sql(&ctx, &q).await }));
                tags.push((usize::MAX, k));
            }
            for (oi, o) in others.iter().enumerate() {
                for k in 0..2 {
                    let (ctx, q) = (cdb.ctx.clone(), o.clone());
                    handles.push(tokio::spawn(async move { run_sql(&ctx, &q).await }));
                    tags.push((oi, k));
                }
            }
            let mut main_res = vec![];
            let mut other_diff = vec![];
            for (h, (oi, _k)) in handles.into_iter().zip(tags) {
                executions += 1;
                let r = match h.await {
                    Ok(v) => strip_ops(v).0,
                    Err(e) => json!({"err": format!("PANIC: {e}"), "panic": true}),
                };
                if oi == usize::MAX {
                    main_res.push(r);
                } else if !same_bag(&r, &base[oi]) {
                    other_diff.push(json!({"sql": others[oi], "sequential": base[oi], "concurrent": r}));
                }
            }
            conc.push(json!({"cfg": c["id"], "main": main_res, "other_diff": other_diff, "others": others.len()}));
        }
    }
    json!({"id": id, "runs": runs, "conc": conc, "executions": executions})
}

pub fn main() {
    let inp = util::arg("--in").expect("--in");
    let out = util::arg("--out").expect("--out");
    let threads: usize = util::arg("--threads").and_then(|s| s.parse().ok()).unwrap_or(4);
    let max_dbs: usize = util::arg("--max-dbs").and_then(|s| s.parse().ok()).unwrap_or(99);
    let cases = util::read_ndjson(&inp);
    let results = par_cases_rt(&cases, threads, 4, move |_i, c| async move { run_case(c, max_dbs).await });
    let execs: u64 = results.iter().map(|r| r["executions"].as_u64().unwrap_or(0)).sum();
    let panics = results.iter().filter(|r| r.get("panic").is_some()).count();
    util::write_ndjson(&out, &results);
    util::summary(json!({"cases": cases.len(), "executions": execs, "panics": panics}));
}
