//! C02 — results do not depend on execution configuration or parallelism.
//!
//! Every case carries the configurations (rows of the TLC-generated covering array) it is to be executed
//! under: `cfgs: [{id, partitions, batch_rows, settings{key:value}, concurrent}]`.  For each configuration a
//! fresh SessionContext is built, the tables are registered in the requested layout and the SQL is executed
//! (full pipeline) on every database of the case, TWICE in a row; with `concurrent` several copies of the
//! query and other queries (`others`) are run interleaved on the one SessionContext on a multi-thread
//! runtime.  Verdicts (comparison with the one TLA+ reference result) are taken by lib/c02.py.
//!
//! `vsem c02-keys` prints every configuration key known to `ConfigOptions::entries()`.
use crate::semutil::*;
use datafusion::common::config::ConfigOptions;
use datafusion::prelude::SessionContext;
use serde_json::{Value, json};
use vcommon::sqlexec::{ExecOpts, batches_to_rows};
use vcommon::util;

pub fn keys_main() {
    let entries: Vec<Value> = ConfigOptions::new()
        .entries()
        .into_iter()
        .map(|e| json!({"key": e.key, "default": e.value, "description": e.description}))
        .collect();
    util::summary(json!({"entries": entries}));
}

fn cfg_opts(c: &Value) -> ExecOpts {
    ExecOpts {
        partitions: c["partitions"].as_u64().unwrap_or(1) as usize,
        batch_rows: c["batch_rows"].as_u64().unwrap_or(0) as usize,
        settings: c["settings"].as_object().map(|m| m.iter().map(|(k, v)| (k.clone(), v.as_str().unwrap().to_string())).collect()).unwrap_or_default(),
        utf8view: false,
    }
}

/// One query in its own task: a panic in the engine is data for this run (reported with the configuration), not the end of the case.
async fn run_sql(ctx: &SessionContext, sql: &str) -> Value {
    let (ctx, sql) = (ctx.clone(), sql.to_string());
    match tokio::spawn(async move { run_sql_inner(&ctx, &sql).await }).await {
        Ok(v) => v,
        Err(e) => {
            let msg = if e.is_panic() {
                let p = e.into_panic();
                p.downcast_ref::<String>().cloned().or_else(|| p.downcast_ref::<&str>().map(|s| s.to_string())).unwrap_or_else(|| "panic".into())
            } else {
                format!("{e}")
            };
            json!({"err": format!("PANIC: {msg}"), "panic": true})
        }
    }
}

async fn run_sql_inner(ctx: &SessionContext, sql: &str) -> Value {
    match ctx.sql(sql).await {
        Err(e) => json!({"err": format!("plan: {e}")}),
        Ok(df) => match df.collect().await {
            Err(e) => json!({"err": format!("exec: {e}")}),
            Ok(b) => json!({"rows": batches_to_rows(&b)}),
        },
    }
}

fn same_bag(a: &Value, b: &Value) -> bool {
    match (a.get("rows"), b.get("rows")) {
        (Some(x), Some(y)) => {
            let mut xs: Vec<String> = x.as_array().unwrap().iter().map(|r| r.to_string()).collect();
            let mut ys: Vec<String> = y.as_array().unwrap().iter().map(|r| r.to_string()).collect();
            xs.sort();
            ys.sort();
            xs == ys
        }
        _ => a.get("err").is_some() && b.get("err").is_some(),
    }
}

async fn run_case(case: Value, max_dbs: usize) -> Value {
    let id = case["id"].clone();
    let sql = case["sql"].as_str().unwrap().to_string();
    let nd = n_dbs(&case).min(max_dbs);
    let mut runs: Vec<Value> = vec![];
    let mut conc: Vec<Value> = vec![];
    let mut executions = 0usize;
    for c in case["cfgs"].as_array().unwrap() {
        let opts = cfg_opts(c);
        let cdb = match open_case(&case, &opts) {
            Ok(x) => x,
            Err(e) => {
                runs.push(json!({"cfg": c["id"], "setup_err": e}));
                continue;
            }
        };
        for d in 0..nd {
            load_db(&cdb, &case, d).await;
            let r1 = run_sql(&cdb.ctx, &sql).await;
            let r2 = run_sql(&cdb.ctx, &sql).await;
            executions += 2;
            let identical = r1 == r2;
            runs.push(if identical { json!({"cfg": c["id"], "db": d, "r1": r1, "r2_identical": true}) } else { json!({"cfg": c["id"], "db": d, "r1": r1, "r2": r2}) });
        }
        if c["concurrent"].as_bool().unwrap_or(false) {
            load_db(&cdb, &case, 0).await;
            let others: Vec<String> = case["others"].as_array().map(|a| a.iter().map(|s| s.as_str().unwrap().to_string()).collect()).unwrap_or_default();
            // sequential baselines of the other queries on this context
            let mut base = vec![];
            for o in &others {
                base.push(run_sql(&cdb.ctx, o).await);
                executions += 1;
            }
            // interleaved: 3 copies of the case's query + 2 copies of every other query
            let mut handles = vec![];
            let mut tags = vec![];
            for k in 0..3 {
                let (ctx, q) = (cdb.ctx.clone(), sql.clone());
                handles.push(tokio::spawn(async move { run_sql(&ctx, &q).await }));
                tags.push((usize::MAX, k));
            }
            for (oi, o) in others.iter().enumerate() {
                for k in 0..2 {
                    let (ctx, q) = (cdb.ctx.clone(), o.clone());
                    handles.push(tokio::spawn(async move { run_sql(&ctx, &q).await }));
                    tags.push((oi, k));
                }
            }
            let mut main_res = vec![];
            let mut other_diff = vec![];
            for (h, (oi, _k)) in handles.into_iter().zip(tags) {
                executions += 1;
                let r = match h.await {
                    Ok(v) => v,
                    Err(e) => json!({"err": format!("PANIC: {e}"), "panic": true}),
                };
                if oi == usize::MAX {
                    main_res.push(r);
                } else if !same_bag(&r, &base[oi]) {
                    other_diff.push(json!({"sql": others[oi], "sequential": base[oi], "concurrent": r}));
                }
            }
            conc.push(json!({"cfg": c["id"], "main": main_res, "other_diff": other_diff, "others": others.len()}));
        }
    }
    json!({"id": id, "runs": runs, "conc": conc, "executions": executions})
}

pub fn main() {
    let inp = util::arg("--in").expect("--in");
    let out = util::arg("--out").expect("--out");
    let threads: usize = util::arg("--threads").and_then(|s| s.parse().ok()).unwrap_or(4);
    let max_dbs: usize = util::arg("--max-dbs").and_then(|s| s.parse().ok()).unwrap_or(99);
    let cases = util::read_ndjson(&inp);
    let results = par_cases_rt(&cases, threads, 4, move |_i, c| async move { run_case(c, max_dbs).await });
    let execs: u64 = results.iter().map(|r| r["executions"].as_u64().unwrap_or(0)).sum();
    let panics = results.iter().filter(|r| r.get("panic").is_some()).count();
    util::write_ndjson(&out, &results);
    util::summary(json!({"cases": cases.len(), "executions": execs, "panics": panics}));
}
