//! C48 — DataFrame operations compute the same results as the equivalent SQL.
//!
//! The plan AST of a case (spec/lib/AST.md) is rendered to a chain of `DataFrame` calls (filter, select,
//! with_column, with_column_renamed, select_columns, join / join_on, aggregate, sort, limit, distinct,
//! union / union_distinct / intersect[_distinct] / except[_distinct]; subqueries through
//! in_subquery / exists / scalar_subquery with out_ref_col) and collected on every database of the case;
//! the SQL text of the same AST is executed next to it.  Verdicts are taken by lib/c48.py.
use crate::c03::{layout_for, layout_opts};
use crate::semutil::*;
use arrow::datatypes::DataType;
use datafusion::common::{Column, ScalarValue};
use datafusion::functions::core::expr_fn::{coalesce, nullif};
use datafusion::functions::math::expr_fn::abs;
use datafusion::functions_aggregate::expr_fn::{count, count_distinct, max, min, sum, sum_distinct};
use datafusion::functions_aggregate::count::count_all;
use datafusion::functions_aggregate::{count::count_udaf, min_max::{max_udaf, min_udaf}, sum::sum_udaf};
use datafusion::functions_window::expr_fn::{dense_rank, rank, row_number};
use datafusion::logical_expr::expr::WindowFunction;
use datafusion::logical_expr::{Expr, ExprFunctionExt, JoinType, Operator, WindowFunctionDefinition, binary_expr, exists, grouping_set, in_subquery, not_exists, not_in_subquery, out_ref_col, scalar_subquery, when};
use datafusion::prelude::*;
use serde_json::{Value, json};
use std::sync::Arc;
use vcommon::sqlexec::{STR_POOL, batches_to_rows};
use vcommon::util;

struct Node {
    df: DataFrame,
    names: Vec<String>,
    kinds: Vec<String>,
}

struct Builder {
    tables: Vec<DataFrame>,
    schemas: Vec<Vec<String>>,
    next: usize,
    ops: std::collections::BTreeMap<String, usize>,
}

type Row<'a> = (&'a [String], &'a [String]); // (column names, kinds)

fn s(e: impl std::fmt::Display) -> String {
    format!("{e}")
}

fn dt_of(kind: &str) -> DataType {
    match kind {
        "i" => DataType::Int64,
        "s" => DataType::Utf8,
        _ => DataType::Boolean,
    }
}

fn lit_of(v: &Value, kind: Option<&str>) -> Expr {
    match v["k"].as_str().unwrap() {
        "i" => lit(v["v"].as_i64().unwrap()),
        "b" => lit(v["v"].as_i64().unwrap() == 1),
        "s" => lit(STR_POOL[v["v"].as_i64().unwrap() as usize]),
        _ => match kind {
            Some("i") => lit(ScalarValue::Int64(None)),
            Some("s") => lit(ScalarValue::Utf8(None)),
            Some("b") => lit(ScalarValue::Boolean(None)),
            _ => lit(ScalarValue::Null),
        },
    }
}

impl Builder {
    fn used(&mut self, op: &str) {
        *self.ops.entry(op.to_string()).or_insert(0) += 1;
    }

    fn fresh(&mut self) -> usize {
        self.next += 1;
        self.next
    }

    fn kind_of(&self, e: &Value, cur: Row, outer: Option<Row>) -> String {
        let op = e["op"].as_str().unwrap();
        match op {
            "col" => cur.1[e["i"].as_u64().unwrap() as usize - 1].clone(),
            "outer" => outer.unwrap().1[e["i"].as_u64().unwrap() as usize - 1].clone(),
            "lit" => e.get("t").and_then(|t| t.as_str()).map(|x| x.to_string()).unwrap_or_else(|| match e["v"]["k"].as_str().unwrap() {
                "n" => "i".to_string(),
                k => k.to_string(),
            }),
            "bin" => {
                if ["+", "-", "*", "/", "%"].contains(&e["f"].as_str().unwrap()) { "i".into() } else { "b".into() }
            }
            "un" => {
                if ["neg", "abs"].contains(&e["f"].as_str().unwrap()) { "i".into() } else { "b".into() }
            }
            "case" => self.kind_of(&e["whens"][0][1], cur, outer),
            "coalesce" => self.kind_of(&e["args"][0], cur, outer),
            "nullif" => self.kind_of(&e["l"], cur, outer),
            "scalarsub" => {
                let a = &e["sub"]["aggs"][0];
                match a["f"].as_str().unwrap() {
                    "min" | "max" => "i".into(), // generated scalar subqueries aggregate integer columns
                    _ => "i".into(),
                }
            }
            _ => "b".into(),
        }
    }

    fn expr(&mut self, e: &Value, cur: Row, outer: Option<Row>) -> Result<Expr, String> {
        let op = e["op"].as_str().unwrap();
        Ok(match op {
            "col" => col(Column::from_name(cur.0[e["i"].as_u64().unwrap() as usize - 1].clone())),
            "outer" => {
                let o = outer.ok_or("outer reference without an enclosing block")?;
                let i = e["i"].as_u64().unwrap() as usize - 1;
                self.used("out_ref_col");
                out_ref_col(dt_of(&o.1[i]), Column::from_name(o.0[i].clone()))
            }
            "lit" => lit_of(&e["v"], e.get("t").and_then(|t| t.as_str())),
            "bin" => {
                let l = self.expr(&e["l"], cur, outer)?;
                let r = self.expr(&e["r"], cur, outer)?;
                let f = e["f"].as_str().unwrap();
                match f {
                    "and" => l.and(r),
                    "or" => l.or(r),
                    "=" => l.eq(r),
                    "<>" => l.not_eq(r),
                    "<" => l.lt(r),
                    "<=" => l.lt_eq(r),
                    ">" => l.gt(r),
                    ">=" => l.gt_eq(r),
                    "+" => l + r,
                    "-" => l - r,
                    "*" => l * r,
                    "/" => l / r,
                    "%" => l % r,
                    "isdistinct" => binary_expr(l, Operator::IsDistinctFrom, r),
                    "isnotdistinct" => binary_expr(l, Operator::IsNotDistinctFrom, r),
                    _ => return Err(format!("bin {f}")),
                }
            }
            "un" => {
                let x = self.expr(&e["e"], cur, outer)?;
                match e["f"].as_str().unwrap() {
                    "not" => not(x),
                    "neg" => Expr::Negative(Box::new(x)),
                    "abs" => abs(x),
                    "isnull" => x.is_null(),
                    "isnotnull" => x.is_not_null(),
                    "istrue" => x.is_true(),
                    "isfalse" => x.is_false(),
                    "isnottrue" => x.is_not_true(),
                    "isnotfalse" => x.is_not_false(),
                    "isunknown" => x.is_unknown(),
                    "isnotunknown" => x.is_not_unknown(),
                    f => return Err(format!("un {f}")),
                }
            }
            "in" => {
                let x = self.expr(&e["e"], cur, outer)?;
                let mut l = vec![];
                for y in e["list"].as_array().unwrap() {
                    l.push(self.expr(y, cur, outer)?);
                }
                x.in_list(l, e["neg"].as_bool().unwrap())
            }
            "between" => {
                let x = self.expr(&e["e"], cur, outer)?;
                let lo = self.expr(&e["lo"], cur, outer)?;
                let hi = self.expr(&e["hi"], cur, outer)?;
                if e["neg"].as_bool().unwrap() { x.not_between(lo, hi) } else { x.between(lo, hi) }
            }
            "case" => {
                let ws = e["whens"].as_array().unwrap();
                let mut b = when(self.expr(&ws[0][0], cur, outer)?, self.expr(&ws[0][1], cur, outer)?);
                for w in &ws[1..] {
                    b = b.when(self.expr(&w[0], cur, outer)?, self.expr(&w[1], cur, outer)?);
                }
                let els = self.expr(&e["else"], cur, outer)?;
                b.otherwise(els).map_err(s)?
            }
            "coalesce" => {
                let mut a = vec![];
                for y in e["args"].as_array().unwrap() {
                    a.push(self.expr(y, cur, outer)?);
                }
                coalesce(a)
            }
            "nullif" => nullif(self.expr(&e["l"], cur, outer)?, self.expr(&e["r"], cur, outer)?),
            "insub" => {
                let x = self.expr(&e["e"], cur, outer)?;
                let sub = self.build(&e["sub"], Some(cur))?;
                let plan = Arc::new(sub.df.into_unoptimized_plan());
                self.used("in_subquery");
                if e["neg"].as_bool().unwrap() { not_in_subquery(x, plan) } else { in_subquery(x, plan) }
            }
            "exists" => {
                let sub = self.build(&e["sub"], Some(cur))?;
                let plan = Arc::new(sub.df.into_unoptimized_plan());
                self.used("exists");
                if e["neg"].as_bool().unwrap() { not_exists(plan) } else { exists(plan) }
            }
            "scalarsub" => {
                let sub = self.build(&e["sub"], Some(cur))?;
                self.used("scalar_subquery");
                scalar_subquery(Arc::new(sub.df.into_unoptimized_plan()))
            }
            "quant" => return Err("unsupported: no DataFrame helper for quantified subquery comparisons".into()),
            o => return Err(format!("expr op {o}")),
        })
    }

    /// DataFrame for plan `p`; `outer` = current row of the enclosing query block (for subqueries).
    fn build(&mut self, p: &Value, outer: Option<Row>) -> Result<Node, String> {
        let op = p["op"].as_str().unwrap();
        let me = self.fresh();
        let out = |i: usize| format!("n{me}c{}", i + 1);
        match op {
            "scan" => {
                let t = p["t"].as_u64().unwrap() as usize - 1;
                let kinds = self.schemas[t].clone();
                let names: Vec<String> = (0..kinds.len()).map(out).collect();
                let mut df = self.tables[t].clone();
                if me % 2 == 0 {
                    self.used("select");
                    df = df.select((0..kinds.len()).map(|i| col(format!("c{}", i + 1)).alias(&names[i])).collect::<Vec<_>>()).map_err(s)?;
                } else {
                    self.used("with_column_renamed");
                    for i in 0..kinds.len() {
                        df = df.with_column_renamed(format!("c{}", i + 1), &names[i]).map_err(s)?;
                    }
                }
                Ok(Node { df, names, kinds })
            }
            "filter" => {
                let src = self.build(&p["src"], outer)?;
                let pred = self.expr(&p["p"], (&src.names, &src.kinds), outer)?;
                self.used("filter");
                Ok(Node { df: src.df.filter(pred).map_err(s)?, names: src.names, kinds: src.kinds })
            }
            "project" => {
                let src = self.build(&p["src"], outer)?;
                let es = p["es"].as_array().unwrap();
                let names: Vec<String> = (0..es.len()).map(out).collect();
                let mut kinds = vec![];
                let mut exprs = vec![];
                for e in es {
                    kinds.push(self.kind_of(e, (&src.names, &src.kinds), outer));
                    exprs.push(self.expr(e, (&src.names, &src.kinds), outer)?);
                }
                let df = if me % 2 == 0 {
                    self.used("select");
                    src.df.select(exprs.into_iter().enumerate().map(|(i, e)| e.alias(&names[i])).collect::<Vec<_>>()).map_err(s)?
                } else {
                    self.used("with_column");
                    let mut df = src.df;
                    for (i, e) in exprs.into_iter().enumerate() {
                        df = df.with_column(&names[i], e).map_err(s)?;
                    }
                    if me % 4 == 1 {
                        // new columns are appended in order: dropping the source columns leaves exactly them
                        self.used("drop_columns");
                        df.drop_columns(&src.names.iter().map(|x| x.as_str()).collect::<Vec<_>>()).map_err(s)?
                    } else {
                        self.used("select_columns");
                        df.select_columns(&names.iter().map(|x| x.as_str()).collect::<Vec<_>>()).map_err(s)?
                    }
                };
                Ok(Node { df, names, kinds })
            }
            "join" => {
                let l = self.build(&p["l"], outer)?;
                let r = self.build(&p["r"], outer)?;
                let lw = l.names.len();
                let both_n: Vec<String> = l.names.iter().chain(r.names.iter()).cloned().collect();
                let both_k: Vec<String> = l.kinds.iter().chain(r.kinds.iter()).cloned().collect();
                let jts = p["jt"].as_str().unwrap();
                let jt = match jts {
                    "inner" => JoinType::Inner,
                    "left" => JoinType::Left,
                    "right" => JoinType::Right,
                    "full" => JoinType::Full,
                    "semi" => JoinType::LeftSemi,
                    _ => JoinType::LeftAnti,
                };
                // `a = b [AND extra]` with a left column and a right column -> join(keys, filter); else join_on
                let on = &p["on"];
                let is_key = |e: &Value| {
                    e["op"] == "bin" && e["f"] == "=" && e["l"]["op"] == "col" && e["r"]["op"] == "col"
                        && (e["l"]["i"].as_u64().unwrap() as usize) <= lw && (e["r"]["i"].as_u64().unwrap() as usize) > lw
                };
                let (key, extra) = if is_key(on) {
                    (Some(on.clone()), None)
                } else if on["op"] == "bin" && on["f"] == "and" && is_key(&on["l"]) {
                    (Some(on["l"].clone()), Some(on["r"].clone()))
                } else {
                    (None, None)
                };
                let df = if let Some(k) = key {
                    let ln = both_n[k["l"]["i"].as_u64().unwrap() as usize - 1].clone();
                    let rn = both_n[k["r"]["i"].as_u64().unwrap() as usize - 1].clone();
                    let f = match extra {
                        Some(x) => Some(self.expr(&x, (&both_n, &both_k), outer)?),
                        None => None,
                    };
                    self.used("join");
                    l.df.join(r.df, jt, &[ln.as_str()], &[rn.as_str()], f).map_err(s)?
                } else {
                    let e = self.expr(on, (&both_n, &both_k), outer)?;
                    self.used("join_on");
                    l.df.join_on(r.df, jt, vec![e]).map_err(s)?
                };
                let (src_n, kinds) = if jts == "semi" || jts == "anti" { (l.names.clone(), l.kinds.clone()) } else { (both_n, both_k) };
                let names: Vec<String> = (0..src_n.len()).map(out).collect();
                self.used("select");
                let df = df.select(src_n.iter().enumerate().map(|(i, n)| col(Column::from_name(n.clone())).alias(&names[i])).collect::<Vec<_>>()).map_err(s)?;
                Ok(Node { df, names, kinds })
            }
            "agg" => {
                let src = self.build(&p["src"], outer)?;
                let cur: Row = (&src.names, &src.kinds);
                let keys = p["keys"].as_array().unwrap();
                let aggs = p["aggs"].as_array().unwrap();
                let names: Vec<String> = (0..keys.len() + aggs.len()).map(out).collect();
                let mut kinds = vec![];
                let mut g = vec![];
                for (i, k) in keys.iter().enumerate() {
                    kinds.push(self.kind_of(k, cur, outer));
                    g.push(self.expr(k, cur, outer)?.alias(&names[i]));
                }
                let mut a = vec![];
                for (j, ag) in aggs.iter().enumerate() {
                    let f = ag["f"].as_str().unwrap();
                    let d = ag["distinct"].as_bool().unwrap();
                    let e = if f == "countstar" {
                        kinds.push("i".into());
                        count_all()
                    } else {
                        let x = self.expr(&ag["e"], cur, outer)?;
                        kinds.push(if f == "count" { "i".into() } else { self.kind_of(&ag["e"], cur, outer) });
                        match (f, d) {
                            ("count", false) => count(x),
                            ("count", true) => count_distinct(x),
                            ("sum", false) => sum(x),
                            ("sum", true) => sum_distinct(x),
                            ("min", _) => min(x),
                            ("max", _) => max(x),
                            _ => return Err(format!("agg {f}")),
                        }
                    };
                    a.push(e.alias(&names[keys.len() + j]));
                }
                self.used("aggregate");
                Ok(Node { df: src.df.aggregate(g, a).map_err(s)?, names, kinds })
            }
            "distinct" => {
                let src = self.build(&p["src"], outer)?;
                self.used("distinct");
                Ok(Node { df: src.df.distinct().map_err(s)?, names: src.names, kinds: src.kinds })
            }
            "setop" => {
                let l = self.build(&p["l"], outer)?;
                let r = self.build(&p["r"], outer)?;
                let all = p["all"].as_bool().unwrap();
                let f = p["f"].as_str().unwrap();
                let name = format!("{}{}", f, if all { "" } else { "_distinct" });
                self.used(&name);
                // DataFrame set operations require both inputs to have exactly the same schema (SQL matches by
                // position): give the right input the left input's column names
                let rdf = r.df.select(r.names.iter().zip(l.names.iter()).map(|(rn, ln)| col(Column::from_name(rn.clone())).alias(ln)).collect::<Vec<_>>()).map_err(s)?;
                let r = Node { df: rdf, names: l.names.clone(), kinds: r.kinds };
                let by_name = f == "union" && me % 2 == 1;
                let r = if by_name {
                    // union_by_name aligns the inputs by column name: hand it the right input with its columns reversed
                    let rev: Vec<&str> = r.names.iter().rev().map(|x| x.as_str()).collect();
                    Node { df: r.df.select_columns(&rev).map_err(s)?, names: r.names, kinds: r.kinds }
                } else {
                    r
                };
                if by_name {
                    self.used(if all { "union_by_name" } else { "union_by_name_distinct" });
                }
                let df = match (f, all) {
                    ("union", true) if by_name => l.df.union_by_name(r.df),
                    ("union", false) if by_name => l.df.union_by_name_distinct(r.df),
                    ("union", true) => l.df.union(r.df),
                    ("union", false) => l.df.union_distinct(r.df),
                    ("intersect", true) => l.df.intersect(r.df),
                    ("intersect", false) => l.df.intersect_distinct(r.df),
                    ("except", true) => l.df.except(r.df),
                    _ => l.df.except_distinct(r.df),
                }
                .map_err(s)?;
                Ok(Node { df, names: l.names, kinds: l.kinds })
            }
            "sort" => {
                let src = self.build(&p["src"], outer)?;
                let keys: Vec<_> = p["keys"]
                    .as_array()
                    .unwrap()
                    .iter()
                    .map(|k| col(Column::from_name(src.names[k["i"].as_u64().unwrap() as usize - 1].clone())).sort(k["asc"].as_bool().unwrap(), k["nf"].as_bool().unwrap()))
                    .collect();
                let plain = p["keys"].as_array().unwrap().iter().all(|k| k["asc"].as_bool().unwrap() && !k["nf"].as_bool().unwrap());
                if plain {
                    // sort_by = ascending, nulls last
                    self.used("sort_by");
                    let ks = p["keys"].as_array().unwrap().iter().map(|k| col(Column::from_name(src.names[k["i"].as_u64().unwrap() as usize - 1].clone()))).collect();
                    return Ok(Node { df: src.df.sort_by(ks).map_err(s)?, names: src.names, kinds: src.kinds });
                }
                self.used("sort");
                Ok(Node { df: src.df.sort(keys).map_err(s)?, names: src.names, kinds: src.kinds })
            }
            "limit" => {
                let src = self.build(&p["src"], outer)?;
                let fetch = p["fetch"].as_i64().unwrap();
                self.used("limit");
                Ok(Node { df: src.df.limit(p["skip"].as_u64().unwrap() as usize, if fetch < 0 { None } else { Some(fetch as usize) }).map_err(s)?, names: src.names, kinds: src.kinds })
            }
            "window" => {
                let src = self.build(&p["src"], outer)?;
                let c = |i: u64| col(Column::from_name(src.names[i as usize - 1].clone()));
                let f = p["f"].as_str().unwrap();
                let arg = p["arg"].as_u64().unwrap();
                let base = match f {
                    "rank" => rank(),
                    "dense_rank" => dense_rank(),
                    "row_number" => row_number(),
                    _ => {
                        let (udaf, args) = match f {
                            "sum" => (sum_udaf(), vec![c(arg)]),
                            "count" => (count_udaf(), vec![c(arg)]),
                            "min" => (min_udaf(), vec![c(arg)]),
                            "max" => (max_udaf(), vec![c(arg)]),
                            "countstar" => (count_udaf(), vec![lit(1i64)]),
                            o => return Err(format!("window {o}")),
                        };
                        Expr::WindowFunction(Box::new(WindowFunction::new(WindowFunctionDefinition::AggregateUDF(udaf), args)))
                    }
                };
                let part: Vec<Expr> = p["part"].as_array().unwrap().iter().map(|i| c(i.as_u64().unwrap())).collect();
                let order: Vec<_> = p["order"].as_array().unwrap().iter().map(|k| c(k["i"].as_u64().unwrap()).sort(k["asc"].as_bool().unwrap(), k["nf"].as_bool().unwrap())).collect();
                let mut b = base.partition_by(part);
                if !order.is_empty() {
                    b = b.order_by(order);
                }
                let mut names: Vec<String> = (0..src.names.len() + 1).map(out).collect();
                let wname = names.pop().unwrap();
                let we = b.build().map_err(s)?.alias(&wname);
                self.used("window");
                let df = src.df.window(vec![we]).map_err(s)?;
                self.used("select");
                let mut sel: Vec<Expr> = src.names.iter().enumerate().map(|(i, n)| col(Column::from_name(n.clone())).alias(&names[i])).collect();
                sel.push(col(Column::from_name(wname.clone())));
                names.push(wname);
                let mut kinds = src.kinds.clone();
                kinds.push("i".into());
                Ok(Node { df: df.select(sel).map_err(s)?, names, kinds })
            }
            "aggsets" => {
                let src = self.build(&p["src"], outer)?;
                let cur: Row = (&src.names, &src.kinds);
                let keys = p["keys"].as_array().unwrap();
                let aggs = p["aggs"].as_array().unwrap();
                let names: Vec<String> = (0..keys.len() + aggs.len()).map(out).collect();
                // like the SQL rendering: first a projection that gives every grouping key and aggregate argument its own
                // column (two keys may be the same source column), then the grouping-set aggregate over these columns
                let mut kinds = vec![];
                let mut inner = vec![];
                let mut knames = vec![];
                for (j, k) in keys.iter().enumerate() {
                    kinds.push(self.kind_of(k, cur, outer));
                    let n = format!("g{me}k{}", j + 1);
                    inner.push(self.expr(k, cur, outer)?.alias(&n));
                    knames.push(n);
                }
                let mut a = vec![];
                for (j, ag) in aggs.iter().enumerate() {
                    let f = ag["f"].as_str().unwrap();
                    let d = ag["distinct"].as_bool().unwrap();
                    let e = if f == "countstar" {
                        kinds.push("i".into());
                        count_all()
                    } else {
                        let xn = format!("g{me}x{}", j + 1);
                        inner.push(self.expr(&ag["e"], cur, outer)?.alias(&xn));
                        let x = col(Column::from_name(xn));
                        kinds.push(if f == "count" { "i".into() } else { self.kind_of(&ag["e"], cur, outer) });
                        match (f, d) {
                            ("count", false) => count(x),
                            ("count", true) => count_distinct(x),
                            ("sum", false) => sum(x),
                            ("sum", true) => sum_distinct(x),
                            ("min", _) => min(x),
                            ("max", _) => max(x),
                            _ => return Err(format!("agg {f}")),
                        }
                    };
                    a.push(e.alias(&names[keys.len() + j]));
                }
                self.used("select");
                let base = src.df.select(inner).map_err(s)?;
                let kcol = |i: u64| col(Column::from_name(knames[i as usize - 1].clone()));
                let sets: Vec<Vec<Expr>> = p["sets"].as_array().unwrap().iter().map(|st| {
                    let mut ix: Vec<u64> = st.as_array().unwrap().iter().map(|i| i.as_u64().unwrap()).collect();
                    ix.sort();
                    ix.into_iter().map(kcol).collect()
                }).collect();
                self.used("aggregate_grouping_sets");
                let df = base.aggregate(vec![grouping_set(sets)], a).map_err(s)?;
                let mut sel: Vec<Expr> = knames.iter().enumerate().map(|(j, n)| col(Column::from_name(n.clone())).alias(&names[j])).collect();
                for j in 0..aggs.len() {
                    sel.push(col(Column::from_name(names[keys.len() + j].clone())));
                }
                self.used("select");
                Ok(Node { df: df.select(sel).map_err(s)?, names, kinds })
            }
            "distincton" => {
                let src = self.build(&p["src"], outer)?;
                let n = p["n"].as_u64().unwrap() as usize;
                let c = |i: usize| col(Column::from_name(src.names[i].clone()));
                let on: Vec<Expr> = (0..n).map(c).collect();
                let sel: Vec<Expr> = (0..src.names.len()).map(c).collect();
                let sort: Vec<_> = (0..src.names.len()).map(|i| c(i).sort(true, false)).collect();
                self.used("distinct_on");
                Ok(Node { df: src.df.distinct_on(on, sel, Some(sort)).map_err(s)?, names: src.names, kinds: src.kinds })
            }
            // the SQL rendering packs the columns into a struct column; the DataFrame chain reads the columns directly
            "pack" => self.build(&p["src"], outer),
            "ufilter" => {
                let t = p["t"].as_u64().unwrap() as usize - 1;
                let kinds = self.schemas[t].clone();
                let names: Vec<String> = (0..kinds.len()).map(out).collect();
                let all = p["all"].as_bool().unwrap();
                let mut acc: Option<DataFrame> = None;
                let wrap = p["wrap"].as_bool().unwrap_or(false);
                let base_names: Vec<String> = (0..kinds.len()).map(|i| format!("c{}", i + 1)).collect();
                for pr in p["ps"].as_array().unwrap() {
                    self.used("select");
                    self.used("filter");
                    let sel = (0..kinds.len()).map(|i| col(format!("c{}", i + 1)).alias(&names[i])).collect::<Vec<_>>();
                    let b = if wrap {
                        // filter above the aliasing projection
                        let pred = self.expr(pr, (&names, &kinds), outer)?;
                        self.tables[t].clone().select(sel).map_err(s)?.filter(pred).map_err(s)?
                    } else {
                        let pred = self.expr(pr, (&base_names, &kinds), outer)?;
                        self.tables[t].clone().filter(pred).map_err(s)?.select(sel).map_err(s)?
                    };
                    acc = Some(match acc {
                        None => b,
                        Some(a) => {
                            self.used(if all { "union" } else { "union_distinct" });
                            if all { a.union(b) } else { a.union_distinct(b) }.map_err(s)?
                        }
                    });
                }
                Ok(Node { df: acc.unwrap(), names, kinds })
            }
            "lateral" => Err("unsupported: no DataFrame call builds a LATERAL join".into()),
            o => Err(format!("plan op {o}")),
        }
    }
}

async fn run_case(i: usize, case: Value, seed: u64) -> Value {
    let id = case["id"].clone();
    let layout = match case.get("layout") {
        Some(l) if l.is_object() => l.clone(),
        _ => layout_for(i, seed),
    };
    let opts = layout_opts(&layout);
    let cdb = match open_case(&case, &opts) {
        Ok(c) => c,
        Err(e) => return json!({"id": id, "setup_err": e}),
    };
    let mut tables = vec![];
    for t in case["tables"].as_array().unwrap() {
        match cdb.ctx.table(t["name"].as_str().unwrap()).await {
            Ok(df) => tables.push(df),
            Err(e) => return json!({"id": id, "setup_err": s(e)}),
        }
    }
    let schemas: Vec<Vec<String>> = case["schemas"].as_array().unwrap().iter().map(|x| x.as_array().unwrap().iter().map(|k| k.as_str().unwrap().to_string()).collect()).collect();
    let mut b = Builder { tables, schemas, next: 0, ops: Default::default() };
    let built = b.build(&case["plan"], None);
    let sql = case["sql"].as_str().unwrap();
    let nd = n_dbs(&case);
    let mut df_res = vec![];
    let mut sql_res = vec![];
    let mut executions = 0;
    let (df_names, df_types) = match &built {
        Ok(n) => schema_names_types(&Arc::new(n.df.schema().as_arrow().clone())),
        Err(_) => (vec![], vec![]),
    };
    for d in 0..nd {
        load_db(&cdb, &case, d).await;
        df_res.push(match &built {
            Err(e) => json!({"err": format!("build: {e}")}),
            Ok(n) => match n.df.clone().collect().await {
                Ok(bs) => json!({"rows": batches_to_rows(&bs)}),
                Err(e) => json!({"err": format!("exec: {e}")}),
            },
        });
        sql_res.push(match cdb.ctx.sql(sql).await {
            Err(e) => json!({"err": format!("plan: {e}")}),
            Ok(df) => match df.collect().await {
                Ok(bs) => json!({"rows": batches_to_rows(&bs)}),
                Err(e) => json!({"err": format!("exec: {e}")}),
            },
        });
        executions += 2;
    }
    let plan_text = match &built {
        Ok(n) => format!("{}", n.df.logical_plan().display_indent()),
        Err(_) => String::new(),
    };
    json!({"id": id, "layout": layout, "df": df_res, "sql": sql_res, "ops": b.ops, "executions": executions,
           "df_plan": plan_text, "df_names": df_names, "df_types": df_types})
}

pub fn main() {
    let inp = util::arg("--in").expect("--in");
    let out = util::arg("--out").expect("--out");
    let threads: usize = util::arg("--threads").and_then(|s| s.parse().ok()).unwrap_or(4);
    let seed = util::seed();
    let cases = util::read_ndjson(&inp);
    let results = par_cases(&cases, threads, move |i, c| async move { run_case(i, c, seed).await });
    let execs: u64 = results.iter().map(|r| r["executions"].as_u64().unwrap_or(0)).sum();
    let panics = results.iter().filter(|r| r.get("panic").is_some()).count();
    util::write_ndjson(&out, &results);
    util::summary(json!({"cases": cases.len(), "executions": execs, "panics": panics}));
}
