//! C03 — logical optimization preserves query results and output schema.
//!
//! For every case (SQL text + 1..k databases of one schema):
//!   * plan the SQL, run the analyzer  -> plan 0 (the unoptimized plan);
//!   * run the default optimizer through its observer entry point and record the plan after every rule
//!     application ("chain": rule, pass, plan index, changed?);
//!   * run the optimizer with each rule ALONE and with each rule REMOVED ("variants");
//!   * execute every distinct plan met (without any further logical optimization) on every database and
//!     report rows / error and the output column names and types.
//! The verdicts are taken by lib/c03.py (reference result from the TLA+ semantics, engine-vs-engine
//! confirmation); this driver only observes.
use crate::semutil::*;
use datafusion::logical_expr::LogicalPlan;
use datafusion::optimizer::{Optimizer, OptimizerRule};
use serde_json::{Value, json};
use std::sync::Arc;
use vcommon::sqlexec::ExecOpts;
use vcommon::util;

type Rule = Arc<dyn OptimizerRule + Send + Sync>;

fn intern(plans: &mut Vec<LogicalPlan>, p: &LogicalPlan) -> usize {
    if let Some(i) = plans.iter().position(|q| q == p) {
        return i;
    }
    plans.push(p.clone());
    plans.len() - 1
}

fn logical_names_types(p: &LogicalPlan) -> (Vec<String>, Vec<String>) {
    let s = p.schema();
    (s.fields().iter().map(|f| f.name().clone()).collect(), s.fields().iter().map(|f| norm_type(f.data_type())).collect())
}

pub fn layout_for(i: usize, seed: u64) -> Value {
    let k = i as u64 + seed;
    let mut settings = serde_json::Map::new();
    settings.insert("datafusion.execution.target_partitions".into(), json!(format!("{}", 1 + (k / 9) % 4)));
    if k % 3 != 0 {
        // optimizer rules that are switched off by default (semantics-neutral switches)
        settings.insert("datafusion.optimizer.filter_null_join_keys".into(), json!("true"));
        settings.insert("datafusion.optimizer.enable_unions_to_filter".into(), json!("true"));
    }
    json!({"partitions": 1 + (k % 3), "batch_rows": (k / 3) % 3, "settings": settings})
}

pub fn layout_opts(l: &Value) -> ExecOpts {
    ExecOpts {
        partitions: l["partitions"].as_u64().unwrap() as usize,
        batch_rows: l["batch_rows"].as_u64().unwrap() as usize,
        settings: l["settings"].as_object().unwrap().iter().map(|(k, v)| (k.clone(), v.as_str().unwrap().to_string())).collect(),
        utf8view: false,
    }
}

async fn run_case(i: usize, case: Value, seed: u64, variant_dbs: usize, only_rules: Option<Vec<String>>) -> Value {
    let id = case["id"].clone();
    let layout = match case.get("layout") {
        Some(l) if l.is_object() => l.clone(),
        _ => layout_for(i, seed),
    };
    let opts = layout_opts(&layout);
    let cdb = match open_case(&case, &opts) {
        Ok(c) => c,
        Err(e) => return json!({"id": id, "setup_err": e}),
    };
    let state = cdb.ctx.state();
    let sql = case["sql"].as_str().unwrap();
    let plan0 = match state.create_logical_plan(sql).await {
        Ok(p) => p,
        Err(e) => return json!({"id": id, "layout": layout, "plan_err": format!("{e}")}),
    };
    let analyzed = match state.analyzer().execute_and_check(plan0, state.config_options(), |_, _| {}) {
        Ok(p) => p,
        Err(e) => return json!({"id": id, "layout": layout, "plan_err": format!("analyzer: {e}")}),
    };
    let rules: Vec<Rule> = state.optimizers().to_vec();
    let rule_names: Vec<String> = rules.iter().map(|r| r.name().to_string()).collect();
    let mut plans: Vec<LogicalPlan> = vec![analyzed.clone()];

    // (a) the default pipeline, observed after every rule
    let mut chain: Vec<Value> = vec![];
    let mut variants: Vec<Value> = vec![];
    {
        let st = cdb.ctx.state();
        let opt = Optimizer::with_rules(rules.clone());
        let mut prev = 0usize;
        let mut k = 0usize;
        let nr = rules.len();
        let res = opt.optimize(analyzed.clone(), &st, |p, rule| {
            let idx = intern(&mut plans, p);
            chain.push(json!({"rule": rule.name(), "pass": k / nr, "before": prev, "after": idx, "changed": idx != prev}));
            prev = idx;
            k += 1;
        });
        match res {
            Ok(p) => {
                let idx = intern(&mut plans, &p);
                variants.push(json!({"name": "full", "plan": idx}));
            }
            Err(e) => variants.push(json!({"name": "full", "err": format!("{e}")})),
        }
    }
    // (b) each rule alone, each rule removed
    for (ri, r) in rules.iter().enumerate() {
        if let Some(only) = &only_rules {
            if !only.iter().any(|n| n == r.name()) {
                continue;
            }
        }
        for (kind, rs) in [
            ("alone", vec![r.clone()]),
            ("without", rules.iter().enumerate().filter(|(j, _)| *j != ri).map(|(_, x)| x.clone()).collect::<Vec<_>>()),
        ] {
            let st = cdb.ctx.state();
            let name = format!("{kind}:{}", r.name());
            match Optimizer::with_rules(rs).optimize(analyzed.clone(), &st, |_, _| {}) {
                Ok(p) => {
                    let idx = intern(&mut plans, &p);
                    variants.push(json!({"name": name, "plan": idx}));
                }
                Err(e) => variants.push(json!({"name": name, "err": format!("{e}")})),
            }
        }
    }
    // which plans are reached by the chain (executed on every database) / only by variants
    let mut in_chain = vec![false; plans.len()];
    in_chain[0] = true;
    for c in &chain {
        in_chain[c["after"].as_u64().unwrap() as usize] = true;
    }
    for v in &variants {
        if v["name"] == "full" {
            if let Some(p) = v["plan"].as_u64() {
                in_chain[p as usize] = true;
            }
        }
    }
    // execution
    let nd = n_dbs(&case);
    let mut exec: Vec<Vec<Value>> = vec![vec![Value::Null; nd]; plans.len()];
    let mut phys: Vec<Value> = vec![Value::Null; plans.len()];
    let mut unplannable = vec![false; plans.len()];
    let mut executions = 0usize;
    for d in 0..nd {
        load_db(&cdb, &case, d).await;
        for (pi, p) in plans.iter().enumerate() {
            if unplannable[pi] || (!in_chain[pi] && d >= variant_dbs) {
                continue;
            }
            let st = cdb.ctx.state();
            executions += 1;
            // each execution in its own task: a panic of the engine while executing one plan (e.g. a plan only a
            // non-default rule list produces) is an observation about that plan, not the end of the case
            let p2 = p.clone();
            let r = match tokio::spawn(async move { exec_logical(&st, &p2).await }).await {
                Ok(r) => r,
                Err(e) => {
                    let msg = if e.is_panic() {
                        let pn = e.into_panic();
                        pn.downcast_ref::<String>().cloned().or_else(|| pn.downcast_ref::<&str>().map(|s| s.to_string())).unwrap_or_else(|| "panic".into())
                    } else {
                        format!("{e}")
                    };
                    Err(format!("exec: PANIC: {msg}"))
                }
            };
            match r {
                Ok(o) => {
                    if phys[pi].is_null() {
                        phys[pi] = json!({"names": o.names, "types": o.types});
                    }
                    exec[pi][d] = json!({"rows": o.rows});
                }
                Err(e) => {
                    if e.starts_with("plan:") {
                        unplannable[pi] = true;
                    }
                    exec[pi][d] = json!({"err": e});
                }
            }
        }
    }
    let plan_desc: Vec<Value> = plans
        .iter()
        .enumerate()
        .map(|(pi, p)| {
            let (n, t) = logical_names_types(p);
            json!({"text": format!("{}", p.display_indent()), "names": n, "types": t, "phys": phys[pi]})
        })
        .collect();
    json!({"id": id, "layout": layout, "rules": rule_names, "plans": plan_desc, "chain": chain, "variants": variants,
           "exec": exec, "executions": executions})
}

pub fn main() {
    let inp = util::arg("--in").expect("--in");
    let out = util::arg("--out").expect("--out");
    let threads: usize = util::arg("--threads").and_then(|s| s.parse().ok()).unwrap_or(4);
    let variant_dbs: usize = util::arg("--variant-dbs").and_then(|s| s.parse().ok()).unwrap_or(1);
    let only_rules: Option<Vec<String>> = util::arg("--only-rules").map(|s| s.split(',').map(|x| x.to_string()).collect());
    let seed = util::seed();
    let cases = util::read_ndjson(&inp);
    let results = par_cases(&cases, threads, move |i, c| {
        let only = only_rules.clone();
        async move { run_case(i, c, seed, variant_dbs, only).await }
    });
    let execs: u64 = results.iter().map(|r| r["executions"].as_u64().unwrap_or(0)).sum();
    let panics = results.iter().filter(|r| r.get("panic").is_some()).count();
    util::write_ndjson(&out, &results);
    util::summary(json!({"cases": cases.len(), "executions": execs, "panics": panics}));
}
