//! SQL-level semantic drivers (DESIGN.md §7.1).  `vsem exec` is the generic executor used by C01/C02…
mod c02;
mod c03;
mod c48;
mod semutil;

use serde_json::{Value, json};
use vcommon::sqlexec::{ExecOpts, run_sql_case};
use vcommon::util;

fn parse_opts() -> ExecOpts {
    let mut o = ExecOpts::default();
    let a: Vec<String> = std::env::args().collect();
    let mut i = 0;
    while i < a.len() {
        match a[i].as_str() {
            "--partitions" => o.partitions = a[i + 1].parse().unwrap(),
            "--batch-rows" => o.batch_rows = a[i + 1].parse().unwrap(),
            "--utf8view" => o.utf8view = true,
            "--set" => {
                let (k, v) = a[i + 1].split_once('=').unwrap();
                o.settings.push((k.to_string(), v.to_string()));
            }
            _ => {}
        }
        i += 1;
    }
    o
}

fn exec_main() {
    let inp = util::arg("--in").expect("--in");
    let out = util::arg("--out").expect("--out");
    let opts = parse_opts();
    let cases = util::read_ndjson(&inp);
    let rt = tokio::runtime::Builder::new_multi_thread().worker_threads(4).enable_all().build().unwrap();
    let mut results: Vec<Value> = vec![];
    let (mut ok, mut err, mut panics) = (0, 0, 0);
    for c in &cases {
        let c2 = c.clone();
        let o2 = opts.clone();
        let r = rt.block_on(async move { tokio::spawn(async move { run_sql_case(&c2, &o2).await }).await });
        match r {
            Ok(Ok(rows)) => {
                ok += 1;
                results.push(json!({"id": c["id"], "rows": rows}));
            }
            Ok(Err(e)) => {
                err += 1;
                results.push(json!({"id": c["id"], "err": e}));
            }
            Err(e) => {
                panics += 1;
                results.push(json!({"id": c["id"], "err": format!("PANIC: {e}"), "panic": true}));
            }
        }
    }
    util::write_ndjson(&out, &results);
    util::summary(json!({"cases": cases.len(), "ok": ok, "err": err, "panics": panics}));
}

fn main() {
    let a: Vec<String> = std::env::args().collect();
    match a.get(1).map(|s| s.as_str()).unwrap_or("") {
        "exec" => exec_main(),
        "c03" => c03::main(),
        "c02" => c02::main(),
        "c02-keys" => c02::keys_main(),
        "c48" => c48::main(),
        _ => {
            eprintln!("usage: vsem exec --in cases.ndjson --out results.ndjson [--partitions N] [--batch-rows N] [--set k=v]...");
            std::process::exit(2);
        }
    }
}
