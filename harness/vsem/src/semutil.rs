//! Helpers shared by the plan-level semantic drivers (c03 / c02 / c48): a session whose MemTables can be
//! re-filled with another database of the same schema (so one logical plan is executed on several
//! databases), execution of a logical plan WITHOUT logical optimization, a case-parallel runner.
use arrow::datatypes::{DataType, SchemaRef};
use datafusion::datasource::MemTable;
use datafusion::execution::SessionState;
use datafusion::logical_expr::LogicalPlan;
use datafusion::physical_plan::collect;
use datafusion::prelude::*;
use serde_json::{Value, json};
use std::sync::Arc;
use vcommon::sqlexec::{ExecOpts, batches_to_rows, session, table_partitions};

pub struct CaseDb {
    pub ctx: SessionContext,
    pub opts: ExecOpts,
    pub tables: Vec<(Value, Arc<MemTable>)>, // (table description without rows, provider)
}

/// Session with the case's tables registered, holding database `dbs[0]`.
pub fn open_case(case: &Value, opts: &ExecOpts) -> Result<CaseDb, String> {
    let ctx = session(opts)?;
    let mut tables = vec![];
    for t in case["tables"].as_array().unwrap() {
        let (schema, parts) = table_partitions(t, opts);
        let mt = Arc::new(MemTable::try_new(schema, parts).map_err(|e| e.to_string())?);
        ctx.register_table(t["name"].as_str().unwrap(), mt.clone()).map_err(|e| e.to_string())?;
        tables.push((json!({"name": t["name"], "cols": t["cols"]}), mt));
    }
    Ok(CaseDb { ctx, opts: opts.clone(), tables })
}

/// Replace the contents of every table by database `d` of the case (`case["dbs"][d]` = rows per table).
pub async fn load_db(cdb: &CaseDb, case: &Value, d: usize) {
    let db = &case["dbs"][d];
    for (ti, (desc, mt)) in cdb.tables.iter().enumerate() {
        let t = json!({"name": desc["name"], "cols": desc["cols"], "rows": db[ti]});
        let (_schema, parts) = table_partitions(&t, &cdb.opts);
        assert_eq!(parts.len(), mt.batches.len());
        for (p, batches) in parts.into_iter().enumerate() {
            *mt.batches[p].write().await = batches;
        }
    }
}

pub fn n_dbs(case: &Value) -> usize {
    case["dbs"].as_array().map(|a| a.len()).unwrap_or(1)
}

pub fn norm_type(dt: &DataType) -> String {
    match dt {
        DataType::Utf8 | DataType::LargeUtf8 | DataType::Utf8View => "Utf8".to_string(),
        other => format!("{other}"),
    }
}

pub fn schema_names_types(s: &SchemaRef) -> (Vec<String>, Vec<String>) {
    (s.fields().iter().map(|f| f.name().clone()).collect(), s.fields().iter().map(|f| norm_type(f.data_type())).collect())
}

pub struct ExecOut {
    pub rows: Vec<Value>,
    pub names: Vec<String>,
    pub types: Vec<String>,
}

/// Physical planning (incl. the physical optimizer) and execution of `plan` as it is: the session's
/// analyzer and logical optimizer are NOT applied (the query planner is called directly).
pub async fn exec_logical(state: &SessionState, plan: &LogicalPlan) -> Result<ExecOut, String> {
    let phys = state.query_planner().create_physical_plan(plan, state).await.map_err(|e| format!("plan: {e}"))?;
    let (names, types) = schema_names_types(&phys.schema());
    let batches = collect(phys, state.task_ctx()).await.map_err(|e| format!("exec: {e}"))?;
    Ok(ExecOut { rows: batches_to_rows(&batches), names, types })
}

/// Run `f(case_index, case)` for every case on `threads` OS threads, each with its own tokio runtime;
/// a panic inside a case is caught and reported as `{"id":…, "panic": msg}`.
pub fn par_cases<F, Fut>(cases: &[Value], threads: usize, f: F) -> Vec<Value>
where
    F: Fn(usize, Value) -> Fut + Send + Sync + Clone + 'static,
    Fut: std::future::Future<Output = Value> + Send + 'static,
{
    par_cases_rt(cases, threads, 2, f)
}

pub fn par_cases_rt<F, Fut>(cases: &[Value], threads: usize, rt_workers: usize, f: F) -> Vec<Value>
where
    F: Fn(usize, Value) -> Fut + Send + Sync + Clone + 'static,
    Fut: std::future::Future<Output = Value> + Send + 'static,
{
    let next = Arc::new(std::sync::atomic::AtomicUsize::new(0));
    let cases = Arc::new(cases.to_vec());
    let out = Arc::new(parking_lot::Mutex::new(vec![Value::Null; cases.len()]));
    let mut hs = vec![];
    for _ in 0..threads.max(1) {
        let (next, cases, out, f) = (next.clone(), cases.clone(), out.clone(), f.clone());
        hs.push(std::thread::Builder::new().stack_size(64 << 20).spawn(move || {
            let rt = tokio::runtime::Builder::new_multi_thread().worker_threads(rt_workers).thread_stack_size(32 << 20).enable_all().build().unwrap();
            loop {
                let i = next.fetch_add(1, std::sync::atomic::Ordering::SeqCst);
                if i >= cases.len() {
                    break;
                }
                let c = cases[i].clone();
                let id = c["id"].clone();
                let fut = f(i, c);
                let r = rt.block_on(async move { tokio::spawn(fut).await });
                let v = match r {
                    Ok(v) => v,
                    Err(e) => {
                        let msg = if e.is_panic() {
                            let p = e.into_panic();
                            p.downcast_ref::<String>().cloned().or_else(|| p.downcast_ref::<&str>().map(|s| s.to_string())).unwrap_or_else(|| "panic".into())
                        } else {
                            format!("{e}")
                        };
                        json!({"id": id, "panic": msg})
                    }
                };
                out.lock()[i] = v;
            }
        }).unwrap());
    }
    for h in hs {
        h.join().unwrap();
    }
    Arc::try_unwrap(out).unwrap().into_inner()
}
