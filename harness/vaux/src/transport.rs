//! C35-C38 — plans carried through protobuf (logical / physical), Substrait and the SQL unparser.
//!
//! `vaux transport --mode c35|c36|c37|c38 --in cases.ndjson --out res.ndjson [--partitions N] [--set k=v]...`
//! Each input line: {id, sql, tables}.  Per case the original plan is executed and every transported
//! variant is compared structurally (engine's own Display / PartialEq) and executed in a FRESH context.
use std::collections::HashMap;
use std::sync::Arc;

use datafusion::catalog::TableProvider;
use datafusion::common::tree_node::{TreeNode, TreeNodeRecursion};
use datafusion::common::{Result as DFResult, TableReference, not_impl_err, plan_datafusion_err};
use datafusion::datasource::MemTable;
use datafusion::execution::TaskContext;
use datafusion::logical_expr::{Expr, Extension, LogicalPlan};
use datafusion::physical_plan::{ExecutionPlan, collect, displayable};
use datafusion::prelude::*;
use datafusion_proto::logical_plan::LogicalExtensionCodec;
use serde_json::{Value, json};
use vcommon::sqlexec::{ExecOpts, batches_to_rows, session, table_partitions};
use vcommon::util::{arg, read_ndjson, summary, write_ndjson};

/// Resolves table scans by name against the providers of the decoding session
/// (MemTables are not natively serialisable; this is the documented extension point).
#[derive(Debug, Default)]
struct MemCodec {
    tables: HashMap<String, Arc<dyn TableProvider>>,
}

impl LogicalExtensionCodec for MemCodec {
    fn try_decode(&self, _buf: &[u8], _inputs: &[LogicalPlan], _ctx: &TaskContext) -> DFResult<Extension> {
        not_impl_err!("no extension nodes")
    }
    fn try_encode(&self, _node: &Extension, _buf: &mut Vec<u8>) -> DFResult<()> {
        not_impl_err!("no extension nodes")
    }
    fn try_decode_table_provider(&self, _buf: &[u8], table_ref: &TableReference, _schema: arrow::datatypes::SchemaRef,
        _ctx: &TaskContext) -> DFResult<Arc<dyn TableProvider>> {
        self.tables.get(table_ref.table()).cloned().ok_or_else(|| plan_datafusion_err!("unknown table {table_ref}"))
    }
    fn try_encode_table_provider(&self, table_ref: &TableReference, _node: Arc<dyn TableProvider>, buf: &mut Vec<u8>) -> DFResult<()> {
        buf.extend_from_slice(table_ref.table().as_bytes());
        Ok(())
    }
    // file formats (COPY TO): the stock codec
    fn try_decode_file_format(&self, buf: &[u8], ctx: &TaskContext) -> DFResult<Arc<dyn datafusion::datasource::file_format::FileFormatFactory>> {
        datafusion_proto::logical_plan::DefaultLogicalExtensionCodec {}.try_decode_file_format(buf, ctx)
    }
    fn try_encode_file_format(&self, buf: &mut Vec<u8>, node: Arc<dyn datafusion::datasource::file_format::FileFormatFactory>) -> DFResult<()> {
        datafusion_proto::logical_plan::DefaultLogicalExtensionCodec {}.try_encode_file_format(buf, node)
    }
}

fn fresh(case: &Value, opts: &ExecOpts) -> Result<(SessionContext, MemCodec), String> {
    let ctx = session(opts)?;
    let mut codec = MemCodec::default();
    for t in case["tables"].as_array().unwrap() {
        let (schema, parts) = table_partitions(t, opts);
        let mt: Arc<dyn TableProvider> = Arc::new(MemTable::try_new(schema, parts).map_err(|e| e.to_string())?);
        let name = t["name"].as_str().unwrap();
        ctx.register_table(name, Arc::clone(&mt)).map_err(|e| e.to_string())?;
        codec.tables.insert(name.to_string(), mt);
    }
    Ok((ctx, codec))
}

/// fresh session + the case's `setup` statements (external tables, views, settings)
async fn fresh_s(case: &Value, opts: &ExecOpts) -> Result<(SessionContext, MemCodec), String> {
    let (ctx, codec) = fresh(case, opts)?;
    if let Some(st) = case["setup"].as_array() {
        for s in st {
            let s = s.as_str().unwrap();
            let df = ctx.sql(s).await.map_err(|e| format!("setup `{s}`: {e}"))?;
            df.collect().await.map_err(|e| format!("setup `{s}`: {e}"))?;
        }
    }
    Ok((ctx, codec))
}

/// plans that SQL text cannot express are built through the Rust API
async fn api_plan(ctx: &SessionContext, name: &str) -> DFResult<LogicalPlan> {
    use datafusion::common::{NullEquality, UnnestOptions};
    use datafusion::functions_nested::expr_fn::make_array;
    use datafusion::logical_expr::{JoinType, LogicalPlanBuilder, Partitioning as LP};
    let t1 = ctx.table("t1").await?;
    let t2 = ctx.table("t2").await?;
    let plan = match name {
        "repartition_rr" => LogicalPlanBuilder::from(t1.logical_plan().clone()).repartition(LP::RoundRobinBatch(3))?.build()?,
        "repartition_hash" => LogicalPlanBuilder::from(t1.logical_plan().clone()).repartition(LP::Hash(vec![col("c1"), col("c2") + lit(1i64)], 2))?.build()?,
        "repartition_distribute" => LogicalPlanBuilder::from(t1.logical_plan().clone()).repartition(LP::DistributeBy(vec![col("c3")]))?.build()?,
        "sort_fetch" => LogicalPlanBuilder::from(t1.logical_plan().clone())
            .sort_with_limit(vec![col("c1").sort(false, false), col("c2").sort(true, true), col("c3").sort(true, false)], Some(2))?.build()?,
        "unnest_preserve_nulls" | "unnest_drop_nulls" => {
            let arr = when(col("c1").is_null(), lit(datafusion::common::ScalarValue::Null)).otherwise(make_array(vec![col("c1"), col("c2")]))?;
            t2.select(vec![arr.alias("a"), col("c2")])?
                .unnest_columns_with_options(&["a"], UnnestOptions::new().with_preserve_nulls(name == "unnest_preserve_nulls"))?
                .logical_plan().clone()
        }
        "join_null_equal" | "join_null_unequal" => {
            let ne = if name == "join_null_equal" { NullEquality::NullEqualsNull } else { NullEquality::NullEqualsNothing };
            LogicalPlanBuilder::from(t1.logical_plan().clone())
                .join_detailed(t2.select(vec![col("c1").alias("k"), col("c2").alias("v")])?.logical_plan().clone(), JoinType::Left,
                    (vec![datafusion::common::Column::from_name("c1")], vec![datafusion::common::Column::from_name("k")]), Some(col("c2").lt_eq(col("v") + lit(1i64))), ne)?
                .build()?
        }
        "join_right_semi" | "join_right_anti" | "join_left_mark" => {
            let jt = match name { "join_right_semi" => JoinType::RightSemi, "join_right_anti" => JoinType::RightAnti, _ => JoinType::LeftMark };
            LogicalPlanBuilder::from(t1.logical_plan().clone())
                .join_detailed(t2.select(vec![col("c1").alias("k"), col("c2").alias("v")])?.logical_plan().clone(), jt,
                    (vec![datafusion::common::Column::from_name("c1")], vec![datafusion::common::Column::from_name("k")]), None, NullEquality::NullEqualsNothing)?
                .build()?
        }
        "dict_struct_literals" => {
            let mut sel = vec![col("c1")];
            for (i, sv) in crate::c35x::dict_literals().into_iter().enumerate() {
                sel.push(Expr::Literal(sv, None).alias(format!("d{i}")));
            }
            t1.select(sel)?.logical_plan().clone()
        }
        "alias_metadata" => {
            let mut md = std::collections::HashMap::new();
            md.insert("k".to_string(), "v".to_string());
            t1.select(vec![col("c1").alias_with_metadata("m", Some(md.into())), col("c3")])?.logical_plan().clone()
        }
        "distinct_on_api" => t1.distinct_on(vec![col("c1")], vec![col("c1"), col("c2")], Some(vec![col("c1").sort(true, false), col("c2").sort(false, true)]))?.logical_plan().clone(),
        other => return Err(plan_datafusion_err!("unknown api plan {other}")),
    };
    Ok(plan)
}

async fn logical_of(ctx: &SessionContext, case: &Value) -> DFResult<LogicalPlan> {
    if let Some(name) = case["api"].as_str() {
        api_plan(ctx, name).await
    } else {
        ctx.state().create_logical_plan(case["sql"].as_str().unwrap()).await
    }
}

fn types_of(schema: &arrow::datatypes::Schema) -> Vec<String> {
    schema.fields().iter().map(|f| format!("{}", f.data_type())).collect()
}

async fn exec_logical(ctx: &SessionContext, plan: LogicalPlan) -> Value {
    let r = async {
        let df = ctx.execute_logical_plan(plan).await.map_err(|e| format!("plan: {e}"))?;
        let types = types_of(df.schema().as_arrow());
        let b = df.collect().await.map_err(|e| format!("exec: {e}"))?;
        Ok::<_, String>((batches_to_rows(&b), types))
    };
    match r.await {
        Ok((rows, types)) => json!({"rows": rows, "types": types}),
        Err(e) => json!({"err": e}),
    }
}

async fn exec_physical(ctx: &SessionContext, plan: Arc<dyn ExecutionPlan>) -> Value {
    let types = types_of(&plan.schema());
    match collect(plan, ctx.task_ctx()).await {
        Ok(b) => json!({"rows": batches_to_rows(&b), "types": types}),
        Err(e) => json!({"err": format!("exec: {e}")}),
    }
}

fn node_exprs(plan: &LogicalPlan) -> Vec<String> {
    let mut v = Vec::new();
    let _ = plan.apply_with_subqueries(|n| {
        v.push(format!("{:?}", n.expressions()));
        Ok(TreeNodeRecursion::Continue)
    });
    v
}

fn all_exprs(plan: &LogicalPlan, out: &mut Vec<Expr>) {
    let _ = plan.apply_with_subqueries(|n| {
        for e in n.expressions() {
            let _ = e.apply(|x| {
                out.push(x.clone());
                Ok(TreeNodeRecursion::Continue)
            });
        }
        Ok(TreeNodeRecursion::Continue)
    });
}

fn first_diff(a: &str, b: &str) -> Value {
    let (la, lb): (Vec<&str>, Vec<&str>) = (a.lines().collect(), b.lines().collect());
    for i in 0..la.len().max(lb.len()) {
        let (x, y) = (la.get(i).copied().unwrap_or("<missing>"), lb.get(i).copied().unwrap_or("<missing>"));
        if x != y {
            return json!({"line": i + 1, "original": x, "decoded": y});
        }
    }
    Value::Null
}

fn guard<T>(f: impl FnOnce() -> DFResult<T>) -> Result<T, String> {
    match std::panic::catch_unwind(std::panic::AssertUnwindSafe(f)) {
        Ok(Ok(v)) => Ok(v),
        Ok(Err(e)) => Err(e.to_string()),
        Err(_) => Err("panic".to_string()),
    }
}

// ------------------------------------------------------------------------------------------ C35
async fn c35_case(case: &Value, opts: &ExecOpts, stats: &mut HashMap<String, u64>) -> Value {
    let (ctx, codec) = match fresh_s(case, opts).await {
        Ok(x) => x,
        Err(e) => return json!({"id": case["id"], "tool_err": e}),
    };
    let unopt = match logical_of(&ctx, case).await {
        Ok(d) => d,
        Err(e) => return json!({"id": case["id"], "plan_err": e.to_string()}),
    };
    let opt = match ctx.state().optimize(&unopt) {
        Ok(p) => p,
        Err(e) => return json!({"id": case["id"], "plan_err": e.to_string()}),
    };
    let orig = exec_logical(&ctx, unopt.clone()).await;
    let mut variants = Vec::new();
    for (name, plan) in [("unoptimized", &unopt), ("optimized", &opt)] {
        let mut v = json!({"name": name, "plan_text": format!("{}", plan.display_indent_schema())});
        let bytes = match guard(|| datafusion_proto::bytes::logical_plan_to_bytes_with_extension_codec(plan, &codec)) {
            Ok(b) => b,
            Err(e) => {
                v["enc_err"] = json!(e);
                variants.push(v);
                continue;
            }
        };
        v["bytes"] = json!(bytes.len());
        let (ctx2, codec2) = fresh_s(case, opts).await.unwrap();
        let dec = match guard(|| datafusion_proto::bytes::logical_plan_from_bytes_with_extension_codec(&bytes, &ctx2.task_ctx(), &codec2)) {
            Ok(p) => p,
            Err(e) => {
                v["dec_err"] = json!(e);
                variants.push(v);
                continue;
            }
        };
        // the property's "same textual form" is the plan's Display (display_indent); the form with schemas
        // is compared too but only reported
        let (ta, tb) = (format!("{}", plan.display_indent()), format!("{}", dec.display_indent()));
        v["text_equal"] = json!(ta == tb);
        if ta != tb {
            v["text_diff"] = first_diff(&ta, &tb);
        }
        let (sa, sb) = (format!("{}", plan.display_indent_schema()), format!("{}", dec.display_indent_schema()));
        v["schema_text_equal"] = json!(sa == sb);
        if sa != sb {
            v["schema_text_diff"] = first_diff(&sa, &sb);
        }
        let (ea, eb) = (node_exprs(plan), node_exprs(&dec));
        v["exprs_equal"] = json!(ea == eb);
        if ea != eb {
            let i = ea.iter().zip(eb.iter()).position(|(a, b)| a != b).unwrap_or(0);
            v["exprs_diff"] = json!({"original": ea.get(i), "decoded": eb.get(i)});
        }
        v["plan_eq"] = json!(*plan == dec);
        v["exec"] = exec_logical(&ctx2, dec).await;
        variants.push(v);
    }
    // expression round trips over every sub-expression of both plans
    let mut exprs = Vec::new();
    all_exprs(&unopt, &mut exprs);
    all_exprs(&opt, &mut exprs);
    let mut expr_fail = Vec::new();
    let (ctx3, codec3) = fresh_s(case, opts).await.unwrap();
    for e in &exprs {
        *stats.entry("exprs".into()).or_default() += 1;
        let p = match guard(|| datafusion_proto::logical_plan::to_proto::serialize_expr(e, &codec).map_err(|x| plan_datafusion_err!("{x}"))) {
            Ok(p) => p,
            Err(_) => {
                *stats.entry("expr_enc_err".into()).or_default() += 1;
                continue;
            }
        };
        match guard(|| datafusion_proto::logical_plan::from_proto::parse_expr(&p, &ctx3.task_ctx(), &codec3).map_err(|x| plan_datafusion_err!("{x}"))) {
            Ok(d) => {
                if d != *e && format!("{d:?}") != format!("{e:?}") {
                    expr_fail.push(json!({"original": format!("{e:?}"), "decoded": format!("{d:?}")}));
                } else if d != *e {
                    *stats.entry("expr_eq_false_same_debug".into()).or_default() += 1;
                }
            }
            Err(x) => expr_fail.push(json!({"original": format!("{e:?}"), "dec_err": x})),
        }
    }
    json!({"id": case["id"], "orig": orig, "variants": variants, "expr_fail": expr_fail, "n_exprs": exprs.len()})
}

// ------------------------------------------------------------------------------------------ C36
fn node_names(plan: &Arc<dyn ExecutionPlan>, out: &mut Vec<String>) {
    out.push(plan.name().to_string());
    for c in plan.children() {
        node_names(c, out);
    }
}

async fn c36_case(case: &Value, opts: &ExecOpts) -> Value {
    let (ctx, _) = match fresh_s(case, opts).await {
        Ok(x) => x,
        Err(e) => return json!({"id": case["id"], "tool_err": e}),
    };
    let lp = match logical_of(&ctx, case).await {
        Ok(d) => d,
        Err(e) => return json!({"id": case["id"], "plan_err": e.to_string()}),
    };
    let plan = match ctx.state().create_physical_plan(&lp).await {
        Ok(p) => p,
        Err(e) => return json!({"id": case["id"], "plan_err": e.to_string()}),
    };
    let mut names = Vec::new();
    node_names(&plan, &mut names);
    let mut v = json!({"name": "physical"});
    let ta = displayable(plan.as_ref()).set_show_schema(true).indent(true).to_string();
    v["plan_text"] = json!(ta);
    let p2 = Arc::clone(&plan);
    let mut variants = Vec::new();
    match guard(|| datafusion_proto::bytes::physical_plan_to_bytes(p2)) {
        Err(e) => v["enc_err"] = json!(e),
        Ok(bytes) => {
            v["bytes"] = json!(bytes.len());
            let (ctx2, _) = fresh_s(case, opts).await.unwrap();
            match guard(|| datafusion_proto::bytes::physical_plan_from_bytes(&bytes, &ctx2.task_ctx())) {
                Err(e) => v["dec_err"] = json!(e),
                Ok(dec) => {
                    let tb = displayable(dec.as_ref()).set_show_schema(true).indent(true).to_string();
                    // structure, expressions, partitioning, ordering, options: compared modulo the nullability
                    // markers of the (recomputed) schemas, which the property does not list
                    let (na, nb) = (ta.replace(";N", ""), tb.replace(";N", ""));
                    v["text_equal"] = json!(na == nb);
                    if na != nb {
                        v["text_diff"] = first_diff(&na, &nb);
                    }
                    v["nullability_equal"] = json!(ta == tb);
                    let (pa, pb) = (format!("{:?}", plan.properties().output_partitioning()), format!("{:?}", dec.properties().output_partitioning()));
                    let (oa, ob) = (format!("{:?}", plan.properties().output_ordering()), format!("{:?}", dec.properties().output_ordering()));
                    v["props_equal"] = json!(pa == pb && oa == ob);
                    if pa != pb || oa != ob {
                        v["props_diff"] = json!({"original": [pa, oa], "decoded": [pb, ob]});
                    }
                    v["exec"] = exec_physical(&ctx2, dec).await;
                }
            }
        }
    }
    variants.push(v);
    let orig = exec_physical(&ctx, plan).await;
    json!({"id": case["id"], "orig": orig, "variants": variants, "nodes": names})
}

// ------------------------------------------------------------------------------------------ C37
async fn c37_case(case: &Value, opts: &ExecOpts) -> Value {
    use datafusion_substrait::logical_plan::{consumer::from_substrait_plan, producer::to_substrait_plan};
    let (ctx, _) = match fresh_s(case, opts).await {
        Ok(x) => x,
        Err(e) => return json!({"id": case["id"], "tool_err": e}),
    };
    let unopt = match logical_of(&ctx, case).await {
        Ok(d) => d,
        Err(e) => return json!({"id": case["id"], "plan_err": e.to_string()}),
    };
    let opt = match ctx.state().optimize(&unopt) {
        Ok(p) => p,
        Err(e) => return json!({"id": case["id"], "plan_err": e.to_string()}),
    };
    let orig = exec_logical(&ctx, unopt.clone()).await;
    let mut variants = Vec::new();
    for (name, plan) in [("unoptimized", &unopt), ("optimized", &opt)] {
        let mut v = json!({"name": name, "plan_text": format!("{}", plan.display_indent())});
        let state = ctx.state();
        let sp = match guard(|| to_substrait_plan(plan, &state)) {
            Ok(p) => p,
            Err(e) => {
                v["enc_err"] = json!(e);
                variants.push(v);
                continue;
            }
        };
        let (ctx2, _) = fresh_s(case, opts).await.unwrap();
        let st2 = ctx2.state();
        let dec = match from_substrait_plan(&st2, &sp).await {
            Ok(p) => p,
            Err(e) => {
                v["dec_err"] = json!(e.to_string());
                variants.push(v);
                continue;
            }
        };
        v["decoded_text"] = json!(format!("{}", dec.display_indent()));
        v["exec"] = exec_logical(&ctx2, dec).await;
        variants.push(v);
    }
    json!({"id": case["id"], "orig": orig, "variants": variants})
}

// ------------------------------------------------------------------------------------------ C38
async fn c38_case(case: &Value, opts: &ExecOpts) -> Value {
    use datafusion::sql::sqlparser::{dialect as sd, parser::Parser};
    use datafusion::sql::unparser::{Unparser, dialect as ud, plan_to_sql};
    let (ctx, _) = match fresh_s(case, opts).await {
        Ok(x) => x,
        Err(e) => return json!({"id": case["id"], "tool_err": e}),
    };
    let unopt = match logical_of(&ctx, case).await {
        Ok(d) => d,
        Err(e) => return json!({"id": case["id"], "plan_err": e.to_string()}),
    };
    let opt = match ctx.state().optimize(&unopt) {
        Ok(p) => p,
        Err(e) => return json!({"id": case["id"], "plan_err": e.to_string()}),
    };
    let orig = exec_logical(&ctx, unopt.clone()).await;
    let mut variants = Vec::new();
    for (name, plan) in [("unoptimized", &unopt), ("optimized", &opt)] {
        let mut v = json!({"name": name, "plan_text": format!("{}", plan.display_indent())});
        let text = match guard(|| plan_to_sql(plan)) {
            Ok(s) => s.to_string(),
            Err(e) => {
                v["enc_err"] = json!(e);
                variants.push(v);
                continue;
            }
        };
        v["sql"] = json!(text);
        let (ctx2, _) = fresh_s(case, opts).await.unwrap();
        match ctx2.sql(&text).await {
            Err(e) => v["dec_err"] = json!(e.to_string()),
            Ok(df2) => {
                let types = types_of(df2.schema().as_arrow());
                match df2.collect().await {
                    Ok(b) => v["exec"] = json!({"rows": batches_to_rows(&b), "types": types}),
                    Err(e) => v["exec"] = json!({"err": format!("exec: {e}")}),
                }
            }
        }
        variants.push(v);
    }
    // other dialects: the produced text must at least parse with the matching SQL dialect
    let mut dialects = Vec::new();
    let uds: Vec<(&str, Box<dyn ud::Dialect>, Box<dyn sd::Dialect>)> = vec![
        ("postgres", Box::new(ud::PostgreSqlDialect {}), Box::new(sd::PostgreSqlDialect {})),
        ("mysql", Box::new(ud::MySqlDialect {}), Box::new(sd::MySqlDialect {})),
        ("sqlite", Box::new(ud::SqliteDialect {}), Box::new(sd::SQLiteDialect {})),
        ("duckdb", Box::new(ud::DuckDBDialect::new()), Box::new(sd::DuckDbDialect {})),
        ("bigquery", Box::new(ud::BigQueryDialect {}), Box::new(sd::BigQueryDialect {})),
        ("snowflake", Box::new(ud::SnowflakeDialect::new()), Box::new(sd::SnowflakeDialect {})),
    ];
    for (name, u, s) in &uds {
        let unp = Unparser::new(u.as_ref());
        match guard(|| unp.plan_to_sql(&unopt)) {
            Err(e) => dialects.push(json!({"dialect": name, "enc_err": e})),
            Ok(st) => {
                let text = st.to_string();
                match Parser::parse_sql(s.as_ref(), &text) {
                    Ok(_) => dialects.push(json!({"dialect": name, "parses": true})),
                    Err(e) => dialects.push(json!({"dialect": name, "parses": false, "sql": text, "err": e.to_string()})),
                }
            }
        }
    }
    json!({"id": case["id"], "orig": orig, "variants": variants, "dialects": dialects})
}

pub fn main() {
    let mode = arg("--mode").expect("--mode");
    let cases = read_ndjson(&arg("--in").expect("--in"));
    let args: Vec<String> = std::env::args().collect();
    let mut opts = ExecOpts::default();
    if let Some(p) = arg("--partitions") {
        opts.partitions = p.parse().unwrap();
    }
    if let Some(p) = arg("--batch-rows") {
        opts.batch_rows = p.parse().unwrap();
    }
    for i in 0..args.len() {
        if args[i] == "--set" {
            let (k, v) = args[i + 1].split_once('=').expect("--set k=v");
            opts.settings.push((k.to_string(), v.to_string()));
        }
    }
    let rt = tokio::runtime::Builder::new_multi_thread().worker_threads(4).enable_all().build().unwrap();
    let mut out = Vec::with_capacity(cases.len());
    let mut stats: HashMap<String, u64> = HashMap::new();
    for c in &cases {
        let r = rt.block_on(async {
            let fut = async {
                match mode.as_str() {
                    "c35" => c35_case(c, &opts, &mut stats).await,
                    "c36" => c36_case(c, &opts).await,
                    "c37" => c37_case(c, &opts).await,
                    "c38" => c38_case(c, &opts).await,
                    m => panic!("mode {m}"),
                }
            };
            fut.await
        });
        out.push(r);
    }
    write_ndjson(&arg("--out").expect("--out"), &out);
    summary(json!({"cases": cases.len(), "stats": stats}));
}
