//! Auxiliary drivers: CLI text (C51), benchmark validation (C46), plan transport (C35-C38), FFI (C45).
mod c46;
mod c35x;
mod c51;
mod transport;

fn main() {
    let a: Vec<String> = std::env::args().collect();
    let cmd = a.get(1).map(|s| s.as_str()).unwrap_or("");
    match cmd {
        "c46" => c46::main(),
        "transport" => transport::main(),
        "c35-exprs" => c35x::main(),
        "c51-split" => c51::split_main(),
        "c51-print" => c51::print_main(),
        "c51-repl" => c51::repl_main(),
        "c51-file" => c51::file_main(),
        _ => {
            eprintln!("usage: vaux <c51-split|c51-print|c51-repl|...> [options]");
            std::process::exit(2);
        }
    }
}
