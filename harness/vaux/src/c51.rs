//! C51 — drivers for the real `split_from_semicolon`, `PrintFormat::print_batches` and the REPL loop.
use std::sync::Arc;

use arrow::array::{ArrayRef, Int64Array, LargeStringArray, StringArray, StringViewArray};
use arrow::datatypes::{DataType, Field, Schema};
use arrow::record_batch::RecordBatch;
use datafusion::config::FormatOptions;
use datafusion::prelude::SessionContext;
use datafusion_cli::print_format::PrintFormat;
use datafusion_cli::print_options::{MaxRows, PrintOptions};
use serde_json::{Value, json};
use vcommon::util::{arg, read_ndjson, summary, write_ndjson};

/// in: {"s": "<real text>"}  out: {"out": [statements]}
pub fn split_main() {
    let cases = read_ndjson(&arg("--in").expect("--in"));
    let mut out = Vec::with_capacity(cases.len());
    let mut panics = 0;
    for c in &cases {
        let s = c["s"].as_str().unwrap().to_string();
        let r = std::panic::catch_unwind(|| datafusion_cli::helper::verif_split(&s));
        match r {
            Ok(v) => out.push(json!({"out": v})),
            Err(_) => {
                panics += 1;
                out.push(json!({"panic": true}))
            }
        }
    }
    write_ndjson(&arg("--out").expect("--out"), &out);
    summary(json!({"cases": cases.len(), "panics": panics}));
}

fn fmt_of(s: &str) -> PrintFormat {
    match s {
        "csv" => PrintFormat::Csv,
        "tsv" => PrintFormat::Tsv,
        "json" => PrintFormat::Json,
        "ndjson" => PrintFormat::NdJson,
        "automatic" => PrintFormat::Automatic,
        "table" => PrintFormat::Table,
        _ => panic!("format {s}"),
    }
}

fn column(kind: &str, strtype: &str, cells: &[&Value]) -> (DataType, ArrayRef) {
    if kind == "i" {
        let v: Vec<Option<i64>> = cells.iter().map(|c| c.as_i64()).collect();
        (DataType::Int64, Arc::new(Int64Array::from(v)))
    } else {
        let v: Vec<Option<&str>> = cells.iter().map(|c| c.as_str()).collect();
        match strtype {
            "large" => (DataType::LargeUtf8, Arc::new(LargeStringArray::from(v))),
            "view" => (DataType::Utf8View, Arc::new(StringViewArray::from(v))),
            _ => (DataType::Utf8, Arc::new(StringArray::from(v))),
        }
    }
}

/// in: {"fmt","header":bool,"names":[str],"kinds":["s"|"i"],"rows":[[null|str|int]],"split":[n1,n2..],"strtype"}
/// out: {"text": str} | {"err": str}
pub fn print_main() {
    let cases = read_ndjson(&arg("--in").expect("--in"));
    let mut out = Vec::with_capacity(cases.len());
    let mut errs = 0;
    for c in &cases {
        let names: Vec<&str> = c["names"].as_array().unwrap().iter().map(|v| v.as_str().unwrap()).collect();
        let kinds: Vec<&str> = c["kinds"].as_array().unwrap().iter().map(|v| v.as_str().unwrap()).collect();
        let rows = c["rows"].as_array().unwrap();
        let strtype = c["strtype"].as_str().unwrap_or("utf8");
        let split: Vec<usize> = c["split"].as_array().unwrap().iter().map(|v| v.as_u64().unwrap() as usize).collect();
        assert_eq!(split.iter().sum::<usize>(), rows.len());
        let mut batches = Vec::new();
        let mut schema = None;
        let mut start = 0;
        let mut spl = split.clone();
        if spl.is_empty() {
            spl.push(0);
        }
        for n in spl {
            let mut fields = Vec::new();
            let mut cols = Vec::new();
            for (j, k) in kinds.iter().enumerate() {
                let cells: Vec<&Value> = rows[start..start + n].iter().map(|r| &r[j]).collect();
                let (dt, arr) = column(k, strtype, &cells);
                fields.push(Field::new(names[j], dt, true));
                cols.push(arr);
            }
            let sc = Arc::new(Schema::new(fields));
            batches.push(RecordBatch::try_new(sc.clone(), cols).unwrap());
            schema = Some(sc);
            start += n;
        }
        let mut buf: Vec<u8> = Vec::new();
        let fmt = fmt_of(c["fmt"].as_str().unwrap());
        let r = std::panic::catch_unwind(std::panic::AssertUnwindSafe(|| {
            let maxrows = match c["maxrows"].as_i64() {
                Some(n) if n >= 0 => MaxRows::Limited(n as usize),
                _ => MaxRows::Unlimited,
            };
            fmt.print_batches(&mut buf, schema.unwrap(), &batches, maxrows,
                c["header"].as_bool().unwrap(), &FormatOptions::default())
        }));
        match r {
            Ok(Ok(())) => match String::from_utf8(buf) {
                Ok(t) => out.push(json!({"text": t})),
                Err(_) => {
                    errs += 1;
                    out.push(json!({"err": "output is not UTF-8"}))
                }
            },
            Ok(Err(e)) => {
                errs += 1;
                out.push(json!({"err": e.to_string()}))
            }
            Err(_) => {
                errs += 1;
                out.push(json!({"err": "panic"}))
            }
        }
    }
    write_ndjson(&arg("--out").expect("--out"), &out);
    summary(json!({"cases": cases.len(), "errors": errs}));
}

/// The client's interactive loop on piped stdin (as `datafusion-cli --quiet --format F` does):
/// exec_from_repl -> split_from_semicolon -> exec_and_print -> PrintOptions::print_batches -> stdout.
fn cli_options() -> (PrintFormat, MaxRows, bool) {
    let fmt = fmt_of(&arg("--format").unwrap_or("ndjson".into()));
    let maxrows = match arg("--maxrows").as_deref() {
        None | Some("inf") => MaxRows::Unlimited,
        Some(n) => MaxRows::Limited(n.parse().unwrap()),
    };
    (fmt, maxrows, arg("--quiet").as_deref() != Some("false"))
}

/// `datafusion-cli -f FILE`: exec_from_lines (comment lines, statements spanning lines)
pub fn file_main() {
    let (fmt, maxrows, quiet) = cli_options();
    let path = arg("--file").expect("--file");
    let rt = tokio::runtime::Builder::new_multi_thread().worker_threads(2).enable_all().build().unwrap();
    rt.block_on(async {
        let ctx = SessionContext::new();
        let po = PrintOptions {
            format: fmt,
            quiet,
            maxrows,
            color: false,
            instrumented_registry: Arc::new(datafusion_cli::object_storage::instrumented::InstrumentedObjectStoreRegistry::new()),
        };
        let f = std::fs::File::open(&path).unwrap();
        let mut rd = std::io::BufReader::new(f);
        if let Err(e) = datafusion_cli::exec::exec_from_lines(&ctx, &mut rd, &po).await {
            eprintln!("file error: {e}");
            std::process::exit(3);
        }
    });
}

pub fn repl_main() {
    let (fmt, maxrows, quiet) = cli_options();
    let rt = tokio::runtime::Builder::new_multi_thread().worker_threads(2).enable_all().build().unwrap();
    rt.block_on(async {
        let ctx = SessionContext::new();
        let mut po = PrintOptions {
            format: fmt,
            quiet,
            maxrows,
            color: false,
            instrumented_registry: Arc::new(
                datafusion_cli::object_storage::instrumented::InstrumentedObjectStoreRegistry::new(),
            ),
        };
        if let Err(e) = datafusion_cli::exec::exec_from_repl(&ctx, &mut po).await {
            eprintln!("repl error: {e}");
            std::process::exit(3);
        }
    });
}
