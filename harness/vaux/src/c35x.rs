//! C35 — Expr / ScalarValue round trips through protobuf over a generated pool (no plan needed).
use std::sync::Arc;

use arrow::datatypes::{DataType, Field, Fields, IntervalUnit, TimeUnit};
use datafusion::common::ScalarValue;
use datafusion::functions_aggregate::expr_fn::{count, max, sum};
use datafusion::functions_window::expr_fn::{lag, row_number};
use datafusion::logical_expr::expr::{Alias, Like};
use datafusion::logical_expr::{
    Between, Case, Cast, Expr, ExprFunctionExt, TryCast, WindowFrame, WindowFrameBound, WindowFrameUnits,
};
use datafusion::prelude::*;
use datafusion_proto::logical_plan::DefaultLogicalExtensionCodec;
use datafusion_proto::logical_plan::from_proto::parse_expr;
use datafusion_proto::logical_plan::to_proto::serialize_expr;
use serde_json::json;
use vcommon::util::{arg, summary, write_ndjson};

fn types() -> Vec<DataType> {
    let mut v = vec![
        DataType::Null, DataType::Boolean, DataType::Int8, DataType::Int16, DataType::Int32, DataType::Int64,
        DataType::UInt8, DataType::UInt16, DataType::UInt32, DataType::UInt64, DataType::Float16, DataType::Float32,
        DataType::Float64, DataType::Utf8, DataType::LargeUtf8, DataType::Utf8View, DataType::Binary,
        DataType::LargeBinary, DataType::BinaryView, DataType::FixedSizeBinary(3), DataType::Date32, DataType::Date64,
        DataType::Decimal32(7, 2), DataType::Decimal64(12, 3), DataType::Decimal128(20, 4), DataType::Decimal256(40, 5),
        DataType::Interval(IntervalUnit::YearMonth), DataType::Interval(IntervalUnit::DayTime),
        DataType::Interval(IntervalUnit::MonthDayNano),
    ];
    for u in [TimeUnit::Second, TimeUnit::Millisecond, TimeUnit::Microsecond, TimeUnit::Nanosecond] {
        v.push(DataType::Timestamp(u, None));
        v.push(DataType::Timestamp(u, Some("+02:00".into())));
        v.push(DataType::Timestamp(u, Some("UTC".into())));
        v.push(DataType::Duration(u));
    }
    v.push(DataType::Time32(TimeUnit::Second));
    v.push(DataType::Time32(TimeUnit::Millisecond));
    v.push(DataType::Time64(TimeUnit::Microsecond));
    v.push(DataType::Time64(TimeUnit::Nanosecond));
    let item = Arc::new(Field::new("item", DataType::Int32, true));
    v.push(DataType::List(item.clone()));
    v.push(DataType::LargeList(item.clone()));
    v.push(DataType::FixedSizeList(item.clone(), 2));
    v.push(DataType::Struct(Fields::from(vec![Field::new("a", DataType::Int32, true), Field::new("b", DataType::Utf8, false)])));
    v.push(DataType::Dictionary(Box::new(DataType::Int8), Box::new(DataType::Utf8)));
    v.push(DataType::Dictionary(Box::new(DataType::UInt32), Box::new(DataType::Int64)));
    v
}

fn scalars() -> Vec<ScalarValue> {
    let mut out = Vec::new();
    for dt in types() {
        if let Ok(n) = ScalarValue::try_from(&dt) {
            out.push(n);
        }
        for f in [ScalarValue::new_zero, ScalarValue::new_one, ScalarValue::new_negative_one, ScalarValue::new_ten] {
            if let Ok(s) = f(&dt) {
                out.push(s);
            }
        }
        if let Ok(s) = ScalarValue::new_default(&dt) {
            out.push(s);
        }
    }
    out.push(ScalarValue::Utf8(Some("a'b\"c\u{e9}".into())));
    out.push(ScalarValue::Utf8View(Some("".into())));
    out.push(ScalarValue::LargeUtf8(Some("x".into())));
    out.push(ScalarValue::Binary(Some(vec![0, 255, 7])));
    out.push(ScalarValue::FixedSizeBinary(3, Some(vec![1, 2, 3])));
    out.push(ScalarValue::Int64(Some(i64::MIN)));
    out.push(ScalarValue::Int64(Some(i64::MAX)));
    out.push(ScalarValue::UInt64(Some(u64::MAX)));
    out.push(ScalarValue::Float64(Some(f64::NEG_INFINITY)));
    out.push(ScalarValue::Float32(Some(-0.0)));
    out.push(ScalarValue::Decimal128(Some(-12345), 20, 4));
    out.push(ScalarValue::Decimal256(Some(arrow::datatypes::i256::from_i128(i128::MIN)), 40, 5));
    out.push(ScalarValue::Date32(Some(-1)));
    out.push(ScalarValue::TimestampNanosecond(Some(1_700_000_000_123_456_789), Some("+02:00".into())));
    out.push(ScalarValue::IntervalMonthDayNano(Some(arrow::datatypes::IntervalMonthDayNano::new(-1, 2, -3))));
    out.push(ScalarValue::IntervalDayTime(Some(arrow::datatypes::IntervalDayTime::new(-1, 2))));
    out.push(ScalarValue::List(ScalarValue::new_list_nullable(&[ScalarValue::Int32(Some(1)), ScalarValue::Int32(None)], &DataType::Int32)));
    out.push(ScalarValue::List(ScalarValue::new_list_nullable(&[], &DataType::Utf8)));
    out.push(ScalarValue::Dictionary(Box::new(DataType::Int8), Box::new(ScalarValue::Utf8(Some("d".into())))));
    out.push(ScalarValue::Dictionary(Box::new(DataType::UInt16), Box::new(ScalarValue::Int64(None))));
    out.push(ScalarValue::LargeList(ScalarValue::new_large_list(&[ScalarValue::Utf8(Some("x".into())), ScalarValue::Utf8(None)], &DataType::Utf8)));
    out.push(ScalarValue::List(ScalarValue::new_list_nullable(&[ScalarValue::List(ScalarValue::new_list_nullable(&[ScalarValue::Int64(Some(1))], &DataType::Int64))],
        &DataType::List(Arc::new(Field::new("item", DataType::Int64, true))))));
    if let Ok(s) = ScalarValue::try_from(&DataType::Struct(Fields::from(vec![Field::new("a", DataType::Int32, true)]))) {
        out.push(s);
    }
    {
        use arrow::array::{ArrayRef, Int32Array, StringArray, StructArray};
        let st = StructArray::from(vec![
            (Arc::new(Field::new("a", DataType::Int32, true)), Arc::new(Int32Array::from(vec![Some(7)])) as ArrayRef),
            (Arc::new(Field::new("b", DataType::Utf8, true)), Arc::new(StringArray::from(vec![None::<&str>])) as ArrayRef),
        ]);
        out.push(ScalarValue::Struct(Arc::new(st)));
    }
    out.push(ScalarValue::Decimal32(Some(-123), 7, 2));
    out.push(ScalarValue::Decimal64(Some(123456789), 12, 3));
    out.push(ScalarValue::Decimal128(None, 38, 10));
    out.push(ScalarValue::Time32Second(Some(86399)));
    out.push(ScalarValue::Time64Nanosecond(Some(1)));
    out.push(ScalarValue::DurationMicrosecond(Some(-5)));
    out.push(ScalarValue::IntervalYearMonth(Some(-13)));
    out.push(ScalarValue::TimestampSecond(Some(-1), Some("America/New_York".into())));
    out.push(ScalarValue::TimestampMillisecond(None, Some("UTC".into())));
    out.push(ScalarValue::Date64(Some(86_400_000)));
    out.push(ScalarValue::BinaryView(Some(vec![1, 2])));
    out.push(ScalarValue::LargeBinary(Some(vec![])));
    out.push(ScalarValue::Float16(Some(half_from_f32(1.5))));
    out.push(ScalarValue::Float64(Some(f64::NAN)));
    out.push(ScalarValue::UInt8(Some(255)));
    out.push(ScalarValue::Int8(Some(-128)));
    out
}


/// nested scalars with several dictionary-encoded children (dictionary ids must survive the IPC round trip)
fn dict_scalars() -> Vec<ScalarValue> {
    use arrow::array::{Array, ArrayRef, DictionaryArray, FixedSizeListArray, Int32Array, Int64Array, MapArray, StringArray, StructArray};
    use arrow::buffer::OffsetBuffer;
    use arrow::datatypes::{Int8Type, Int32Type, UInt16Type};
    use datafusion::common::utils::SingleRowListArrayBuilder;
    let d32 = |v: Vec<&str>| -> ArrayRef { Arc::new(v.into_iter().collect::<DictionaryArray<Int32Type>>()) };
    let d8 = |v: Vec<&str>| -> ArrayRef { Arc::new(v.into_iter().collect::<DictionaryArray<Int8Type>>()) };
    let d16i = |v: Vec<i64>| -> ArrayRef {
        let keys = arrow::array::UInt16Array::from((0..v.len() as u16).collect::<Vec<_>>());
        Arc::new(DictionaryArray::<UInt16Type>::try_new(keys, Arc::new(Int64Array::from(v))).unwrap())
    };
    let f = |n: &str, a: &ArrayRef| Arc::new(Field::new(n, a.data_type().clone(), true));
    let st = |cols: Vec<(&str, ArrayRef)>| -> StructArray { StructArray::from(cols.iter().map(|(n, a)| (f(n, a), a.clone())).collect::<Vec<_>>()) };
    let mut out = Vec::new();
    // struct with 2 and 3 dictionary fields (different key / value types), and a mix with plain fields
    out.push(ScalarValue::Struct(Arc::new(st(vec![("country", d32(vec!["nl"])), ("city", d32(vec!["ams"]))]))));
    out.push(ScalarValue::Struct(Arc::new(st(vec![("a", d8(vec!["x"])), ("b", d16i(vec![7])), ("c", d32(vec!["z"]))]))));
    out.push(ScalarValue::Struct(Arc::new(st(vec![("plain", Arc::new(Int32Array::from(vec![1])) as ArrayRef), ("d1", d32(vec!["p"])), ("s", Arc::new(StringArray::from(vec!["q"])) as ArrayRef), ("d2", d8(vec!["r"]))]))));
    // list of struct<dict, dict>
    let two = st(vec![("country", d32(vec!["nl", "be"])), ("city", d32(vec!["ams", "bru"]))]);
    out.push(SingleRowListArrayBuilder::new(Arc::new(two.clone())).build_list_scalar());
    out.push(SingleRowListArrayBuilder::new(Arc::new(two.clone())).build_large_list_scalar());
    // fixed size list of dictionary values, and of struct<dict, dict>
    out.push(SingleRowListArrayBuilder::new(d32(vec!["u", "v"])).build_fixed_size_list_scalar(2));
    out.push(SingleRowListArrayBuilder::new(Arc::new(two)).build_fixed_size_list_scalar(2));
    let _ = FixedSizeListArray::new_null;
    // map with dictionary keys' values: map<utf8, dictionary> and map<utf8, struct<dict, dict>>
    for vals in [d32(vec!["m1", "m2"]), Arc::new(st(vec![("x", d32(vec!["a", "b"])), ("y", d8(vec!["c", "d"]))])) as ArrayRef] {
        let keys: ArrayRef = Arc::new(StringArray::from(vec!["k1", "k2"]));
        let entries = StructArray::from(vec![(Arc::new(Field::new("key", DataType::Utf8, false)), keys), (Arc::new(Field::new("value", vals.data_type().clone(), true)), vals)]);
        let field = Arc::new(Field::new("entries", entries.data_type().clone(), false));
        if let Ok(m) = MapArray::try_new(field, OffsetBuffer::new(vec![0i32, 2].into()), entries, None, false) {
            out.push(ScalarValue::Map(Arc::new(m)));
        }
    }
    out
}

fn half_from_f32(x: f32) -> half::f16 {
    half::f16::from_f32(x)
}

fn exprs() -> Vec<Expr> {
    let a = col("t.a");
    let b = col("b");
    let frame = WindowFrame::new_bounds(WindowFrameUnits::Rows, WindowFrameBound::Preceding(ScalarValue::UInt64(Some(1))),
        WindowFrameBound::Following(ScalarValue::UInt64(None)));
    let rframe = WindowFrame::new_bounds(WindowFrameUnits::Range, WindowFrameBound::Preceding(ScalarValue::Int64(Some(2))),
        WindowFrameBound::CurrentRow);
    let gframe = WindowFrame::new_bounds(WindowFrameUnits::Groups, WindowFrameBound::CurrentRow,
        WindowFrameBound::Following(ScalarValue::UInt64(Some(3))));
    let mut v = vec![
        a.clone().eq(lit(1i64)), a.clone().not_eq(b.clone()), a.clone().lt(b.clone()).and(a.clone().gt_eq(lit(0i64))).or(b.clone().is_null()),
        a.clone() + b.clone() * lit(2i64) - lit(1i64) / b.clone() % lit(3i64),
        Expr::Negative(Box::new(a.clone())), Expr::Not(Box::new(a.clone().is_not_null())),
        a.clone().is_true(), a.clone().is_false(), a.clone().is_unknown(), a.clone().is_not_true(), a.clone().is_not_false(), a.clone().is_not_unknown(),
        Expr::Between(Between::new(Box::new(a.clone()), false, Box::new(lit(1i64)), Box::new(lit(5i64)))),
        Expr::Between(Between::new(Box::new(a.clone()), true, Box::new(lit(1i64)), Box::new(b.clone()))),
        a.clone().in_list(vec![lit(1i64), lit(2i64)], false), a.clone().in_list(vec![lit(1i64), lit(ScalarValue::Int64(None))], true),
        Expr::Like(Like::new(false, Box::new(b.clone()), Box::new(lit("a%")), None, false)),
        Expr::Like(Like::new(true, Box::new(b.clone()), Box::new(lit("a!%")), Some('!'), true)),
        Expr::SimilarTo(Like::new(false, Box::new(b.clone()), Box::new(lit("a.*")), None, false)),
        Expr::SimilarTo(Like::new(true, Box::new(b.clone()), Box::new(lit("a.*")), Some('\\'), false)),
        Expr::Cast(Cast::new(Box::new(a.clone()), DataType::Utf8)), Expr::TryCast(TryCast::new(Box::new(b.clone()), DataType::Int32)),
        Expr::Cast(Cast::new(Box::new(a.clone()), DataType::Timestamp(TimeUnit::Millisecond, Some("UTC".into())))),
        Expr::Case(Case::new(None, vec![(Box::new(a.clone().gt(lit(0i64))), Box::new(lit("p")))], Some(Box::new(lit("n"))))),
        Expr::Case(Case::new(Some(Box::new(a.clone())), vec![(Box::new(lit(1i64)), Box::new(lit("one"))), (Box::new(lit(2i64)), Box::new(lit("two")))], None)),
        Expr::Alias(Alias::new(a.clone(), Some("q"), "x")), a.clone().alias("plain"),
        abs(a.clone()), coalesce(vec![a.clone(), lit(0i64)]), nullif(a.clone(), lit(1i64)), concat(vec![b.clone(), lit("z")]),
        Expr::IsNotNull(Box::new(a.clone())), Expr::IsNull(Box::new(b.clone())), a.clone().eq(placeholder("$1")),
        Expr::BinaryExpr(datafusion::logical_expr::BinaryExpr::new(Box::new(a.clone()), datafusion::logical_expr::Operator::IsDistinctFrom, Box::new(b.clone()))),
        Expr::BinaryExpr(datafusion::logical_expr::BinaryExpr::new(Box::new(a.clone()), datafusion::logical_expr::Operator::IsNotDistinctFrom, Box::new(b.clone()))),
        Expr::BinaryExpr(datafusion::logical_expr::BinaryExpr::new(Box::new(b.clone()), datafusion::logical_expr::Operator::StringConcat, Box::new(lit("s")))),
        Expr::BinaryExpr(datafusion::logical_expr::BinaryExpr::new(Box::new(b.clone()), datafusion::logical_expr::Operator::RegexIMatch, Box::new(lit("^a")))),
        Expr::BinaryExpr(datafusion::logical_expr::BinaryExpr::new(Box::new(a.clone()), datafusion::logical_expr::Operator::BitwiseShiftLeft, Box::new(lit(2i64)))),
        sum(a.clone()), count(lit(1i64)), max(b.clone()),
    ];
    // every binary operator variant
    {
        use datafusion::logical_expr::{BinaryExpr, Operator::*};
        for op in [Eq, NotEq, Lt, LtEq, Gt, GtEq, Plus, Minus, Multiply, Divide, Modulo, And, Or, IsDistinctFrom, IsNotDistinctFrom, RegexMatch,
            RegexIMatch, RegexNotMatch, RegexNotIMatch, LikeMatch, ILikeMatch, NotLikeMatch, NotILikeMatch, BitwiseAnd, BitwiseOr, BitwiseXor,
            BitwiseShiftRight, BitwiseShiftLeft, StringConcat, AtArrow, ArrowAt, Arrow, LongArrow, HashArrow, HashLongArrow, AtAt, IntegerDivide,
            HashMinus, AtQuestion, Question, QuestionAnd, QuestionPipe] {
            v.push(Expr::BinaryExpr(BinaryExpr::new(Box::new(a.clone()), op, Box::new(b.clone()))));
        }
    }
    // sort options, all four combinations, inside an aggregate's ORDER BY and a window's ORDER BY
    for (asc, nf) in [(true, true), (true, false), (false, true), (false, false)] {
        if let Ok(e) = datafusion::functions_aggregate::expr_fn::array_agg(a.clone()).order_by(vec![b.clone().sort(asc, nf)]).build() {
            v.push(e);
        }
        if let Ok(e) = row_number().order_by(vec![a.clone().sort(asc, nf)]).build() {
            v.push(e);
        }
    }
    // window frames: units x start bound x end bound
    {
        use WindowFrameBound::*;
        let u = |n: Option<u64>| ScalarValue::UInt64(n);
        for units in [WindowFrameUnits::Rows, WindowFrameUnits::Range, WindowFrameUnits::Groups] {
            for (st, en) in [(Preceding(u(None)), CurrentRow), (Preceding(u(Some(2))), Following(u(Some(1)))), (CurrentRow, Following(u(None))),
                (Preceding(u(Some(3))), Preceding(u(Some(1)))), (Following(u(Some(1))), Following(u(Some(4)))), (CurrentRow, CurrentRow),
                (Preceding(u(None)), Following(u(None)))] {
                if let Ok(e) = sum(a.clone()).order_by(vec![a.clone().sort(true, false)]).window_frame(WindowFrame::new_bounds(units, st.clone(), en.clone())).build() {
                    v.push(e);
                }
            }
        }
    }
    // null treatment / distinct / filter on window and aggregate calls
    for nt in [datafusion::logical_expr::expr::NullTreatment::IgnoreNulls, datafusion::logical_expr::expr::NullTreatment::RespectNulls] {
        if let Ok(e) = lag(a.clone(), None, None).order_by(vec![a.clone().sort(true, true)]).null_treatment(nt).build() {
            v.push(e);
        }
        if let Ok(e) = datafusion::functions_aggregate::expr_fn::last_value(a.clone(), vec![b.clone().sort(true, true)]).null_treatment(nt).build() {
            v.push(e);
        }
    }
    if let Ok(e) = sum(a.clone()).filter(b.clone().is_not_null()).order_by(vec![a.clone().sort(true, false)]).partition_by(vec![b.clone()]).build() {
        v.push(e); // window aggregate with FILTER
    }
    // grouping sets, placeholders with / without types, outer references, unnest, metadata
    {
        use datafusion::logical_expr::GroupingSet;
        v.push(Expr::GroupingSet(GroupingSet::Rollup(vec![a.clone(), b.clone()])));
        v.push(Expr::GroupingSet(GroupingSet::Cube(vec![a.clone(), b.clone()])));
        v.push(Expr::GroupingSet(GroupingSet::GroupingSets(vec![vec![a.clone()], vec![b.clone(), a.clone()], vec![]])));
        v.push(Expr::Placeholder(datafusion::logical_expr::expr::Placeholder::new_with_field("$2".into(), Some(Arc::new(Field::new("p", DataType::Int32, true))))));
        v.push(Expr::Placeholder(datafusion::logical_expr::expr::Placeholder::new_with_field("$name".into(), Some(Arc::new(Field::new("p", DataType::Utf8, false))))));
        v.push(placeholder("$3"));
        v.push(Expr::OuterReferenceColumn(Arc::new(Field::new("o", DataType::Int64, true)), datafusion::common::Column::new(Some("outer_t"), "o")));
        v.push(Expr::Unnest(datafusion::logical_expr::expr::Unnest::new(col("arr"))));
        let mut md = std::collections::HashMap::new();
        md.insert("unit".to_string(), "m".to_string());
        v.push(a.clone().alias_with_metadata("with_md", Some(md.clone().into())));
        v.push(Expr::Literal(ScalarValue::Int32(Some(5)), Some(md.into())));
        v.push(Expr::Alias(Alias::new(b.clone(), None::<&str>, "noqual")));
        v.push(col("cat.sch.tbl.c"));
        v.push(Expr::Column(datafusion::common::Column::new(Some("sch.tbl"), "c")));
        v.push(Expr::Column(datafusion::common::Column::new_unqualified("Mixed Case")));
        v.push(Expr::ScalarVariable(Arc::new(Field::new("v", DataType::Int64, true)), vec!["@v".to_string()]));
    }
    // cast targets incl. time zones / decimals / nested
    for dt in [DataType::Timestamp(TimeUnit::Nanosecond, Some("+05:30".into())), DataType::Timestamp(TimeUnit::Second, None), DataType::Decimal128(10, 3),
        DataType::Decimal256(50, 0), DataType::Date32, DataType::Utf8View, DataType::LargeUtf8, DataType::List(Arc::new(Field::new("item", DataType::Int64, true))),
        DataType::Dictionary(Box::new(DataType::Int16), Box::new(DataType::Utf8)), DataType::Interval(IntervalUnit::MonthDayNano), DataType::Duration(TimeUnit::Millisecond)] {
        v.push(Expr::Cast(Cast::new(Box::new(a.clone()), dt.clone())));
        v.push(Expr::TryCast(TryCast::new(Box::new(a.clone()), dt)));
    }
    // IN list with non-literal entries, nested CASE, LIKE variants (negated x case_insensitive x escape)
    v.push(a.clone().in_list(vec![b.clone(), a.clone() + lit(1i64), lit(3i64)], false));
    v.push(a.clone().in_list(vec![], true));
    for neg in [false, true] {
        for ci in [false, true] {
            for esc in [None, Some('#')] {
                v.push(Expr::Like(Like::new(neg, Box::new(b.clone()), Box::new(lit("a_%")), esc, ci)));
                v.push(Expr::SimilarTo(Like::new(neg, Box::new(b.clone()), Box::new(lit("(a|b)+")), esc, ci)));
            }
        }
    }
    for built in [
        sum(a.clone()).distinct().build(),
        sum(a.clone()).filter(b.clone().is_not_null()).build(),
        count(a.clone()).distinct().filter(a.clone().gt(lit(0i64))).build(),
        datafusion::functions_aggregate::expr_fn::first_value(a.clone(), vec![b.clone().sort(false, true)]).null_treatment(datafusion::logical_expr::expr::NullTreatment::IgnoreNulls).build(),
        datafusion::functions_aggregate::expr_fn::array_agg(a.clone()).order_by(vec![b.clone().sort(true, false), a.clone().sort(false, false)]).build(),
        row_number().partition_by(vec![a.clone()]).order_by(vec![b.clone().sort(true, true)]).build(),
        row_number().order_by(vec![b.clone().sort(false, false)]).window_frame(frame.clone()).build(),
        lag(a.clone(), Some(2), Some(ScalarValue::Int64(Some(7)))).partition_by(vec![b.clone()]).order_by(vec![a.clone().sort(true, false)]).build(),
        sum(a.clone()).partition_by(vec![b.clone()]).order_by(vec![a.clone().sort(true, true)]).window_frame(rframe.clone()).build(),
        max(a.clone()).order_by(vec![a.clone().sort(false, true)]).window_frame(gframe.clone()).build(),
        count(a.clone()).distinct().partition_by(vec![b.clone()]).window_frame(WindowFrame::new(None)).build(),
    ] {
        if let Ok(e) = built {
            v.push(e);
        }
    }
    v
}

pub fn dict_literals() -> Vec<ScalarValue> {
    dict_scalars()
}

pub fn main() {
    let ctx = SessionContext::new();
    let codec = DefaultLogicalExtensionCodec {};
    let mut res = Vec::new();
    let (mut n, mut enc_err, mut bad) = (0, 0, 0);
    let mut all: Vec<(String, Expr)> = scalars().into_iter().map(|s| ("scalar".to_string(), Expr::Literal(s, None))).collect();
    all.extend(exprs().into_iter().map(|e| ("expr".to_string(), e)));
    for sv in dict_scalars() {
        all.push(("scalar".to_string(), Expr::Literal(sv.clone(), None)));
        all.push(("expr".to_string(), col("a").eq(Expr::Literal(sv, None))));
    }
    for (kind, e) in all {
        n += 1;
        let p = match serialize_expr(&e, &codec) {
            Ok(p) => p,
            Err(x) => {
                enc_err += 1;
                res.push(json!({"kind": kind, "expr": format!("{e:?}"), "enc_err": x.to_string()}));
                continue;
            }
        };
        // also through bytes
        let bytes = prost_bytes(&p);
        let p2 = match prost_decode(&bytes) {
            Ok(p2) => p2,
            Err(x) => {
                bad += 1;
                res.push(json!({"kind": kind, "expr": format!("{e:?}"), "dec_err": x}));
                continue;
            }
        };
        match parse_expr(&p2, &ctx.task_ctx(), &codec) {
            Ok(d) => {
                let same = d == e;
                let same_type = match (&d, &e) {
                    (Expr::Literal(x, _), Expr::Literal(y, _)) => x.data_type() == y.data_type(),
                    _ => true,
                };
                if !(same && same_type) {
                    bad += 1;
                }
                res.push(json!({"kind": kind, "variant": tag_of(&e), "expr": format!("{e:?}"), "equal": same && same_type, "decoded": if same && same_type { None } else { Some(format!("{d:?}")) }}));
            }
            Err(x) => {
                bad += 1;
                res.push(json!({"kind": kind, "expr": format!("{e:?}"), "dec_err": x.to_string()}));
            }
        }
    }
    write_ndjson(&arg("--out").expect("--out"), &res);
    summary(json!({"cases": n, "enc_err": enc_err, "bad": bad}));
}

fn tag_of(e: &Expr) -> String {
    match e {
        Expr::Literal(s, md) => format!("Literal:{}{}", s.data_type(), if s.is_null() { ":null" } else { "" }) + if md.is_some() { ":metadata" } else { "" },
        Expr::BinaryExpr(b) => format!("BinaryExpr:{:?}", b.op),
        Expr::Like(l) => format!("Like:neg={}:ci={}:esc={}", l.negated, l.case_insensitive, l.escape_char.is_some()),
        Expr::SimilarTo(l) => format!("SimilarTo:neg={}:ci={}:esc={}", l.negated, l.case_insensitive, l.escape_char.is_some()),
        Expr::Between(b) => format!("Between:neg={}", b.negated),
        Expr::InList(l) => format!("InList:neg={}", l.negated),
        Expr::Case(c) => format!("Case:base={}:else={}", c.expr.is_some(), c.else_expr.is_some()),
        Expr::Cast(c) => format!("Cast:{}", c.field.data_type()),
        Expr::TryCast(c) => format!("TryCast:{}", c.field.data_type()),
        Expr::GroupingSet(g) => format!("GroupingSet:{}", match g { datafusion::logical_expr::GroupingSet::Rollup(_) => "Rollup", datafusion::logical_expr::GroupingSet::Cube(_) => "Cube", _ => "Sets" }),
        Expr::Placeholder(p) => format!("Placeholder:typed={}", p.field.is_some()),
        Expr::Alias(a) => format!("Alias:rel={}:md={}", a.relation.is_some(), a.metadata.is_some()),
        Expr::AggregateFunction(f) => format!("AggregateFunction:distinct={}:filter={}:order_by={}:nt={:?}", f.params.distinct, f.params.filter.is_some(), !f.params.order_by.is_empty(), f.params.null_treatment),
        Expr::WindowFunction(w) => format!("WindowFunction:{:?}:{}:{}:part={}:ord={}:nt={:?}:filter={}:distinct={}", w.params.window_frame.units,
            bound_tag(&w.params.window_frame.start_bound), bound_tag(&w.params.window_frame.end_bound), !w.params.partition_by.is_empty(),
            w.params.order_by.iter().map(|s| format!("{}{}", if s.asc { "a" } else { "d" }, if s.nulls_first { "f" } else { "l" })).collect::<Vec<_>>().join(""),
            w.params.null_treatment, w.params.filter.is_some(), w.params.distinct),
        other => other.variant_name().to_string(),
    }
}

fn bound_tag(b: &WindowFrameBound) -> String {
    match b {
        WindowFrameBound::Preceding(v) => if v.is_null() { "UP".into() } else { "P".into() },
        WindowFrameBound::Following(v) => if v.is_null() { "UF".into() } else { "F".into() },
        WindowFrameBound::CurrentRow => "CR".into(),
    }
}

fn prost_bytes(p: &datafusion_proto::protobuf::LogicalExprNode) -> Vec<u8> {
    use datafusion_proto::protobuf::LogicalExprNode;
    let _: &LogicalExprNode = p;
    prost::Message::encode_to_vec(p)
}

fn prost_decode(b: &[u8]) -> Result<datafusion_proto::protobuf::LogicalExprNode, String> {
    <datafusion_proto::protobuf::LogicalExprNode as prost::Message>::decode(b).map_err(|e| e.to_string())
}
