//! C35 — Expr / ScalarValue round trips through protobuf over a generated pool (no plan needed).
use std::sync::Arc;

use arrow::datatypes::{DataType, Field, Fields, IntervalUnit, TimeUnit};
use datafusion::common::ScalarValue;
use datafusion::functions_aggregate::expr_fn::{count, max, sum};
use datafusion::functions_window::expr_fn::{lag, row_number};
use datafusion::logical_expr::expr::{Alias, Like};
use datafusion::logical_expr::{
    Between, Case, Cast, Expr, ExprFunctionExt, TryCast, WindowFrame, WindowFrameBound, WindowFrameUnits,
};
use datafusion::prelude::*;
use datafusion_proto::logical_plan::DefaultLogicalExtensionCodec;
use datafusion_proto::logical_plan::from_proto::parse_expr;
use datafusion_proto::logical_plan::to_proto::serialize_expr;
use serde_json::json;
use vcommon::util::{arg, summary, write_ndjson};

fn types() -> Vec<DataType> {
    let mut v = vec![
        DataType::Null, DataType::Boolean, DataType::Int8, DataType::Int16, DataType::Int32, DataType::Int64,
        DataType::UInt8, DataType::UInt16, DataType::UInt32, DataType::UInt64, DataType::Float16, DataType::Float32,
        DataType::Float64, DataType::Utf8, DataType::LargeUtf8, DataType::Utf8View, DataType::Binary,
        DataType::LargeBinary, DataType::BinaryView, DataType::FixedSizeBinary(3), DataType::Date32, DataType::Date64,
        DataType::Decimal32(7, 2), DataType::Decimal64(12, 3), DataType::Decimal128(20, 4), DataType::Decimal256(40, 5),
        DataType::Interval(IntervalUnit::YearMonth), DataType::Interval(IntervalUnit::DayTime),
        DataType::Interval(IntervalUnit::MonthDayNano),
    ];
    for u in [TimeUnit::Second, TimeUnit::Millisecond, TimeUnit::Microsecond, TimeUnit::Nanosecond] {
        v.push(DataType::Timestamp(u, None));
        v.push(DataType::Timestamp(u, Some("+02:00".into())));
        v.push(DataType::Timestamp(u, Some("UTC".into())));
        v.push(DataType::Duration(u));
    }
    v.push(DataType::Time32(TimeUnit::Second));
    v.push(DataType::Time32(TimeUnit::Millisecond));
    v.push(DataType::Time64(TimeUnit::Microsecond));
    v.push(DataType::Time64(TimeUnit::Nanosecond));
    let item = Arc::new(Field::new("item", DataType::Int32, true));
    v.push(DataType::List(item.clone()));
    v.push(DataType::LargeList(item.clone()));
    v.push(DataType::FixedSizeList(item.clone(), 2));
    v.push(DataType::Struct(Fields::from(vec![Field::new("a", DataType::Int32, true), Field::new("b", DataType::Utf8, false)])));
    v.push(DataType::Dictionary(Box::new(DataType::Int8), Box::new(DataType::Utf8)));
    v.push(DataType::Dictionary(Box::new(DataType::UInt32), Box::new(DataType::Int64)));
    v
}

fn scalars() -> Vec<ScalarValue> {
    let mut out = Vec::new();
    for dt in types() {
        if let Ok(n) = ScalarValue::try_from(&dt) {
            out.push(n);
        }
        for f in [ScalarValue::new_zero, ScalarValue::new_one, ScalarValue::new_negative_one, ScalarValue::new_ten] {
            if let Ok(s) = f(&dt) {
                out.push(s);
            }
        }
        if let Ok(s) = ScalarValue::new_default(&dt) {
            out.push(s);
        }
    }
    out.push(ScalarValue::Utf8(Some("a'b\"c\u{e9}".into())));
    out.push(ScalarValue::Utf8View(Some("".into())));
    out.push(ScalarValue::LargeUtf8(Some("x".into())));
    out.push(ScalarValue::Binary(Some(vec![0, 255, 7])));
    out.push(ScalarValue::FixedSizeBinary(3, Some(vec![1, 2, 3])));
    out.push(ScalarValue::Int64(Some(i64::MIN)));
    out.push(ScalarValue::Int64(Some(i64::MAX)));
    out.push(ScalarValue::UInt64(Some(u64::MAX)));
    out.push(ScalarValue::Float64(Some(f64::NEG_INFINITY)));
    out.push(ScalarValue::Float32(Some(-0.0)));
    out.push(ScalarValue::Decimal128(Some(-12345), 20, 4));
    out.push(ScalarValue::Decimal256(Some(arrow::datatypes::i256::from_i128(i128::MIN)), 40, 5));
    out.push(ScalarValue::Date32(Some(-1)));
    out.push(ScalarValue::TimestampNanosecond(Some(1_700_000_000_123_456_789), Some("+02:00".into())));
    out.push(ScalarValue::IntervalMonthDayNano(Some(arrow::datatypes::IntervalMonthDayNano::new(-1, 2, -3))));
    out.push(ScalarValue::IntervalDayTime(Some(arrow::datatypes::IntervalDayTime::new(-1, 2))));
    out.push(ScalarValue::List(ScalarValue::new_list_nullable(&[ScalarValue::Int32(Some(1)), ScalarValue::Int32(None)], &DataType::Int32)));
    out.push(ScalarValue::List(ScalarValue::new_list_nullable(&[], &DataType::Utf8)));
    out.push(ScalarValue::Dictionary(Box::new(DataType::Int8), Box::new(ScalarValue::Utf8(Some("d".into())))));
    out
}

fn exprs() -> Vec<Expr> {
    let a = col("t.a");
    let b = col("b");
    let frame = WindowFrame::new_bounds(WindowFrameUnits::Rows, WindowFrameBound::Preceding(ScalarValue::UInt64(Some(1))),
        WindowFrameBound::Following(ScalarValue::UInt64(None)));
    let rframe = WindowFrame::new_bounds(WindowFrameUnits::Range, WindowFrameBound::Preceding(ScalarValue::Int64(Some(2))),
        WindowFrameBound::CurrentRow);
    let gframe = WindowFrame::new_bounds(WindowFrameUnits::Groups, WindowFrameBound::CurrentRow,
        WindowFrameBound::Following(ScalarValue::UInt64(Some(3))));
    let mut v = vec![
        a.clone().eq(lit(1i64)), a.clone().not_eq(b.clone()), a.clone().lt(b.clone()).and(a.clone().gt_eq(lit(0i64))).or(b.clone().is_null()),
        a.clone() + b.clone() * lit(2i64) - lit(1i64) / b.clone() % lit(3i64),
        Expr::Negative(Box::new(a.clone())), Expr::Not(Box::new(a.clone().is_not_null())),
        a.clone().is_true(), a.clone().is_false(), a.clone().is_unknown(), a.clone().is_not_true(), a.clone().is_not_false(), a.clone().is_not_unknown(),
        Expr::Between(Between::new(Box::new(a.clone()), false, Box::new(lit(1i64)), Box::new(lit(5i64)))),
        Expr::Between(Between::new(Box::new(a.clone()), true, Box::new(lit(1i64)), Box::new(b.clone()))),
        a.clone().in_list(vec![lit(1i64), lit(2i64)], false), a.clone().in_list(vec![lit(1i64), lit(ScalarValue::Int64(None))], true),
        Expr::Like(Like::new(false, Box::new(b.clone()), Box::new(lit("a%")), None, false)),
        Expr::Like(Like::new(true, Box::new(b.clone()), Box::new(lit("a!%")), Some('!'), true)),
        Expr::SimilarTo(Like::new(false, Box::new(b.clone()), Box::new(lit("a.*")), None, false)),
        Expr::SimilarTo(Like::new(true, Box::new(b.clone()), Box::new(lit("a.*")), Some('\\'), false)),
        Expr::Cast(Cast::new(Box::new(a.clone()), DataType::Utf8)), Expr::TryCast(TryCast::new(Box::new(b.clone()), DataType::Int32)),
        Expr::Cast(Cast::new(Box::new(a.clone()), DataType::Timestamp(TimeUnit::Millisecond, Some("UTC".into())))),
        Expr::Case(Case::new(None, vec![(Box::new(a.clone().gt(lit(0i64))), Box::new(lit("p")))], Some(Box::new(lit("n"))))),
        Expr::Case(Case::new(Some(Box::new(a.clone())), vec![(Box::new(lit(1i64)), Box::new(lit("one"))), (Box::new(lit(2i64)), Box::new(lit("two")))], None)),
        Expr::Alias(Alias::new(a.clone(), Some("q"), "x")), a.clone().alias("plain"),
        abs(a.clone()), coalesce(vec![a.clone(), lit(0i64)]), nullif(a.clone(), lit(1i64)), concat(vec![b.clone(), lit("z")]),
        Expr::IsNotNull(Box::new(a.clone())), a.clone().eq(placeholder("$1")),
        Expr::BinaryExpr(datafusion::logical_expr::BinaryExpr::new(Box::new(a.clone()), datafusion::logical_expr::Operator::IsDistinctFrom, Box::new(b.clone()))),
        Expr::BinaryExpr(datafusion::logical_expr::BinaryExpr::new(Box::new(a.clone()), datafusion::logical_expr::Operator::IsNotDistinctFrom, Box::new(b.clone()))),
        Expr::BinaryExpr(datafusion::logical_expr::BinaryExpr::new(Box::new(b.clone()), datafusion::logical_expr::Operator::StringConcat, Box::new(lit("s")))),
        Expr::BinaryExpr(datafusion::logical_expr::BinaryExpr::new(Box::new(b.clone()), datafusion::logical_expr::Operator::RegexIMatch, Box::new(lit("^a")))),
        Expr::BinaryExpr(datafusion::logical_expr::BinaryExpr::new(Box::new(a.clone()), datafusion::logical_expr::Operator::BitwiseShiftLeft, Box::new(lit(2i64)))),
        sum(a.clone()), count(lit(1i64)), max(b.clone()),
    ];
    for built in [
        sum(a.clone()).distinct().build(),
        sum(a.clone()).filter(b.clone().is_not_null()).build(),
        count(a.clone()).distinct().filter(a.clone().gt(lit(0i64))).build(),
        datafusion::functions_aggregate::expr_fn::first_value(a.clone(), vec![b.clone().sort(false, true)]).null_treatment(datafusion::logical_expr::expr::NullTreatment::IgnoreNulls).build(),
        datafusion::functions_aggregate::expr_fn::array_agg(a.clone()).order_by(vec![b.clone().sort(true, false), a.clone().sort(false, false)]).build(),
        row_number().partition_by(vec![a.clone()]).order_by(vec![b.clone().sort(true, true)]).build(),
        row_number().order_by(vec![b.clone().sort(false, false)]).window_frame(frame.clone()).build(),
        lag(a.clone(), Some(2), Some(ScalarValue::Int64(Some(7)))).partition_by(vec![b.clone()]).order_by(vec![a.clone().sort(true, false)]).build(),
        sum(a.clone()).partition_by(vec![b.clone()]).order_by(vec![a.clone().sort(true, true)]).window_frame(rframe.clone()).build(),
        max(a.clone()).order_by(vec![a.clone().sort(false, true)]).window_frame(gframe.clone()).build(),
        count(a.clone()).distinct().partition_by(vec![b.clone()]).window_frame(WindowFrame::new(None)).build(),
    ] {
        if let Ok(e) = built {
            v.push(e);
        }
    }
    v
}

pub fn main() {
    let ctx = SessionContext::new();
    let codec = DefaultLogicalExtensionCodec {};
    let mut res = Vec::new();
    let (mut n, mut enc_err, mut bad) = (0, 0, 0);
    let mut all: Vec<(String, Expr)> = scalars().into_iter().map(|s| ("scalar".to_string(), Expr::Literal(s, None))).collect();
    all.extend(exprs().into_iter().map(|e| ("expr".to_string(), e)));
    for (kind, e) in all {
        n += 1;
        let p = match serialize_expr(&e, &codec) {
            Ok(p) => p,
            Err(x) => {
                enc_err += 1;
                res.push(json!({"kind": kind, "expr": format!("{e:?}"), "enc_err": x.to_string()}));
                continue;
            }
        };
        // also through bytes
        let bytes = prost_bytes(&p);
        let p2 = match prost_decode(&bytes) {
            Ok(p2) => p2,
            Err(x) => {
                bad += 1;
                res.push(json!({"kind": kind, "expr": format!("{e:?}"), "dec_err": x}));
                continue;
            }
        };
        match parse_expr(&p2, &ctx.task_ctx(), &codec) {
            Ok(d) => {
                let same = d == e;
                let same_type = match (&d, &e) {
                    (Expr::Literal(x, _), Expr::Literal(y, _)) => x.data_type() == y.data_type(),
                    _ => true,
                };
                if !(same && same_type) {
                    bad += 1;
                }
                res.push(json!({"kind": kind, "expr": format!("{e:?}"), "equal": same && same_type, "decoded": if same && same_type { None } else { Some(format!("{d:?}")) }}));
            }
            Err(x) => {
                bad += 1;
                res.push(json!({"kind": kind, "expr": format!("{e:?}"), "dec_err": x.to_string()}));
            }
        }
    }
    write_ndjson(&arg("--out").expect("--out"), &res);
    summary(json!({"cases": n, "enc_err": enc_err, "bad": bad}));
}

fn prost_bytes(p: &datafusion_proto::protobuf::LogicalExprNode) -> Vec<u8> {
    use datafusion_proto::protobuf::LogicalExprNode;
    let _: &LogicalExprNode = p;
    prost::Message::encode_to_vec(p)
}

fn prost_decode(b: &[u8]) -> Result<datafusion_proto::protobuf::LogicalExprNode, String> {
    <datafusion_proto::protobuf::LogicalExprNode as prost::Message>::decode(b).map_err(|e| e.to_string())
}
