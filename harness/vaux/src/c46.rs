//! C46 — drivers for the real `SqlBenchmark` persist / verify and placeholder resolution.
use std::collections::HashMap;
use std::path::{Path, PathBuf};

use datafusion::prelude::SessionContext;
use datafusion_benchmarks::sql_benchmark::{QueryDirective, SqlBenchmark};
use serde_json::{Value, json};
use vcommon::util::{arg, read_ndjson, summary, write_ndjson};

fn sql_lit(v: &Value) -> String {
    match v {
        Value::Null => "CAST(NULL AS VARCHAR)".to_string(),
        Value::String(s) => format!("'{}'", s.replace('\'', "''")),
        Value::Number(n) => n.to_string(),
        _ => panic!("cell {v}"),
    }
}

/// `load` section creating table t(ord, c1..cn) holding the grid
fn load_sql(ncols: usize, kinds: &[&str], rows: &[Value]) -> String {
    let names: Vec<String> = (1..=ncols).map(|j| format!("c{j}")).collect();
    if rows.is_empty() {
        let cols: Vec<String> = names.iter().zip(kinds).map(|(n, k)| format!("{n} {}", if *k == "i" { "BIGINT" } else if *k == "f" { "DOUBLE" } else { "VARCHAR" })).collect();
        return format!("CREATE TABLE t (ord BIGINT, {});", cols.join(", "));
    }
    let mut vals = Vec::new();
    for (i, r) in rows.iter().enumerate() {
        let cells: Vec<String> = r.as_array().unwrap().iter().zip(kinds).map(|(c, k)| {
            if c.is_null() && *k == "i" {
                "CAST(NULL AS BIGINT)".to_string()
            } else if *k == "f" {
                if c.is_null() { "CAST(NULL AS DOUBLE)".to_string() } else { format!("CAST({} AS DOUBLE)", c) }
            } else {
                sql_lit(c)
            }
        }).collect();
        vals.push(format!("({i}, {})", cells.join(", ")));
    }
    format!("CREATE TABLE t AS SELECT * FROM (VALUES {}) AS v(ord, {});", vals.join(", "), names.join(", "))
}

fn bench_text(ncols: usize, kinds: &[&str], rows: &[Value], result_path: &Path) -> String {
    let names: Vec<String> = (1..=ncols).map(|j| format!("c{j}")).collect();
    format!("name q\n\nload\n{}\n\nrun\nSELECT {} FROM t ORDER BY ord\n\nresult {}\n", load_sql(ncols, kinds, rows), names.join(", "), result_path.display())
}

fn read_all(path: &Path) -> String {
    if path.is_file() {
        return std::fs::read_to_string(path).unwrap_or_default();
    }
    let mut s = String::new();
    if let Ok(rd) = std::fs::read_dir(path) {
        let mut es: Vec<PathBuf> = rd.filter_map(|e| e.ok()).map(|e| e.path()).collect();
        es.sort();
        for e in es {
            s.push_str(&read_all(&e));
        }
    }
    s
}

async fn verify_case(c: &Value, root: &Path) -> Value {
    let id = c["id"].as_u64().unwrap();
    let dir = root.join(format!("v{id}"));
    let _ = std::fs::remove_dir_all(&dir);
    std::fs::create_dir_all(dir.join("grp")).unwrap();
    let kinds: Vec<&str> = c["kinds"].as_array().unwrap().iter().map(|v| v.as_str().unwrap()).collect();
    let prow = c["persist_rows"].as_array().unwrap();
    let result_path = dir.join("res.csv");
    let pfile = dir.join("grp").join("p.benchmark");
    std::fs::write(&pfile, bench_text(kinds.len(), &kinds, prow, &result_path)).unwrap();
    // 1. persist
    let ctx = SessionContext::new();
    let mut bm = match SqlBenchmark::new(&ctx, &pfile, &dir).await {
        Ok(b) => b,
        Err(e) => return json!({"stage": "parse-persist", "err": e.to_string()}),
    };
    if let Err(e) = bm.initialize(&ctx).await {
        return json!({"stage": "init-persist", "err": e.to_string()});
    }
    if let Err(e) = bm.persist(&ctx).await {
        return json!({"stage": "persist", "err": e.to_string()});
    }
    let persisted = read_all(&result_path);
    // 2. verify each candidate result with a fresh benchmark object and context
    //    (as `--result-mode validate` does: initialize, run(save), verify)
    let mut verdicts = Vec::new();
    for (n, v) in c["verifies"].as_array().unwrap().iter().enumerate() {
        let vkinds: Vec<&str> = v["kinds"].as_array().unwrap().iter().map(|v| v.as_str().unwrap()).collect();
        let vrow = v["rows"].as_array().unwrap();
        let vfile = dir.join("grp").join(format!("v{n}.benchmark"));
        std::fs::write(&vfile, bench_text(vkinds.len(), &vkinds, vrow, &result_path)).unwrap();
        let ctx2 = SessionContext::new();
        let mut bm2 = match SqlBenchmark::new(&ctx2, &vfile, &dir).await {
            Ok(b) => b,
            Err(e) => { verdicts.push(json!({"stage": "parse-verify", "err": e.to_string()})); continue; }
        };
        if let Err(e) = bm2.initialize(&ctx2).await {
            verdicts.push(json!({"stage": "init-verify", "err": e.to_string()}));
            continue;
        }
        if let Err(e) = bm2.run(&ctx2, true).await {
            verdicts.push(json!({"stage": "run-verify", "err": e.to_string()}));
            continue;
        }
        match bm2.verify(&ctx2).await {
            Ok(()) => verdicts.push(json!({"stage": "done", "verdict": "accept"})),
            Err(e) => verdicts.push(json!({"stage": "done", "verdict": "reject", "msg": e.to_string()})),
        }
    }
    json!({"stage": "done", "persisted": persisted, "verdicts": verdicts})
}

async fn resolve_case(c: &Value, root: &Path) -> Value {
    let id = c["id"].as_u64().unwrap();
    let dir = root.join(format!("r{id}"));
    let _ = std::fs::remove_dir_all(&dir);
    std::fs::create_dir_all(dir.join("grp")).unwrap();
    let file = dir.join("grp").join("r.benchmark");
    let template = c["template"].as_str().unwrap();
    std::fs::write(&file, format!("name {template}\n\nrun\nSELECT 'X{template}Y' AS v\n")).unwrap();
    let mut map = HashMap::new();
    for (k, v) in c["explicit"].as_object().unwrap() {
        map.insert(k.clone(), v.as_str().unwrap().to_string());
    }
    let envs = c["env"].as_object().unwrap();
    for k in c["env_keys"].as_array().unwrap() {
        // SAFETY: single-threaded (current-thread runtime, no other threads started)
        unsafe { std::env::remove_var(k.as_str().unwrap()) };
    }
    for (k, v) in envs {
        unsafe { std::env::set_var(k, v.as_str().unwrap()) };
    }
    let ctx = SessionContext::new();
    let r = SqlBenchmark::new_with_replacements(&ctx, &file, &dir, map).await;
    for (k, _) in envs {
        unsafe { std::env::remove_var(k) };
    }
    match r {
        Ok(bm) => {
            let q = bm.queries().get(&QueryDirective::Run).and_then(|v| v.first().cloned());
            json!({"ok": true, "name": bm.name(), "query": q})
        }
        Err(e) => json!({"ok": false, "err": e.to_string()}),
    }
}

pub fn main() {
    let cases = read_ndjson(&arg("--in").expect("--in"));
    let root = PathBuf::from(arg("--dir").expect("--dir"));
    std::fs::create_dir_all(&root).unwrap();
    let rt = tokio::runtime::Builder::new_current_thread().enable_all().build().unwrap();
    let mut out = Vec::with_capacity(cases.len());
    for c in &cases {
        let r = match c["op"].as_str().unwrap() {
            "verify" => rt.block_on(verify_case(c, &root)),
            "resolve" => rt.block_on(resolve_case(c, &root)),
            o => panic!("op {o}"),
        };
        out.push(r);
    }
    write_ndjson(&arg("--out").expect("--out"), &out);
    summary(json!({"cases": cases.len()}));
}
