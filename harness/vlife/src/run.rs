//! Generic item runner for C18/C19/C20: builds a session (memory pool, disk manager, config), registers the
//! item's tables as fault-injecting providers, plans the SQL, executes it (collect / manual polling / drop
//! after k batches / endless source with cancellation), and reports what happened plus what is still held
//! afterwards (pool bytes, disk usage, temp files, live tasks, source streams).

use crate::infra::*;
use arrow::array::RecordBatch;
use datafusion::execution::context::SessionContext;
use datafusion::physical_plan::{ExecutionPlan, ExecutionPlanProperties, displayable};
use datafusion::prelude::SessionConfig;
use datafusion_common::DataFusionError;
use datafusion_execution::disk_manager::{DiskManagerBuilder, DiskManagerMode};
use datafusion_execution::memory_pool::{FairSpillPool, GreedyMemoryPool, MemoryPool, UnboundedMemoryPool};
use datafusion_execution::runtime_env::RuntimeEnvBuilder;
use futures::StreamExt;
use serde_json::{Value, json};
use std::collections::HashMap;
use std::hash::{Hash, Hasher};
use std::sync::Arc;
use std::sync::atomic::Ordering as AO;
use std::time::{Duration, Instant};
use vcommon::sqlexec::{self, ExecOpts};

pub type Datasets = HashMap<String, Value>;

fn u(v: &Value, k: &str, d: u64) -> u64 {
    v.get(k).and_then(|x| x.as_u64()).unwrap_or(d)
}
fn s<'a>(v: &'a Value, k: &str, d: &'a str) -> &'a str {
    v.get(k).and_then(|x| x.as_str()).unwrap_or(d)
}

fn plan_ops(plan: &Arc<dyn ExecutionPlan>, out: &mut Vec<String>) {
    let mut name = plan.name().to_string();
    // distinguish variants that matter for coverage
    let line = displayable(plan.as_ref()).one_line().to_string();
    if name == "AggregateExec" {
        for m in ["Partial", "FinalPartitioned", "Final", "SinglePartitioned", "Single"] {
            if line.contains(&format!("mode={m}")) {
                name = format!("AggregateExec:{m}");
                break;
            }
        }
    } else if name == "RepartitionExec" {
        let k = if line.contains("Hash(") { "Hash" } else if line.contains("RoundRobin") { "RoundRobin" } else { "Other" };
        name = format!("RepartitionExec:{k}{}", if line.contains("preserve_order=true") { ":preserve" } else { "" });
    } else if name == "HashJoinExec" {
        let k = if line.contains("mode=CollectLeft") { "CollectLeft" } else if line.contains("mode=Partitioned") { "Partitioned" } else { "Auto" };
        name = format!("HashJoinExec:{k}");
    } else if name == "NestedLoopJoinExec" || name == "SortMergeJoinExec" {
        if let Some(i) = line.find("join_type=") {
            let jt: String = line[i + 10..].chars().take_while(|c| c.is_alphanumeric()).collect();
            name = format!("{name}:{jt}");
        }
    } else if name == "SortExec" {
        if line.contains("TopK") {
            name = "SortExec:TopK".into();
        }
    }
    out.push(name);
    for c in plan.children() {
        plan_ops(c, out);
    }
}

fn may_stop_early(plan: &Arc<dyn ExecutionPlan>) -> bool {
    let n = plan.name();
    if plan.fetch().is_some() || n.contains("Limit") || n.contains("Join") || n == "EmptyExec" || n == "PlaceholderRowExec" {
        return true;
    }
    plan.children().iter().any(|c| may_stop_early(c))
}

fn hash_str(x: &str) -> u64 {
    let mut h = std::collections::hash_map::DefaultHasher::new();
    x.hash(&mut h);
    h.finish()
}

struct Collected {
    batches: Vec<RecordBatch>,
}

impl Collected {
    fn report(&self, out: &mut Value, max_rows: usize) {
        let rows = sqlexec::batches_to_rows(&self.batches);
        let strs: Vec<String> = rows.iter().map(|r| r.to_string()).collect();
        let mut bag: u64 = 0;
        let mut seq: u64 = 0;
        for (i, x) in strs.iter().enumerate() {
            let h = hash_str(x);
            bag = bag.wrapping_add(h.wrapping_mul(0x9E3779B97F4A7C15) ^ (h >> 7));
            seq = seq.rotate_left(5) ^ h.wrapping_add(i as u64);
        }
        out["n_rows"] = json!(rows.len());
        out["bag_hash"] = json!(format!("{bag:016x}"));
        out["seq_hash"] = json!(format!("{seq:016x}"));
        if rows.len() <= max_rows {
            out["rows"] = Value::Array(rows);
        }
    }
}

pub fn run_item(item: &Value, datasets: &Datasets) -> Value {
    let mut out = json!({"id": item["id"].clone()});
    let exec = item.get("exec").cloned().unwrap_or(json!({}));
    let rt_kind = s(&exec, "rt", "multi").to_string();
    let rt = if rt_kind == "current" {
        tokio::runtime::Builder::new_current_thread().enable_all().build().unwrap()
    } else {
        tokio::runtime::Builder::new_multi_thread().worker_threads(u(&exec, "workers", 2) as usize).enable_all().build().unwrap()
    };
    let r = rt.block_on(run_async(item, datasets, &exec, &mut out));
    if let Err(e) = r {
        out["tool_error"] = json!(e);
    }
    rt.shutdown_timeout(Duration::from_millis(200));
    set_current(None);
    out
}

async fn run_async(item: &Value, datasets: &Datasets, exec: &Value, out: &mut Value) -> Result<(), String> {
    // ---- control block
    let mut ctl = Ctl::default();
    if let Some(f) = item.get("fault").filter(|f| !f.is_null()) {
        ctl.fault = FaultSpec { kind: s(f, "kind", "none").into(), table: s(f, "table", "").into(), part: u(f, "part", 0) as usize, k: u(f, "k", 0) };
    }
    ctl.pending_every = u(exec, "pending_every", 0);
    ctl.endless_cap.store(u(exec, "endless_cap", 200_000), AO::Relaxed);
    let ctl = Arc::new(ctl);
    set_current(Some(Arc::clone(&ctl)));

    // ---- runtime env
    let tmp = tempfile::Builder::new().prefix("vlife-").tempdir().map_err(|e| e.to_string())?;
    let mem = item.get("mem").cloned().unwrap_or(Value::Null);
    let mut dmb = DiskManagerBuilder::default().with_mode(DiskManagerMode::Directories(vec![tmp.path().to_path_buf()]));
    if let Some(l) = mem.get("disk_limit").and_then(|x| x.as_u64()) {
        dmb = dmb.with_max_temp_directory_size(l);
    }
    if let Some(l) = mem.get("fan_in").and_then(|x| x.as_u64()) {
        dmb = dmb.with_max_spill_merge_fan_in(l as usize);
    }
    let limit = u(&mem, "limit", 0) as usize;
    let inner: Arc<dyn MemoryPool> = match s(&mem, "pool", "unbounded") {
        "greedy" => Arc::new(GreedyMemoryPool::new(limit)),
        "fair" => Arc::new(FairSpillPool::new(limit)),
        _ => Arc::new(UnboundedMemoryPool::default()),
    };
    let pool: Arc<dyn MemoryPool> = Arc::new(FaultPool { inner, ctl: Arc::clone(&ctl) });
    let env = RuntimeEnvBuilder::new().with_disk_manager_builder(dmb).with_memory_pool(Arc::clone(&pool)).build_arc().map_err(|e| format!("runtime env: {e}"))?;

    // ---- session
    let mut cfg = SessionConfig::new().with_target_partitions(u(exec, "target_partitions", 1) as usize);
    if let Some(b) = exec.get("batch_size").and_then(|x| x.as_u64()) {
        cfg = cfg.with_batch_size(b as usize);
    }
    if let Some(st) = exec.get("settings").and_then(|x| x.as_array()) {
        for kv in st {
            let (k, v) = (kv[0].as_str().unwrap_or(""), kv[1].as_str().unwrap_or(""));
            cfg.options_mut().set(k, v).map_err(|e| format!("config {k}={v}: {e}"))?;
        }
    }
    let ctx = SessionContext::new_with_config_rt(cfg, Arc::clone(&env));
    ctx.register_udf(FailUdf::udf());

    // ---- tables
    let tables = match item.get("dataset").and_then(|d| d.as_str()) {
        Some(name) => datasets.get(name).ok_or(format!("unknown dataset {name}"))?.clone(),
        None => item["tables"].clone(),
    };
    let token = Arc::new(());
    for t in tables.as_array().ok_or("tables missing")? {
        let opts = ExecOpts {
            partitions: u(t, "partitions", u(exec, "partitions", 1)) as usize,
            batch_rows: u(t, "batch_rows", u(exec, "batch_rows", 0)) as usize,
            settings: vec![],
            utf8view: false,
        };
        let (schema, parts) = sqlexec::table_partitions(t, &opts);
        let name = t["name"].as_str().unwrap().to_string();
        let endless = t.get("endless").and_then(|x| x.as_bool()).unwrap_or(false);
        let declared_bounded = t.get("declared_bounded").and_then(|x| x.as_bool()).unwrap_or(false);
        let tp = FaultyTable { name: name.clone(), schema, parts: Arc::new(parts), ctl: Arc::clone(&ctl), endless, declared_bounded, token: Arc::clone(&token) };
        ctx.register_table(name.as_str(), Arc::new(tp)).map_err(|e| e.to_string())?;
    }

    // ---- plan
    let sql = item["sql"].as_str().ok_or("sql missing")?;
    let planned = async {
        let df = ctx.sql(sql).await?;
        df.create_physical_plan().await
    }
    .await;
    let plan = match planned {
        Ok(p) => p,
        Err(e) => {
            out["outcome"] = json!("plan_err");
            out["err"] = json!(e.to_string());
            return Ok(());
        }
    };
    let plan = match apply_wraps(plan, item.get("wrap")) {
        Ok(p) => p,
        Err(e) => return Err(format!("wrap: {e}")),
    };
    let mut ops = vec![];
    plan_ops(&plan, &mut ops);
    out["plan_ops"] = json!(ops);
    out["may_stop_early"] = json!(may_stop_early(&plan));
    if item.get("want_plan").and_then(|x| x.as_bool()).unwrap_or(false) {
        out["plan"] = json!(displayable(plan.as_ref()).indent(false).to_string());
    }
    let task_ctx = ctx.task_ctx();
    let plan_holder = Arc::clone(&plan);
    let max_rows = u(item, "max_rows_out", 64) as usize;
    let handle = tokio::runtime::Handle::current();

    // ---- execute
    let t0 = Instant::now();
    let mode = s(exec, "poll", "stream").to_string();
    let drop_at = item.get("drop_at").and_then(|x| x.as_u64());
    let endless = item.get("endless").filter(|x| !x.is_null()).cloned();
    if let Some(pc) = item.get("partial").filter(|x| !x.is_null()) {
        // partial consumers: the output partitions are driven individually (see run_partial)
        run_partial(pc, item, &ctx, &ctl, out).await?;
    } else if let Some(e) = endless {
        run_endless(&e, Arc::clone(&plan), task_ctx, &ctl, out).await;
    } else if mode == "collect" && drop_at.is_none() {
        match datafusion::physical_plan::collect(Arc::clone(&plan), task_ctx).await {
            Ok(batches) => {
                out["outcome"] = json!("ok");
                Collected { batches }.report(out, max_rows);
            }
            Err(e) => err_report(out, &e),
        }
    } else {
        match datafusion::physical_plan::execute_stream(Arc::clone(&plan), task_ctx) {
            Err(e) => err_report(out, &e),
            Ok(mut stream) => {
                let mut batches = vec![];
                let mut nb: u64 = 0;
                let mut terminal = "none";
                loop {
                    if let Some(k) = drop_at {
                        if nb >= k {
                            terminal = "dropped";
                            break;
                        }
                    }
                    match stream.next().await {
                        None => {
                            terminal = "ok";
                            break;
                        }
                        Some(Ok(b)) => {
                            progress();
                            if b.num_rows() > 0 {
                                nb += 1;
                            }
                            batches.push(b);
                        }
                        Some(Err(e)) => {
                            err_report(out, &e);
                            terminal = "err";
                            break;
                        }
                    }
                }
                out["batches_polled"] = json!(batches.len());
                if terminal == "err" {
                    // the stream must end after the error: poll on (bounded) and record what comes
                    // (a panic raised by polling a failed stream again is recorded, it is outside the contract)
                    let post = std::panic::AssertUnwindSafe(async {
                        let (mut extra_ok, mut extra_err, mut ended) = (0u64, 0u64, false);
                        for _ in 0..300 {
                            match stream.next().await {
                                None => {
                                    ended = true;
                                    break;
                                }
                                Some(Ok(_)) => extra_ok += 1,
                                Some(Err(_)) => extra_err += 1,
                            }
                        }
                        (extra_ok, extra_err, ended)
                    });
                    match futures::FutureExt::catch_unwind(post).await {
                        Ok((extra_ok, extra_err, ended)) => out["post_err"] = json!({"ended": ended, "extra_ok": extra_ok, "extra_err": extra_err, "panic": false}),
                        Err(_) => out["post_err"] = json!({"ended": false, "extra_ok": 0, "extra_err": 0, "panic": true}),
                    }
                } else if terminal == "ok" {
                    out["outcome"] = json!("ok");
                    Collected { batches }.report(out, max_rows);
                } else {
                    out["outcome"] = json!("dropped");
                    out["rows_before_drop"] = json!(batches.iter().map(|b| b.num_rows()).sum::<usize>());
                }
                drop(stream);
            }
        }
    }
    out["exec_ms"] = json!(t0.elapsed().as_millis() as u64);
    out["fired"] = json!(ctl.fired.load(AO::SeqCst));

    // ---- what is still held once the stream and the plan are gone
    drop(plan_holder);
    drop(plan);
    let dm = Arc::clone(&env.disk_manager);
    let produced_at_drop = ctl.src_batches.load(AO::SeqCst);
    let tw = Instant::now();
    let mut last_change = Instant::now();
    let mut last = (u64::MAX, i64::MAX, u64::MAX);
    let idle_limit = Duration::from_millis(u(item, "release_idle_ms", 5000));
    loop {
        let alive = handle.metrics().num_alive_tasks() as u64;
        let open = ctl.src_streams_open.load(AO::SeqCst);
        let polls = ctl.src_polls.load(AO::SeqCst);
        if alive == 0 && open == 0 {
            break;
        }
        if (alive, open, polls) != last {
            last = (alive, open, polls);
            last_change = Instant::now();
        } else if last_change.elapsed() > idle_limit {
            break; // nothing moves any more: whatever is still alive is leaked
        }
        if tw.elapsed() > Duration::from_secs(120) {
            break;
        }
        tokio::time::sleep(Duration::from_millis(1)).await;
    }
    // production must have stopped: sample the counter twice across a few scheduler turns
    let p1 = ctl.src_batches.load(AO::SeqCst);
    for _ in 0..20 {
        tokio::task::yield_now().await;
    }
    tokio::time::sleep(Duration::from_millis(2)).await;
    let p2 = ctl.src_batches.load(AO::SeqCst);
    let tmp_files = count_files(tmp.path());
    out["after"] = json!({
        "reserved": pool.reserved(),
        "disk": dm.used_disk_space(),
        "tmp_files": tmp_files,
        "alive_tasks": handle.metrics().num_alive_tasks(),
        "src_streams_open": ctl.src_streams_open.load(AO::SeqCst),
        "token_count": Arc::strong_count(&token) - 1 - ctx_tables(&tables),
        "produced_at_drop": produced_at_drop,
        "produced_after_wait": p1,
        "still_producing": p2 != p1,
        "waited_ms": tw.elapsed().as_millis() as u64,
    });
    out["counters"] = json!({
        "src_polls": ctl.src_polls.load(AO::SeqCst), "src_batches": ctl.src_batches.load(AO::SeqCst), "src_rows": ctl.src_rows.load(AO::SeqCst),
        "src_streams": ctl.src_streams_created.load(AO::SeqCst), "udf_rows": ctl.udf_rows.load(AO::SeqCst),
        "try_grows": ctl.try_grows.load(AO::SeqCst), "spill_writes": ctl.spill_writes.load(AO::SeqCst),
    });
    drop(ctx);
    Ok(())
}

/// the registered providers each hold one clone of the token
fn ctx_tables(tables: &Value) -> usize {
    tables.as_array().map(|a| a.len()).unwrap_or(0)
}

fn count_files(p: &std::path::Path) -> usize {
    let mut n = 0;
    if let Ok(rd) = std::fs::read_dir(p) {
        for e in rd.flatten() {
            let path = e.path();
            if path.is_dir() {
                n += count_files(&path);
            } else {
                n += 1;
            }
        }
    }
    n
}

fn err_report(out: &mut Value, e: &DataFusionError) {
    out["outcome"] = json!("err");
    let msg = e.to_string();
    out["err"] = json!(msg.chars().take(600).collect::<String>());
    let root = e.find_root();
    out["err_root_re"] = json!(matches!(root, DataFusionError::ResourcesExhausted(_)));
    out["err_root"] = json!(format!("{root:?}").chars().take(200).collect::<String>());
}

/// Endless source: the query runs as a task on the (current-thread) runtime; the driver regains control
/// only when that task yields.  mode "yield": count how often the driver is scheduled before the source's
/// batch cap ends the input, then abort.  mode "timeout": `tokio::time::timeout` must return Elapsed.
async fn run_endless(e: &Value, plan: Arc<dyn ExecutionPlan>, task_ctx: Arc<datafusion_execution::TaskContext>, ctl: &Arc<Ctl>, out: &mut Value) {
    let mode = s(e, "mode", "yield").to_string();
    if mode == "timeout" {
        let ms = u(e, "timeout_ms", 200);
        let c2 = Arc::clone(ctl);
        // the source turns finite only long after the deadline *and* after many more polls, so a query that
        // completes instead of timing out did not hand control back to the runtime in all that time
        let t0 = Instant::now();
        let guard_ms = ms * 15;
        let watcher = std::thread::spawn(move || {
            loop {
                std::thread::sleep(Duration::from_millis(20));
                if c2.stop_endless.load(AO::Relaxed) {
                    return;
                }
                if t0.elapsed() > Duration::from_millis(guard_ms) {
                    let at = c2.src_polls.load(AO::SeqCst);
                    // many more polls after the guard time
                    let t1 = Instant::now();
                    while c2.src_polls.load(AO::SeqCst) < at + 50_000 && t1.elapsed() < Duration::from_secs(60) && !c2.stop_endless.load(AO::Relaxed) {
                        std::thread::sleep(Duration::from_millis(5));
                    }
                    c2.stop_endless.store(true, AO::SeqCst);
                    return;
                }
            }
        });
        let fut = async {
            let mut stream = datafusion::physical_plan::execute_stream(plan, task_ctx)?;
            let mut n = 0u64;
            while let Some(b) = stream.next().await {
                b?;
                n += 1;
            }
            Ok::<u64, DataFusionError>(n)
        };
        let r = tokio::time::timeout(Duration::from_millis(ms), fut).await;
        let finished_by_cap = ctl.stop_endless.load(AO::SeqCst);
        ctl.stop_endless.store(true, AO::SeqCst);
        let _ = watcher.join();
        match r {
            Err(_) => out["outcome"] = json!("elapsed"),
            Ok(Ok(n)) => {
                out["outcome"] = json!(if finished_by_cap { "no_yield" } else { "finished" });
                out["batches_polled"] = json!(n);
            }
            Ok(Err(er)) => err_report(out, &er),
        }
        out["elapsed_ms"] = json!(t0.elapsed().as_millis() as u64);
    } else {
        let want = u(e, "regains", 3);
        let h = tokio::spawn(async move {
            let mut stream = datafusion::physical_plan::execute_stream(plan, task_ctx)?;
            let mut n = 0u64;
            while let Some(b) = stream.next().await {
                b?;
                n += 1;
            }
            Ok::<u64, DataFusionError>(n)
        });
        let mut regains = 0u64;
        let mut polls_at = vec![];
        while regains < want && !h.is_finished() {
            tokio::task::yield_now().await;
            regains += 1;
            polls_at.push(ctl.src_polls.load(AO::SeqCst));
        }
        let finished = h.is_finished();
        h.abort();
        let r = h.await;
        ctl.stop_endless.store(true, AO::SeqCst);
        out["regains"] = json!(regains);
        out["polls_at_regain"] = json!(polls_at);
        match r {
            Err(je) if je.is_cancelled() => out["outcome"] = json!("cancelled"),
            Err(je) => {
                out["outcome"] = json!("panic");
                out["err"] = json!(je.to_string());
            }
            Ok(Ok(n)) => {
                // the task ran through the whole capped input before the driver was scheduled `want` times
                let _ = finished;
                out["outcome"] = json!(if ctl.cap_hit.load(AO::SeqCst) { "no_yield" } else { "finished" });
                out["batches_polled"] = json!(n);
            }
            Ok(Err(er)) => err_report(out, &er),
        }
    }
}


// ------------------------------------------------------------------------------------------ physical wrappers

/// Wrap the planned root in explicitly constructed physical operators (bottom-up list):
/// {"op":"repartition","kind":"rr"|"hash","n":N,"col":"k"} | {"op":"local_limit","fetch":N} | {"op":"coalesce"} | {"op":"spm","col":"id"}
fn apply_wraps(mut plan: Arc<dyn ExecutionPlan>, wraps: Option<&Value>) -> datafusion_common::Result<Arc<dyn ExecutionPlan>> {
    use datafusion::physical_plan::coalesce_partitions::CoalescePartitionsExec;
    use datafusion::physical_plan::limit::LocalLimitExec;
    use datafusion::physical_plan::repartition::RepartitionExec;
    use datafusion::physical_plan::sorts::sort_preserving_merge::SortPreservingMergeExec;
    use datafusion::physical_plan::Partitioning;
    use datafusion_physical_expr::expressions::col;
    use datafusion_physical_expr_common::sort_expr::{LexOrdering, PhysicalSortExpr};
    let Some(ws) = wraps.and_then(|w| w.as_array()) else { return Ok(plan) };
    for w in ws {
        let op = s(w, "op", "");
        plan = match op {
            "repartition" => {
                let n = u(w, "n", 2) as usize;
                let part = if s(w, "kind", "rr") == "hash" {
                    Partitioning::Hash(vec![col(s(w, "col", "k"), &plan.schema())?], n)
                } else {
                    Partitioning::RoundRobinBatch(n)
                };
                Arc::new(RepartitionExec::try_new(plan, part)?)
            }
            "interleave" => {
                // two hash repartitions (same keys, same count) of the same stateless subtree, interleaved partition-wise
                use datafusion::physical_plan::union::InterleaveExec;
                let n = u(w, "n", 2) as usize;
                let mk = |p: &Arc<dyn ExecutionPlan>| -> datafusion_common::Result<Arc<dyn ExecutionPlan>> {
                    Ok(Arc::new(RepartitionExec::try_new(Arc::clone(p), Partitioning::Hash(vec![col(s(w, "col", "k"), &p.schema())?], n))?))
                };
                Arc::new(InterleaveExec::try_new(vec![mk(&plan)?, mk(&plan)?])?)
            }
            "local_limit" => Arc::new(LocalLimitExec::new(plan, u(w, "fetch", 1) as usize)),
            "coalesce" => Arc::new(CoalescePartitionsExec::new(plan)),
            "spm" => {
                let e = PhysicalSortExpr::new(col(s(w, "col", "id"), &plan.schema())?, Default::default());
                Arc::new(SortPreservingMergeExec::new(LexOrdering::new(vec![e]).expect("ordering"), plan))
            }
            o => return Err(DataFusionError::Internal(format!("unknown wrap {o}"))),
        };
    }
    Ok(plan)
}

// ------------------------------------------------------------------------------------------ partial consumers

fn bag_of(batches: &[RecordBatch]) -> (usize, String) {
    let rows = sqlexec::batches_to_rows(batches);
    let mut bag: u64 = 0;
    for r in &rows {
        let h = hash_str(&r.to_string());
        bag = bag.wrapping_add(h.wrapping_mul(0x9E3779B97F4A7C15) ^ (h >> 7));
    }
    (rows.len(), format!("{bag:016x}"))
}

/// One repetition: execute every output partition of a freshly planned query separately, poll partition p up to
/// polls[p] batches while the faulty source is parked right before its fault, drop the partitions in `drop`
/// (before the gate opens, or after the fault fired), then drain the survivors concurrently.
async fn partial_rep(pc: &Value, item: &Value, ctx: &SessionContext, ctl: &Arc<Ctl>, reference: bool) -> Result<Value, String> {
    use futures::FutureExt;
    ctl.fired.store(false, AO::SeqCst);
    ctl.fault_disabled.store(reference, AO::SeqCst);
    ctl.gate_open.store(false, AO::SeqCst);
    ctl.gate_wakers.lock().clear();
    ctl.gate_on.store(!reference, AO::SeqCst);
    let sql = item["sql"].as_str().ok_or("sql missing")?;
    let plan = async {
        let df = ctx.sql(sql).await?;
        df.create_physical_plan().await
    }
    .await
    .map_err(|e| format!("plan: {e}"))?;
    let plan = apply_wraps(plan, item.get("wrap")).map_err(|e| format!("wrap: {e}"))?;
    let n = plan.output_partitioning().partition_count();
    let task_ctx = ctx.task_ctx();
    let mut streams: Vec<Option<datafusion_execution::SendableRecordBatchStream>> = vec![];
    for p in 0..n {
        streams.push(Some(plan.execute(p, Arc::clone(&task_ctx)).map_err(|e| format!("execute({p}): {e}"))?));
    }
    let mut got: Vec<Vec<RecordBatch>> = vec![vec![]; n];
    let mut end: Vec<&str> = vec!["live"; n];
    let polls: Vec<u64> = (0..n).map(|p| pc["polls"].get(p % pc["polls"].as_array().map(|a| a.len()).unwrap_or(1).max(1)).and_then(|x| x.as_u64()).unwrap_or(0)).collect();
    let drops: Vec<usize> = if reference { vec![] } else { pc["drop"].as_array().map(|a| a.iter().filter_map(|x| x.as_u64()).map(|x| x as usize).filter(|x| *x < n).collect()).unwrap_or_default() };
    let when_after = s(pc, "when", "before") == "after";
    let mut before: Vec<usize> = vec![0; n];

    // one non-blocking poll of every live partition that still wants batches; returns whether anything arrived
    macro_rules! poll_round {
        ($want:expr) => {{
            let mut any = false;
            for p in 0..n {
                if end[p] != "live" || !$want(p, got[p].len() as u64) {
                    continue;
                }
                if let Some(st) = streams[p].as_mut() {
                    match st.next().now_or_never() {
                        Some(Some(Ok(b))) => {
                            progress();
                            any = true;
                            if b.num_rows() > 0 {
                                got[p].push(b);
                            }
                        }
                        Some(Some(Err(_))) => {
                            any = true;
                            end[p] = "err";
                        }
                        Some(None) => {
                            any = true;
                            end[p] = "eos";
                        }
                        None => {}
                    }
                }
            }
            any
        }};
    }
    if !reference {
        // phase 1: poll up to polls[p] batches per partition (the faulty source is parked at the gate)
        let mut idle = 0;
        while idle < 40 {
            let any = poll_round!(|p: usize, have: u64| have < polls[p]);
            if (0..n).all(|p| end[p] != "live" || got[p].len() as u64 >= polls[p]) {
                break;
            }
            idle = if any { 0 } else { idle + 1 };
            tokio::task::yield_now().await;
            tokio::time::sleep(Duration::from_micros(200)).await;
        }
        for p in 0..n {
            before[p] = got[p].len();
        }
        if when_after {
            // let the fault fire first (survivors and victims keep being polled so that back-pressure cannot block the input)
            ctl.open_gate();
            let mut rounds = 0;
            while !ctl.fired.load(AO::SeqCst) && rounds < 4000 {
                poll_round!(|_p: usize, _h: u64| true);
                rounds += 1;
                tokio::task::yield_now().await;
                tokio::time::sleep(Duration::from_micros(200)).await;
            }
        }
        for p in &drops {
            if end[*p] == "live" {
                end[*p] = "dropped";
            }
            streams[*p] = None; // drop the output partition stream
        }
        if !when_after {
            // give the runtime a few turns so that the drop is visible to the exchange, then let the fault fire
            for _ in 0..5 {
                tokio::task::yield_now().await;
            }
            ctl.open_gate();
        }
    }
    // drain the survivors concurrently
    let mut futs = vec![];
    for p in 0..n {
        if end[p] != "live" {
            continue;
        }
        let mut st = streams[p].take().unwrap();
        futs.push(async move {
            let mut bs = vec![];
            let r = std::panic::AssertUnwindSafe(async {
                loop {
                    match st.next().await {
                        None => return "eos",
                        Some(Ok(b)) => {
                            progress();
                            bs.push(b)
                        }
                        Some(Err(_)) => return "err",
                    }
                }
            })
            .catch_unwind()
            .await
            .unwrap_or("panic");
            drop(st);
            (p, r, bs)
        });
    }
    for (p, r, bs) in futures::future::join_all(futs).await {
        end[p] = r;
        got[p].extend(bs);
    }
    drop(streams);
    drop(plan);
    let parts: Vec<Value> = (0..n)
        .map(|p| {
            let (nr, bag) = bag_of(&got[p]);
            json!({"end": end[p], "rows": nr, "bag": bag, "polled_before": before[p]})
        })
        .collect();
    Ok(json!({"fired": ctl.fired.load(AO::SeqCst), "parts": parts}))
}

async fn run_partial(pc: &Value, item: &Value, ctx: &SessionContext, ctl: &Arc<Ctl>, out: &mut Value) -> Result<(), String> {
    let reference = partial_rep(pc, item, ctx, ctl, true).await?;
    let reps = u(pc, "reps", 20);
    let mut rs = vec![];
    for _ in 0..reps {
        rs.push(partial_rep(pc, item, ctx, ctl, false).await?);
    }
    out["outcome"] = json!("partial");
    out["reference"] = reference;
    out["reps"] = Value::Array(rs);
    Ok(())
}
