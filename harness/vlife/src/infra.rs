//! Fault-injecting building blocks shared by C18/C19/C20:
//!  * `Ctl`        — per-case control block (fault description, counters, progress),
//!  * `FaultyTable` / `FaultySource` — TableProvider / ExecutionPlan over in-memory partitions that fails
//!    (error or panic) at batch k of partition p, counts production, can be endless,
//!  * `vf(x)`      — identity ScalarUDF over BIGINT that fails at (cumulative) row k,
//!  * `FaultPool`  — MemoryPool wrapper that denies the k-th `try_grow`,
//!  * the cfg hook `dm_write_fault` (FileSpillWriter::write) failing the k-th spill write.

use arrow::array::{ArrayRef, RecordBatch};
use arrow::datatypes::{DataType, SchemaRef};
use async_trait::async_trait;
use datafusion::catalog::{Session, TableProvider};
use datafusion::datasource::TableType;
use datafusion::logical_expr::{ColumnarValue, Expr, ScalarFunctionArgs, ScalarUDF, ScalarUDFImpl, Signature, Volatility};
use datafusion_common::tree_node::TreeNodeRecursion;
use datafusion_common::{DataFusionError, Result};
use datafusion_execution::memory_pool::{MemoryConsumer, MemoryLimit, MemoryPool, MemoryReservation};
use datafusion_execution::{RecordBatchStream, SendableRecordBatchStream, TaskContext};
use datafusion_physical_expr::{EquivalenceProperties, PhysicalExpr};
use datafusion_physical_plan::execution_plan::{Boundedness, EmissionType};
use datafusion_physical_plan::{
    ChildrenPropertiesMode, DisplayAs, DisplayFormatType, ExecutionPlan, Partitioning, PlanProperties, ReplaceChildrenOptions,
};
use futures::Stream;
use std::pin::Pin;
use std::sync::Arc;
use std::sync::atomic::{AtomicBool, AtomicI64, AtomicU64, Ordering as AO};
use std::task::{Context, Poll};

/// Global progress counter read by the watchdog (source polls, udf calls, pool calls, spill writes, root batches).
pub static PROGRESS: AtomicU64 = AtomicU64::new(0);
pub fn progress() {
    PROGRESS.fetch_add(1, AO::Relaxed);
}

#[derive(Debug, Clone, Default)]
pub struct FaultSpec {
    /// "none" | "src_err" | "src_panic" | "udf" | "deny" | "spillw"
    pub kind: String,
    pub table: String,
    pub part: usize,
    pub k: u64,
}

#[derive(Debug, Default)]
pub struct Ctl {
    pub fault: FaultSpec,
    pub fired: AtomicBool,
    pub src_polls: AtomicU64,
    pub src_batches: AtomicU64,
    pub src_rows: AtomicU64,
    pub src_streams_open: AtomicI64,
    pub src_streams_created: AtomicU64,
    pub udf_rows: AtomicU64,
    pub udf_calls: AtomicU64,
    pub try_grows: AtomicU64,
    pub spill_writes: AtomicU64,
    /// endless sources: stop producing (end of stream) once set
    pub stop_endless: AtomicBool,
    /// endless sources: hard cap of batches per stream (progress-based bound)
    pub endless_cap: AtomicU64,
    pub cap_hit: AtomicBool,
    /// partial-consumer driver: faults switched off (reference repetition)
    pub fault_disabled: AtomicBool,
    /// partial-consumer driver: the faulty stream parks right before its fault position until the gate opens
    pub gate_on: AtomicBool,
    pub gate_open: AtomicBool,
    pub gate_wakers: parking_lot::Mutex<Vec<std::task::Waker>>,
    /// pending-fuzz: every n-th poll returns Pending after waking itself (0 = off)
    pub pending_every: u64,
}

static CURRENT: parking_lot::RwLock<Option<Arc<Ctl>>> = parking_lot::RwLock::new(None);

impl Ctl {
    pub fn open_gate(&self) {
        let mut w = self.gate_wakers.lock();
        self.gate_open.store(true, AO::SeqCst);
        for x in w.drain(..) {
            x.wake();
        }
    }
}

pub fn set_current(c: Option<Arc<Ctl>>) {
    *CURRENT.write() = c;
}
pub fn current() -> Option<Arc<Ctl>> {
    CURRENT.read().clone()
}

/// Install the process-wide verif hook once: counts spill writes and fails the k-th when asked.
pub fn install_hook() {
    datafusion_common::verif::set_hook(Some(Arc::new(|site: &'static str, _args: &[i64]| -> i64 {
        if site == "dm_write_fault" {
            progress();
            if let Some(c) = current() {
                let n = c.spill_writes.fetch_add(1, AO::SeqCst);
                if c.fault.kind == "spillw" && n == c.fault.k {
                    c.fired.store(true, AO::SeqCst);
                    return 1;
                }
            }
        }
        0
    })));
}

// ------------------------------------------------------------------------------------------ source

#[derive(Debug)]
pub struct FaultySource {
    pub table: String,
    pub parts: Arc<Vec<Vec<RecordBatch>>>,
    pub projection: Option<Vec<usize>>,
    pub schema: SchemaRef,
    pub props: Arc<PlanProperties>,
    pub ctl: Arc<Ctl>,
    pub endless: bool,
    /// a token whose strong count tells how many streams/plans are still alive
    pub token: Arc<()>,
}

impl FaultySource {
    #[allow(clippy::too_many_arguments)]
    pub fn new(table: &str, full_schema: &SchemaRef, parts: Arc<Vec<Vec<RecordBatch>>>, projection: Option<Vec<usize>>, ctl: Arc<Ctl>, endless: bool, declared_bounded: bool, token: Arc<()>) -> Result<Self> {
        let schema = datafusion_common::project_schema(full_schema, projection.as_ref())?;
        let bounded = if endless && !declared_bounded { Boundedness::Unbounded { requires_infinite_memory: false } } else { Boundedness::Bounded };
        let props = PlanProperties::new(
            EquivalenceProperties::new(Arc::clone(&schema)),
            Partitioning::UnknownPartitioning(parts.len().max(1)),
            EmissionType::Incremental,
            bounded,
        );
        Ok(FaultySource { table: table.to_string(), parts, projection, schema, props: Arc::new(props), ctl, endless, token })
    }
}

impl DisplayAs for FaultySource {
    fn fmt_as(&self, _t: DisplayFormatType, f: &mut std::fmt::Formatter) -> std::fmt::Result {
        write!(f, "FaultySource: table={} partitions={}", self.table, self.parts.len())
    }
}

#[allow(deprecated)]
impl ExecutionPlan for FaultySource {
    fn name(&self) -> &'static str {
        "FaultySource"
    }
    fn properties(&self) -> &Arc<PlanProperties> {
        &self.props
    }
    fn children(&self) -> Vec<&Arc<dyn ExecutionPlan>> {
        vec![]
    }
    fn apply_expressions(&self, _f: &mut dyn FnMut(&Arc<dyn PhysicalExpr>) -> Result<TreeNodeRecursion>) -> Result<TreeNodeRecursion> {
        Ok(TreeNodeRecursion::Continue)
    }
    fn replace_children(self: Arc<Self>, _children: Vec<Arc<dyn ExecutionPlan>>, _o: ReplaceChildrenOptions) -> Result<Arc<dyn ExecutionPlan>> {
        Ok(self)
    }
    fn with_new_children(self: Arc<Self>, children: Vec<Arc<dyn ExecutionPlan>>) -> Result<Arc<dyn ExecutionPlan>> {
        self.replace_children(children, ReplaceChildrenOptions::new(ChildrenPropertiesMode::Recompute))
    }
    fn execute(&self, partition: usize, _ctx: Arc<TaskContext>) -> Result<SendableRecordBatchStream> {
        if std::env::var("VLIFE_DEBUG").is_ok() {
            eprintln!("source execute {} partition {partition}", self.table);
        }
        self.ctl.src_streams_open.fetch_add(1, AO::SeqCst);
        self.ctl.src_streams_created.fetch_add(1, AO::SeqCst);
        Ok(Box::pin(FaultyStream {
            table: self.table.clone(),
            part: partition,
            parts: Arc::clone(&self.parts),
            projection: self.projection.clone(),
            schema: Arc::clone(&self.schema),
            pos: 0,
            polls: 0,
            failed: false,
            ctl: Arc::clone(&self.ctl),
            endless: self.endless,
            _token: Arc::clone(&self.token),
        }))
    }
}

pub struct FaultyStream {
    table: String,
    part: usize,
    parts: Arc<Vec<Vec<RecordBatch>>>,
    projection: Option<Vec<usize>>,
    schema: SchemaRef,
    pos: u64,
    polls: u64,
    failed: bool,
    ctl: Arc<Ctl>,
    endless: bool,
    _token: Arc<()>,
}

impl Drop for FaultyStream {
    fn drop(&mut self) {
        self.ctl.src_streams_open.fetch_sub(1, AO::SeqCst);
    }
}

impl Stream for FaultyStream {
    type Item = Result<RecordBatch>;
    fn poll_next(mut self: Pin<&mut Self>, cx: &mut Context<'_>) -> Poll<Option<Self::Item>> {
        progress();
        self.ctl.src_polls.fetch_add(1, AO::Relaxed);
        self.polls += 1;
        if self.ctl.pending_every > 0 && self.polls % self.ctl.pending_every == 0 {
            cx.waker().wake_by_ref();
            return Poll::Pending;
        }
        if self.failed {
            return Poll::Ready(None);
        }
        let mut f = self.ctl.fault.clone();
        if self.ctl.fault_disabled.load(AO::SeqCst) {
            f.kind = "none".into();
        }
        if self.ctl.gate_on.load(AO::SeqCst)
            && !self.ctl.gate_open.load(AO::SeqCst)
            && (f.kind == "src_err" || f.kind == "src_panic")
            && f.table == self.table
            && f.part == self.part
            && f.k == self.pos
        {
            let mut w = self.ctl.gate_wakers.lock();
            if !self.ctl.gate_open.load(AO::SeqCst) {
                w.push(cx.waker().clone());
                return Poll::Pending;
            }
        }
        if f.kind == "src_swallow" && f.table == self.table && f.part == self.part && f.k == self.pos {
            // self-test of the oracle: behave like an operator that turns the input error into end-of-stream
            self.ctl.fired.store(true, AO::SeqCst);
            self.failed = true;
            return Poll::Ready(None);
        }
        if (f.kind == "src_err" || f.kind == "src_panic") && f.table == self.table && f.part == self.part && f.k == self.pos {
            self.ctl.fired.store(true, AO::SeqCst);
            self.failed = true;
            if f.kind == "src_panic" {
                panic!("injected source panic: table {} partition {} batch {}", self.table, self.part, self.pos);
            }
            return Poll::Ready(Some(Err(DataFusionError::Execution(format!(
                "injected source error: table {} partition {} batch {}",
                self.table, self.part, self.pos
            )))));
        }
        let batches = &self.parts[self.part];
        let n = batches.len() as u64;
        let idx = if self.endless {
            if self.pos >= self.ctl.endless_cap.load(AO::Relaxed) {
                self.ctl.cap_hit.store(true, AO::SeqCst);
                return Poll::Ready(None);
            }
            if n == 0 || self.ctl.stop_endless.load(AO::Relaxed) {
                return Poll::Ready(None);
            }
            self.pos % n
        } else {
            if self.pos >= n {
                return Poll::Ready(None);
            }
            self.pos
        };
        let b = &batches[idx as usize];
        let b = match &self.projection {
            Some(p) => b.project(p).map_err(|e| DataFusionError::ArrowError(Box::new(e), None))?,
            None => b.clone(),
        };
        self.pos += 1;
        self.ctl.src_batches.fetch_add(1, AO::Relaxed);
        self.ctl.src_rows.fetch_add(b.num_rows() as u64, AO::Relaxed);
        Poll::Ready(Some(Ok(b)))
    }
}

impl RecordBatchStream for FaultyStream {
    fn schema(&self) -> SchemaRef {
        Arc::clone(&self.schema)
    }
}

// ------------------------------------------------------------------------------------------ table

#[derive(Debug)]
pub struct FaultyTable {
    pub name: String,
    pub schema: SchemaRef,
    pub parts: Arc<Vec<Vec<RecordBatch>>>,
    pub ctl: Arc<Ctl>,
    pub endless: bool,
    /// endless, but declared `Bounded` so that pipeline-breaking operators are planned over it
    pub declared_bounded: bool,
    pub token: Arc<()>,
}

#[async_trait]
impl TableProvider for FaultyTable {
    fn schema(&self) -> SchemaRef {
        Arc::clone(&self.schema)
    }
    fn table_type(&self) -> TableType {
        TableType::Base
    }
    async fn scan(&self, _state: &dyn Session, projection: Option<&[usize]>, _filters: &[Expr], _limit: Option<usize>) -> Result<Arc<dyn ExecutionPlan>> {
        Ok(Arc::new(FaultySource::new(
            &self.name,
            &self.schema,
            Arc::clone(&self.parts),
            projection.map(|p| p.to_vec()),
            Arc::clone(&self.ctl),
            self.endless,
            self.declared_bounded,
            Arc::clone(&self.token),
        )?))
    }
}

// ------------------------------------------------------------------------------------------ udf

#[derive(Debug, PartialEq, Eq, Hash)]
pub struct FailUdf {
    signature: Signature,
}

impl FailUdf {
    pub fn udf() -> ScalarUDF {
        ScalarUDF::new_from_impl(FailUdf { signature: Signature::exact(vec![DataType::Int64], Volatility::Volatile) })
    }
}

impl ScalarUDFImpl for FailUdf {
    fn name(&self) -> &str {
        "vf"
    }
    fn signature(&self) -> &Signature {
        &self.signature
    }
    fn return_type(&self, _arg_types: &[DataType]) -> Result<DataType> {
        Ok(DataType::Int64)
    }
    fn invoke_with_args(&self, args: ScalarFunctionArgs) -> Result<ColumnarValue> {
        progress();
        let n = args.number_rows as u64;
        if let Some(c) = current() {
            c.udf_calls.fetch_add(1, AO::Relaxed);
            let before = c.udf_rows.fetch_add(n, AO::SeqCst);
            if c.fault.kind == "udf" && before <= c.fault.k && c.fault.k < before + n.max(1) {
                c.fired.store(true, AO::SeqCst);
                return Err(DataFusionError::Execution(format!("injected udf error at row {}", c.fault.k)));
            }
        }
        let a: ArrayRef = match &args.args[0] {
            ColumnarValue::Array(a) => Arc::clone(a),
            ColumnarValue::Scalar(s) => s.to_array_of_size(args.number_rows)?,
        };
        Ok(ColumnarValue::Array(a))
    }
}

// ------------------------------------------------------------------------------------------ pool

#[derive(Debug)]
pub struct FaultPool {
    pub inner: Arc<dyn MemoryPool>,
    pub ctl: Arc<Ctl>,
}

impl std::fmt::Display for FaultPool {
    fn fmt(&self, f: &mut std::fmt::Formatter<'_>) -> std::fmt::Result {
        write!(f, "FaultPool({})", self.inner)
    }
}

impl MemoryPool for FaultPool {
    fn name(&self) -> &str {
        "FaultPool"
    }
    fn register(&self, c: &MemoryConsumer) {
        self.inner.register(c)
    }
    fn unregister(&self, c: &MemoryConsumer) {
        self.inner.unregister(c)
    }
    fn grow(&self, r: &MemoryReservation, additional: usize) {
        self.inner.grow(r, additional)
    }
    fn shrink(&self, r: &MemoryReservation, shrink: usize) {
        self.inner.shrink(r, shrink)
    }
    fn try_grow(&self, r: &MemoryReservation, additional: usize) -> Result<()> {
        progress();
        let n = self.ctl.try_grows.fetch_add(1, AO::SeqCst);
        if self.ctl.fault.kind == "deny" && n == self.ctl.fault.k {
            self.ctl.fired.store(true, AO::SeqCst);
            if std::env::var("VLIFE_DEBUG").is_ok() {
                eprintln!("deny try_grow #{n}: {additional} bytes for {}", r.consumer().name());
            }
            return Err(DataFusionError::ResourcesExhausted(format!(
                "injected denial of try_grow #{n} ({additional} bytes for {})",
                r.consumer().name()
            )));
        }
        self.inner.try_grow(r, additional)
    }
    fn reserved(&self) -> usize {
        self.inner.reserved()
    }
    fn memory_limit(&self) -> MemoryLimit {
        self.inner.memory_limit()
    }
}
