//! vlife — lifecycle checks (C18 memory-limited queries, C19 drop/cancellation, C20 fault propagation).
//!
//! `vlife run --in items.ndjson --out results.ndjson [--hang-secs N]`
//! Input lines are either `{"dataset": name, "tables": [...]}` definitions or items (see run.rs).
//! Every item runs on its own thread and tokio runtime under a progress watchdog: if the global progress
//! counter (source polls, udf calls, pool calls, spill writes, root batches) does not move for `hang-secs`
//! while the item is unfinished, the item is reported as `outcome: "hang"`; independently every item has a
//! hard wall-clock cap (`--item-cap-secs`, machinery bound, reported as `outcome: "timeout"`, never a verdict).
//! After a hang/timeout the stuck thread cannot be killed, so the process writes the result and exits with
//! code 3; the driver restarts a fresh process for the remaining items (no item can stall a chunk).
mod infra;
mod run;

use serde_json::{Value, json};
use std::io::Write;
use std::sync::atomic::Ordering as AO;
use std::sync::mpsc;
use std::time::{Duration, Instant};
use vcommon::util;

fn main() {
    let a: Vec<String> = std::env::args().collect();
    if a.len() < 2 || a[1] != "run" {
        eprintln!("usage: vlife run --in FILE --out FILE [--hang-secs N]");
        std::process::exit(2);
    }
    let inp = util::arg("--in").expect("--in");
    let outp = util::arg("--out").expect("--out");
    let hang = Duration::from_secs(util::arg("--hang-secs").and_then(|x| x.parse().ok()).unwrap_or(60));
    let cap = Duration::from_secs(util::arg("--item-cap-secs").and_then(|x| x.parse().ok()).unwrap_or(180));
    // injected panics are data: keep stderr quiet
    if std::env::var("VLIFE_PANIC_TRACE").is_err() {
        std::panic::set_hook(Box::new(|_| {}));
    }
    infra::install_hook();
    let lines = util::read_ndjson(&inp);
    let mut datasets = run::Datasets::new();
    let mut items = vec![];
    for l in lines {
        if let Some(n) = l.get("dataset").and_then(|x| x.as_str()) {
            if l.get("sql").is_none() {
                datasets.insert(n.to_string(), l["tables"].clone());
                continue;
            }
        }
        items.push(l);
    }
    let datasets = std::sync::Arc::new(datasets);
    let mut f = std::io::BufWriter::new(std::fs::File::create(&outp).unwrap());
    let (mut n, mut hangs, mut panics) = (0u64, 0u64, 0u64);
    let t0 = Instant::now();
    for item in items {
        let (tx, rx) = mpsc::channel();
        let ds = std::sync::Arc::clone(&datasets);
        let it = item.clone();
        std::thread::Builder::new()
            .stack_size(32 << 20)
            .spawn(move || {
                let r = std::panic::catch_unwind(std::panic::AssertUnwindSafe(|| run::run_item(&it, &ds)));
                let v = match r {
                    Ok(v) => v,
                    Err(p) => {
                        let msg = p.downcast_ref::<String>().cloned().or_else(|| p.downcast_ref::<&str>().map(|s| s.to_string())).unwrap_or_else(|| "panic".into());
                        let fired = infra::current().map(|c| c.fired.load(AO::SeqCst)).unwrap_or(false);
                        json!({"id": it["id"].clone(), "outcome": "panic", "err": msg.chars().take(400).collect::<String>(), "fired": fired})
                    }
                };
                let _ = tx.send(v);
            })
            .unwrap();
        let mut last = infra::PROGRESS.load(AO::Relaxed);
        let mut last_t = Instant::now();
        let started = Instant::now();
        let res: Value = loop {
            match rx.recv_timeout(Duration::from_millis(200)) {
                Ok(v) => break v,
                Err(mpsc::RecvTimeoutError::Timeout) => {
                    let p = infra::PROGRESS.load(AO::Relaxed);
                    if started.elapsed() > cap {
                        let fired = infra::current().map(|c| c.fired.load(AO::SeqCst)).unwrap_or(false);
                        break json!({"id": item["id"].clone(), "outcome": "timeout", "fired": fired, "ran_s": started.elapsed().as_secs(),
                                     "progress_moving": p != last || last_t.elapsed() < Duration::from_secs(2)});
                    }
                    if p != last {
                        last = p;
                        last_t = Instant::now();
                    } else if last_t.elapsed() > hang {
                        hangs += 1;
                        let fired = infra::current().map(|c| c.fired.load(AO::SeqCst)).unwrap_or(false);
                        break json!({"id": item["id"].clone(), "outcome": "hang", "fired": fired, "idle_s": last_t.elapsed().as_secs()});
                    }
                }
                Err(mpsc::RecvTimeoutError::Disconnected) => break json!({"id": item["id"].clone(), "outcome": "lost"}),
            }
        };
        if res["outcome"] == "panic" {
            panics += 1;
        }
        serde_json::to_writer(&mut f, &res).unwrap();
        f.write_all(b"\n").unwrap();
        f.flush().unwrap();
        n += 1;
        if res["outcome"] == "hang" || res["outcome"] == "timeout" {
            // the abandoned thread may still spin (and move the progress counter): continue in a fresh process
            util::summary(json!({"items": n, "hangs": hangs, "panics": panics, "stopped_after": res["id"].clone(), "wall_s": t0.elapsed().as_secs_f64()}));
            drop(f);
            std::process::exit(3);
        }
    }
    util::summary(json!({"items": n, "hangs": hangs, "panics": panics, "wall_s": t0.elapsed().as_secs_f64()}));
    // abandoned (hung) threads must not keep the process alive
    std::process::exit(0);
}
