//! C06 — grouped aggregation is exact under every strategy.
//! Cases (tables + reference results of every query shape) come from TLC (spec/ops2/GroupAggGen.tla,
//! reference spec/lib/Agg.tla).  Each case is executed through hand-built AggregateExec pipelines
//! (Single, SinglePartitioned, Partial>Final, Partial>FinalPartitioned through a hash RepartitionExec,
//! Partial>PartialReduce>Final; input unsorted / sorted on a key prefix / on all keys; batch sizes; both hash
//! implementations; skipped partial aggregation; small memory pools) and through SQL
//! (GROUP BY / ROLLUP / CUBE / GROUPING SETS / DISTINCT / FILTER / ORDER BY agg LIMIT k).
use crate::vals::*;

use arrow::compute::SortOptions;
use arrow::datatypes::{DataType, Field, Schema, SchemaRef};
use arrow::record_batch::RecordBatch;
use datafusion::datasource::MemTable;
use datafusion::execution::context::SessionContext;
use datafusion::prelude::SessionConfig;
use datafusion_common::ScalarValue;
use datafusion_datasource::memory::MemorySourceConfig;
use datafusion_execution::TaskContext;
use datafusion_execution::memory_pool::FairSpillPool;
use datafusion_execution::runtime_env::RuntimeEnvBuilder;
use datafusion_expr::{AggregateUDF, Operator};
use datafusion_physical_expr::aggregate::{AggregateExprBuilder, AggregateFunctionExpr};
use datafusion_physical_expr::expressions::{BinaryExpr, Column, Literal};
use datafusion_physical_expr::{LexOrdering, Partitioning, PhysicalExpr, PhysicalSortExpr};
use datafusion_physical_plan::aggregates::{AggregateExec, AggregateMode, PhysicalGroupBy};
use datafusion_physical_plan::coalesce_partitions::CoalescePartitionsExec;
use datafusion_physical_plan::repartition::RepartitionExec;
use datafusion_physical_plan::sorts::sort::SortExec;
use datafusion_physical_plan::{ExecutionPlan, collect, displayable};
use futures::FutureExt;
use rand::rngs::StdRng;
use rand::seq::SliceRandom;
use rand::{Rng, SeedableRng};
use serde_json::{Value, json};
use std::collections::BTreeMap;
use std::panic::AssertUnwindSafe;
use std::sync::Arc;
use vcommon::util;

/// one aggregate call of the menu: (sql text, reference key, flags)
#[derive(Clone)]
struct AggDef {
    name: &'static str,
    sql: &'static str,
    refkey: &'static str,
    /// result is a number whatever the rendering of x
    num: bool,
    /// only when x is rendered as an integer type
    int_only: bool,
    /// known finding key when this aggregate is computed by the vectorised path
    fun: &'static str,
    distinct: bool,
    filter: bool,
    /// 0 none, 1 ORDER BY y, 2 ORDER BY y, x
    ord: u8,
    star: bool,
}

fn menu() -> Vec<AggDef> {
    let d = |name, sql, refkey, fun| AggDef { name, sql, refkey, num: false, int_only: false, fun, distinct: false, filter: false, ord: 0, star: false };
    vec![
        AggDef { num: true, star: true, ..d("count_star", "count(*)", "count_star", "count") },
        AggDef { num: true, ..d("count", "count(x)", "count", "count") },
        d("sum", "sum(x)", "sum", "sum"),
        d("min", "min(x)", "min", "min"),
        d("max", "max(x)", "max", "max"),
        d("avg", "avg(x)", "avg", "avg"),
        AggDef { num: true, distinct: true, ..d("count_distinct", "count(DISTINCT x)", "count_distinct", "count") },
        AggDef { distinct: true, ..d("sum_distinct", "sum(DISTINCT x)", "sum_distinct", "sum") },
        AggDef { ord: 1, ..d("first_value_ord", "first_value(x ORDER BY y)", "first_value_ord", "first_value") },
        AggDef { ord: 1, ..d("last_value_ord", "last_value(x ORDER BY y)", "last_value_ord", "last_value") },
        AggDef { ord: 2, ..d("array_agg_ord", "array_agg(x ORDER BY y, x)", "array_agg_ord", "array_agg") },
        d("median", "median(x)", "median", "median"),
        AggDef { int_only: true, ..d("bit_xor", "bit_xor(x)", "bit_xor", "bit_xor") },
        AggDef { filter: true, ..d("sum_filter", "sum(x) FILTER (WHERE y > 0)", "sum_filter", "sum") },
        AggDef { num: true, star: true, filter: true, ..d("count_star_filter", "count(*) FILTER (WHERE y > 0)", "count_star_filter", "count") },
        AggDef { num: true, filter: true, ..d("count_filter", "count(x) FILTER (WHERE y > 0)", "count_filter", "count") },
    ]
}

struct Layout {
    kt: Ty,
    xt: Ty,
}

fn schema(l: &Layout) -> SchemaRef {
    Arc::new(Schema::new(vec![
        Field::new("k1", l.kt.data_type(), true),
        Field::new("k2", l.kt.data_type(), true),
        Field::new("x", l.xt.data_type(), true),
        Field::new("y", DataType::Int64, true),
    ]))
}

fn batch_of(l: &Layout, rows: &[Value]) -> RecordBatch {
    let col = |i: usize| rows.iter().map(|r| mv(&r[i])).collect::<Vec<_>>();
    RecordBatch::try_new(
        schema(l),
        vec![mk_array(l.kt, &col(0)), mk_array(l.kt, &col(1)), mk_array(l.xt, &col(2)), mk_array(Ty::I64, &col(3))],
    )
    .unwrap()
}

/// split the table into `parts` partitions (round robin by a seeded assignment) of batches of <= bs rows
fn partitions(l: &Layout, tbl: &[Value], parts: usize, bs: usize, rng: &mut StdRng, sort_keys: usize) -> Vec<Vec<RecordBatch>> {
    let mut rows: Vec<Value> = tbl.to_vec();
    if sort_keys > 0 {
        // pre-sort so that also the *arrival* order is sorted (the SortExec above makes it official)
        rows.sort_by_key(|r| (0..sort_keys).map(|i| mv(&r[i]).unwrap_or(99)).collect::<Vec<_>>());
    }
    let mut ps: Vec<Vec<Value>> = vec![vec![]; parts];
    for r in rows {
        let p = rng.random_range(0..parts);
        ps[p].push(r);
    }
    ps.iter()
        .map(|p| {
            if p.is_empty() {
                vec![]
            } else {
                p.chunks(bs.max(1)).map(|c| batch_of(l, c)).collect()
            }
        })
        .collect()
}

fn udaf(name: &str) -> Arc<AggregateUDF> {
    datafusion::functions_aggregate::all_default_aggregate_functions()
        .into_iter()
        .find(|u| u.name() == name)
        .unwrap_or_else(|| panic!("harness: no aggregate {name}"))
}

fn col(name: &str, i: usize) -> Arc<dyn PhysicalExpr> {
    Arc::new(Column::new(name, i))
}

fn build_agg(a: &AggDef, sch: &SchemaRef) -> Result<(Arc<AggregateFunctionExpr>, Option<Arc<dyn PhysicalExpr>>), String> {
    // avg / median take Float64: the planner's type coercion inserts this cast for integer columns
    let needs_f64 = (a.fun == "avg" || a.fun == "median") && sch.field(2).data_type() != &DataType::Float64;
    let args: Vec<Arc<dyn PhysicalExpr>> = if a.star {
        vec![Arc::new(Literal::new(ScalarValue::Int64(Some(1))))]
    } else if needs_f64 {
        vec![Arc::new(datafusion_physical_expr::expressions::CastExpr::new(col("x", 2), DataType::Float64, None))]
    } else {
        vec![col("x", 2)]
    };
    let so = SortOptions { descending: false, nulls_first: false };
    let mut b = AggregateExprBuilder::new(udaf(a.fun), args).schema(Arc::clone(sch)).alias(a.name);
    if a.ord == 1 {
        b = b.order_by(vec![PhysicalSortExpr::new(col("y", 3), so)]);
    } else if a.ord == 2 {
        b = b.order_by(vec![PhysicalSortExpr::new(col("y", 3), so), PhysicalSortExpr::new(col("x", 2), so)]);
    }
    if a.distinct {
        b = b.distinct();
    }
    let e = b.build().map_err(|e| format!("harness: build {}: {e}", a.name))?;
    let f: Option<Arc<dyn PhysicalExpr>> = if a.filter {
        Some(Arc::new(BinaryExpr::new(col("y", 3), Operator::Gt, Arc::new(Literal::new(ScalarValue::Int64(Some(0)))))))
    } else {
        None
    };
    Ok((Arc::new(e), f))
}

#[derive(Clone, Debug)]
struct PlanCfg {
    mode: &'static str, // single | single_part | partial_final | partial_final_part | partial_reduce_final
    nkeys: usize,
    sort: usize, // number of leading keys the input is sorted on
    bs: usize,
    src_bs: usize,
    parts: usize,
    migration: bool,
    skip_partial: bool,
    mem: Option<usize>,
}

fn group_by(nkeys: usize) -> PhysicalGroupBy {
    let names = ["k1", "k2"];
    PhysicalGroupBy::new_single((0..nkeys).map(|i| (col(names[i], i), names[i].to_string())).collect())
}

fn sorted_input(input: Arc<dyn ExecutionPlan>, nsort: usize) -> Arc<dyn ExecutionPlan> {
    if nsort == 0 {
        return input;
    }
    let names = ["k1", "k2"];
    let so = SortOptions { descending: false, nulls_first: false };
    let ord = LexOrdering::new((0..nsort).map(|i| PhysicalSortExpr::new(col(names[i], i), so)).collect::<Vec<_>>()).unwrap();
    Arc::new(SortExec::new(ord, input).with_preserve_partitioning(true))
}

fn hash_repart(input: Arc<dyn ExecutionPlan>, nkeys: usize, n: usize) -> Result<Arc<dyn ExecutionPlan>, String> {
    let names = ["k1", "k2"];
    let exprs: Vec<Arc<dyn PhysicalExpr>> = (0..nkeys).map(|i| col(names[i], i)).collect();
    Ok(Arc::new(RepartitionExec::try_new(input, Partitioning::Hash(exprs, n)).map_err(|e| format!("harness: repartition {e}"))?))
}

fn build_plan(cfg: &PlanCfg, l: &Layout, tbl: &[Value], aggs: &[AggDef], rng: &mut StdRng) -> Result<Arc<dyn ExecutionPlan>, String> {
    let sch = schema(l);
    let parts = match cfg.mode {
        "single" => 1,
        _ => cfg.parts.max(1),
    };
    let data = partitions(l, tbl, parts, cfg.src_bs, rng, cfg.sort);
    let src: Arc<dyn ExecutionPlan> = MemorySourceConfig::try_new_exec(&data, Arc::clone(&sch), None).map_err(|e| format!("harness: source {e}"))?;
    let mut aexprs = vec![];
    let mut filters = vec![];
    for a in aggs {
        let (e, f) = build_agg(a, &sch)?;
        aexprs.push(e);
        filters.push(f);
    }
    let gb = group_by(cfg.nkeys);
    let he = |e: datafusion_common::DataFusionError| format!("harness: plan {e}");
    let nofilter: Vec<Option<Arc<dyn PhysicalExpr>>> = vec![None; aexprs.len()];
    let plan: Arc<dyn ExecutionPlan> = match cfg.mode {
        "single" => {
            let input = sorted_input(src, cfg.sort);
            Arc::new(AggregateExec::try_new(AggregateMode::Single, gb, aexprs, filters, input, sch).map_err(he)?)
        }
        "single_part" => {
            let input = hash_repart(src, cfg.nkeys, 3)?;
            let input = sorted_input(input, cfg.sort);
            Arc::new(AggregateExec::try_new(AggregateMode::SinglePartitioned, gb, aexprs, filters, input, sch).map_err(he)?)
        }
        "partial_final" | "partial_final_part" | "partial_reduce_final" => {
            let input = sorted_input(src, cfg.sort);
            let partial: Arc<dyn ExecutionPlan> =
                Arc::new(AggregateExec::try_new(AggregateMode::Partial, gb.clone(), aexprs.clone(), filters, input, Arc::clone(&sch)).map_err(he)?);
            let fgb = gb.as_final();
            match cfg.mode {
                "partial_final" => {
                    let merged: Arc<dyn ExecutionPlan> = if cfg.sort > 0 {
                        // keep the stream ordered for the final stage
                        let names = ["k1", "k2"];
                        let so = SortOptions { descending: false, nulls_first: false };
                        let ord = LexOrdering::new((0..cfg.sort).map(|i| PhysicalSortExpr::new(col(names[i], i), so)).collect::<Vec<_>>()).unwrap();
                        Arc::new(datafusion_physical_plan::sorts::sort_preserving_merge::SortPreservingMergeExec::new(ord, partial))
                    } else {
                        Arc::new(CoalescePartitionsExec::new(partial))
                    };
                    Arc::new(AggregateExec::try_new(AggregateMode::Final, fgb, aexprs, nofilter, merged, sch).map_err(he)?)
                }
                "partial_final_part" => {
                    let rep = hash_repart(partial, cfg.nkeys, 3)?;
                    Arc::new(AggregateExec::try_new(AggregateMode::FinalPartitioned, fgb, aexprs, nofilter, rep, sch).map_err(he)?)
                }
                _ => {
                    let rep = hash_repart(partial, cfg.nkeys, 2)?;
                    let reduce: Arc<dyn ExecutionPlan> =
                        Arc::new(AggregateExec::try_new(AggregateMode::PartialReduce, fgb.clone(), aexprs.clone(), nofilter.clone(), rep, Arc::clone(&sch)).map_err(he)?);
                    let merged: Arc<dyn ExecutionPlan> = Arc::new(CoalescePartitionsExec::new(reduce));
                    Arc::new(AggregateExec::try_new(AggregateMode::Final, fgb, aexprs, nofilter, merged, sch).map_err(he)?)
                }
            }
        }
        m => return Err(format!("harness: unknown mode {m}")),
    };
    Ok(plan)
}

fn session_config(bs: usize, parts: usize, migration: bool, skip_partial: bool) -> SessionConfig {
    let mut c = SessionConfig::new()
        .with_batch_size(bs)
        .with_target_partitions(parts)
        .set_bool("datafusion.execution.enable_migration_aggregate", migration);
    if skip_partial {
        c = c
            .set_u64("datafusion.execution.skip_partial_aggregation_probe_rows_threshold", 1)
            .set_str("datafusion.execution.skip_partial_aggregation_probe_ratio_threshold", "0.0");
    }
    c
}

fn task_ctx(cfg: &PlanCfg) -> Arc<TaskContext> {
    let sc = session_config(cfg.bs, cfg.parts, cfg.migration, cfg.skip_partial);
    let mut t = TaskContext::default().with_session_config(sc);
    if let Some(m) = cfg.mem {
        let rt = RuntimeEnvBuilder::new().with_memory_pool(Arc::new(FairSpillPool::new(m))).build_arc().unwrap();
        t = t.with_runtime(rt);
    }
    Arc::new(t)
}

/// rows of the output: (key values, aggregate values)
fn rows_of(batches: &[RecordBatch], nkeys: usize) -> Vec<(Vec<Norm>, Vec<Norm>)> {
    let mut out = vec![];
    for b in batches {
        for r in 0..b.num_rows() {
            let k = (0..nkeys).map(|c| norm_at(b.column(c), r)).collect();
            let a = (nkeys..b.num_columns()).map(|c| norm_at(b.column(c), r)).collect();
            out.push((k, a));
        }
    }
    out
}

/// Does output row `o` realise expected group `e`?  Err(message) if not.
fn row_matches(l: &Layout, aggs: &[AggDef], e: &Value, o: &(Vec<Norm>, Vec<Norm>)) -> Result<(), String> {
    let ek = e["key"].as_array().unwrap();
    for (i, k) in ek.iter().enumerate() {
        if !norm_eq(&render(l.kt, k), &o.0[i]) {
            return Err("key".into());
        }
    }
    for (i, a) in aggs.iter().enumerate() {
        let ty = if a.num { Ty::I64 } else { l.xt };
        match check(ty, &e["e"][a.refkey], &o.1[i], false) {
            Verdict::Ok => {}
            Verdict::ZeroDenominator => return Err(format!("{}: expected NULL, engine returned {}", a.name, o.1[i].show())),
            Verdict::Bad(m) => return Err(format!("{}: {m}", a.name)),
        }
    }
    Ok(())
}

/// bag comparison: a perfect matching between output rows and expected groups
fn compare(l: &Layout, aggs: &[AggDef], expected: &[Value], out: &[(Vec<Norm>, Vec<Norm>)]) -> Result<(), String> {
    let show_row = |o: &(Vec<Norm>, Vec<Norm>)| format!("({} | {})", o.0.iter().map(|x| x.show()).collect::<Vec<_>>().join(","), o.1.iter().map(|x| x.show()).collect::<Vec<_>>().join(","));
    let n = expected.len();
    // adjacency
    let adj: Vec<Vec<usize>> = out.iter().map(|o| (0..n).filter(|&j| row_matches(l, aggs, &expected[j], o).is_ok()).collect()).collect();
    for (i, a) in adj.iter().enumerate() {
        if a.is_empty() {
            // explain: same key?
            let samekey: Vec<String> = expected
                .iter()
                .filter_map(|e| match row_matches(l, aggs, e, &out[i]) {
                    Err(m) if m != "key" => Some(m),
                    _ => None,
                })
                .collect();
            return Err(if samekey.is_empty() {
                format!("output row {} belongs to no group of the input (or its group is output twice)", show_row(&out[i]))
            } else {
                format!("output row {}: {}", show_row(&out[i]), samekey.join("; "))
            });
        }
    }
    if out.len() != n {
        // which keys are missing / duplicated
        return Err(format!(
            "{} output rows for {} groups; output = {}",
            out.len(),
            n,
            out.iter().map(show_row).collect::<Vec<_>>().join(" ")
        ));
    }
    // bipartite matching (augmenting paths)
    let mut match_e: Vec<Option<usize>> = vec![None; n];
    fn try_aug(i: usize, adj: &Vec<Vec<usize>>, seen: &mut Vec<bool>, match_e: &mut Vec<Option<usize>>) -> bool {
        for &j in &adj[i] {
            if seen[j] {
                continue;
            }
            seen[j] = true;
            if match_e[j].is_none() || try_aug(match_e[j].unwrap(), adj, seen, match_e) {
                match_e[j] = Some(i);
                return true;
            }
        }
        false
    }
    for i in 0..out.len() {
        let mut seen = vec![false; n];
        if !try_aug(i, &adj, &mut seen, &mut match_e) {
            return Err(format!("output rows cannot be matched one-to-one with the groups (duplicate group?): {}", out.iter().map(show_row).collect::<Vec<_>>().join(" ")));
        }
    }
    Ok(())
}

fn spill_count(plan: &Arc<dyn ExecutionPlan>) -> usize {
    let mut n = plan.metrics().and_then(|m| m.spill_count()).unwrap_or(0);
    for c in plan.children() {
        n += spill_count(c);
    }
    n
}

fn plan_names(plan: &Arc<dyn ExecutionPlan>, out: &mut Vec<String>) {
    out.push(plan.name().to_string());
    for c in plan.children() {
        plan_names(c, out);
    }
}

#[derive(Default)]
struct Stats {
    executions: u64,
    per_cfg: BTreeMap<String, u64>,
    resource_errors: u64,
    spilled_runs: u64,
    skip_partial_runs: u64,
    topk_plans: u64,
    sql_runs: u64,
    ordered_runs: u64,
    distinct: std::collections::HashSet<u64>,
    known: BTreeMap<String, u64>,
}

fn is_resource_error(e: &str) -> bool {
    e.contains("Resources exhausted") || e.contains("ResourcesExhausted") || e.contains("memory")
}

fn pick_aggs(rng: &mut StdRng, l: &Layout, all: &[AggDef], allow_filter: bool) -> Vec<AggDef> {
    let mut cand: Vec<AggDef> = all
        .iter()
        .filter(|a| (!a.int_only || matches!(l.xt, Ty::I64 | Ty::I32)) && (allow_filter || !a.filter))
        .cloned()
        .collect();
    cand.shuffle(rng);
    let n = rng.random_range(1..=5usize.min(cand.len()));
    cand.truncate(n);
    cand
}

pub fn main() {
    let inp = util::arg("--in").expect("--in");
    let outp = util::arg("--out").expect("--out");
    let per_case: usize = util::arg("--per-case").and_then(|s| s.parse().ok()).unwrap_or(24);
    let corrupt = util::has_flag("--selftest-corrupt");
    let cases = util::read_ndjson(&inp);
    let seed = util::seed();
    let rt = tokio::runtime::Builder::new_multi_thread().worker_threads(2).enable_all().build().unwrap();
    let all = menu();
    let mut stats = Stats::default();
    let mut violations: Vec<Value> = vec![];
    let mut tool_errors: Vec<String> = vec![];
    static LAST_PANIC: std::sync::Mutex<String> = std::sync::Mutex::new(String::new());
    std::panic::set_hook(Box::new(|info| {
        *LAST_PANIC.lock().unwrap() = format!("{info}").chars().take(300).collect();
    }));

    // the configuration matrix; each case runs a seeded rotation through it
    let mut matrix: Vec<PlanCfg> = vec![];
    for mode in ["single", "single_part", "partial_final", "partial_final_part", "partial_reduce_final"] {
        for nkeys in [0usize, 1, 2] {
            if nkeys == 0 && mode != "single" && mode != "partial_final" {
                continue;
            }
            for sort in 0..=nkeys {
                for bs in [1usize, 2, 8192] {
                    for migration in [true, false] {
                        for skip_partial in [false, true] {
                            if skip_partial && (mode == "single" || mode == "single_part") {
                                continue;
                            }
                            for mem in [None, Some(0usize)] {
                                if mem.is_some() && (bs == 8192 || nkeys == 0) {
                                    continue;
                                }
                                matrix.push(PlanCfg { mode, nkeys, sort, bs, src_bs: bs, parts: 3, migration, skip_partial, mem });
                            }
                        }
                    }
                }
            }
        }
    }
    let sql_shapes = ["g0", "g1", "g2", "rollup", "cube", "sets", "distinct", "topk_max", "topk_min", "topk_key"];
    let mut cursor = (seed as usize * 7919) % matrix.len();
    let mut sql_cursor = seed as usize;

    for (ci, case) in cases.iter().enumerate() {
        let tbl = case["tbl"].as_array().unwrap();
        let mut rng = StdRng::seed_from_u64(seed.wrapping_mul(1_000_003).wrapping_add(ci as u64));
        // ---------------- physical pipelines
        for _ in 0..per_case {
            let mut cfg = matrix[cursor % matrix.len()].clone();
            cursor += 1;
            let l = Layout { kt: [Ty::I64, Ty::Utf8, Ty::Bool][rng.random_range(0..3)], xt: [Ty::I64, Ty::I64, Ty::F64][rng.random_range(0..3)] };
            cfg.parts = rng.random_range(1..=3);
            cfg.src_bs = [1usize, 2, 8192][rng.random_range(0..3)];
            if let Some(_) = cfg.mem {
                cfg.mem = Some([400usize, 900, 1600, 2600, 5000][rng.random_range(0..5)]);
            }
            if tbl.is_empty() && cfg.nkeys > 0 {
                cfg.nkeys = 0;
                cfg.sort = 0;
                cfg.mode = if cfg.mode == "single" { "single" } else { "partial_final" };
            }
            let aggs = pick_aggs(&mut rng, &l, &all, true);
            let expected = match cfg.nkeys {
                0 => &case["g0"],
                1 => &case["g1"],
                _ => &case["g2"],
            }
            .as_array()
            .unwrap();
            let plan = match build_plan(&cfg, &l, tbl, &aggs, &mut rng) {
                Ok(p) => p,
                Err(e) => {
                    tool_errors.push(e);
                    continue;
                }
            };
            let ctx = task_ctx(&cfg);
            let p2 = Arc::clone(&plan);
            let res = rt.block_on(async move { AssertUnwindSafe(collect(p2, ctx)).catch_unwind().await });
            stats.executions += 1;
            let label = format!("{} keys={} sorted_on={}", cfg.mode, cfg.nkeys, cfg.sort);
            *stats.per_cfg.entry(label).or_default() += 1;
            if cfg.skip_partial {
                stats.skip_partial_runs += 1;
            }
            if cfg.sort > 0 {
                stats.ordered_runs += 1;
            }
            let describe = || json!({"kind": "plan", "cfg": format!("{cfg:?}"), "key_type": l.kt.name(), "x_type": l.xt.name(),
                "aggregates": aggs.iter().map(|a| a.sql).collect::<Vec<_>>(), "case_index": case["idx"].as_u64().unwrap_or(ci as u64)});
            let fns: Vec<&str> = aggs.iter().map(|a| a.name).collect();
            match res {
                Err(_) => {
                    let mut v = describe();
                    v["message"] = json!(format!("panic during execution: {}", LAST_PANIC.lock().unwrap()));
                    v["functions"] = json!(fns);
                    violations.push(v);
                }
                Ok(Err(e)) => {
                    let es = e.to_string();
                    if cfg.mem.is_some() && is_resource_error(&es) {
                        stats.resource_errors += 1;
                    } else {
                        let mut v = describe();
                        v["message"] = json!(format!("execution failed: {es}"));
                        v["functions"] = json!(fns);
                        violations.push(v);
                    }
                }
                Ok(Ok(batches)) => {
                    if spill_count(&plan) > 0 {
                        stats.spilled_runs += 1;
                    }
                    let mut out = rows_of(&batches, cfg.nkeys);
                    if corrupt && !out.is_empty() {
                        out.pop();
                    }
                    use std::hash::{Hash, Hasher};
                    let mut h = std::collections::hash_map::DefaultHasher::new();
                    (format!("{cfg:?}"), l.kt.name(), l.xt.name(), &fns, case["tbl"].to_string()).hash(&mut h);
                    stats.distinct.insert(h.finish());
                    if let Err(m) = compare(&l, &aggs, expected, &out) {
                        let mut v = describe();
                        v["message"] = json!(m);
                        v["functions"] = json!(fns);
                        violations.push(v);
                    }
                }
            }
        }
        // ---------------- SQL
        for _ in 0..(per_case / 3).max(2) {
            let shape = sql_shapes[sql_cursor % sql_shapes.len()];
            sql_cursor += 1;
            if tbl.is_empty() && shape != "g0" {
                continue;
            }
            let l = Layout { kt: [Ty::I64, Ty::Utf8, Ty::Bool][rng.random_range(0..3)], xt: [Ty::I64, Ty::I64, Ty::F64][rng.random_range(0..3)] };
            let parts = rng.random_range(1..=3usize);
            let bs = [1usize, 2, 8192][rng.random_range(0..3)];
            let migration = rng.random_bool(0.5);
            let skip_partial = rng.random_bool(0.4);
            let src_bs = [1usize, 2, 8192][rng.random_range(0..3)];
            let aggs = pick_aggs(&mut rng, &l, &all, true);
            let n = rng.random_range(1..=3usize);
            let alist = aggs.iter().map(|a| format!("{} AS {}", a.sql, a.name)).collect::<Vec<_>>().join(", ");
            let (sql, expected, nkeys, used): (String, &Value, usize, Vec<AggDef>) = match shape {
                "g0" => (format!("SELECT {alist} FROM t"), &case["g0"], 0, aggs.clone()),
                "g1" => (format!("SELECT k1, {alist} FROM t GROUP BY k1"), &case["g1"], 1, aggs.clone()),
                "g2" => (format!("SELECT k1, k2, {alist} FROM t GROUP BY k1, k2"), &case["g2"], 2, aggs.clone()),
                "rollup" => (format!("SELECT k1, k2, {alist} FROM t GROUP BY ROLLUP (k1, k2)"), &case["rollup"], 2, aggs.clone()),
                "cube" => (format!("SELECT k1, k2, {alist} FROM t GROUP BY CUBE (k1, k2)"), &case["cube"], 2, aggs.clone()),
                "sets" => (format!("SELECT k1, k2, {alist} FROM t GROUP BY GROUPING SETS ((k1), (k2))"), &case["sets"], 2, aggs.clone()),
                "distinct" => ("SELECT DISTINCT k1, k2 FROM t".to_string(), &case["g2"], 2, vec![]),
                "topk_max" => (format!("SELECT k1, max(x) AS m FROM t GROUP BY k1 ORDER BY m DESC NULLS LAST LIMIT {n}"), &case["g1"], 1, vec![all[4].clone()]),
                "topk_min" => (format!("SELECT k1, min(x) AS m FROM t GROUP BY k1 ORDER BY m ASC NULLS LAST LIMIT {n}"), &case["g1"], 1, vec![all[3].clone()]),
                _ => (format!("SELECT k1 FROM t GROUP BY k1 ORDER BY k1 ASC NULLS LAST LIMIT {n}"), &case["g1"], 1, vec![]),
            };
            let expected = expected.as_array().unwrap();
            let cfgs = session_config(bs, parts, migration, skip_partial);
            let ctx = SessionContext::new_with_config(cfgs);
            let mut rng2 = StdRng::seed_from_u64(rng.random());
            let data = partitions(&l, tbl, parts, src_bs, &mut rng2, 0);
            let data: Vec<Vec<RecordBatch>> = data.into_iter().map(|p| if p.is_empty() { vec![RecordBatch::new_empty(schema(&l))] } else { p }).collect();
            let mt = match MemTable::try_new(schema(&l), data) {
                Ok(m) => m,
                Err(e) => {
                    tool_errors.push(format!("harness: memtable {e}"));
                    continue;
                }
            };
            ctx.register_table("t", Arc::new(mt)).unwrap();
            let sql2 = sql.clone();
            let res = rt.block_on(async {
                AssertUnwindSafe(async {
                    let df = ctx.sql(&sql2).await?;
                    let plan = df.create_physical_plan().await?;
                    let text = displayable(plan.as_ref()).indent(false).to_string();
                    let batches = collect(plan, ctx.task_ctx()).await?;
                    Ok::<_, datafusion_common::DataFusionError>((text, batches))
                })
                .catch_unwind()
                .await
            });
            stats.executions += 1;
            stats.sql_runs += 1;
            *stats.per_cfg.entry(format!("sql {shape}")).or_default() += 1;
            let fns: Vec<&str> = used.iter().map(|a| a.name).collect();
            let describe = || json!({"kind": "sql", "sql": sql, "key_type": l.kt.name(), "x_type": l.xt.name(), "target_partitions": parts,
                "batch_size": bs, "source_batch_size": src_bs, "migration": migration, "skip_partial": skip_partial,
                "case_index": case["idx"].as_u64().unwrap_or(ci as u64), "functions": fns});
            match res {
                Err(_) => {
                    let mut v = describe();
                    v["message"] = json!(format!("panic during execution: {}", LAST_PANIC.lock().unwrap()));
                    violations.push(v);
                }
                Ok(Err(e)) => {
                    let mut v = describe();
                    v["message"] = json!(format!("execution failed: {e}"));
                    violations.push(v);
                }
                Ok(Ok((text, batches))) => {
                    let mut out = rows_of(&batches, nkeys);
                    if corrupt && !out.is_empty() {
                        out.pop();
                    }
                    use std::hash::{Hash, Hasher};
                    let mut h = std::collections::hash_map::DefaultHasher::new();
                    (&sql, l.kt.name(), l.xt.name(), parts, bs, case["tbl"].to_string()).hash(&mut h);
                    stats.distinct.insert(h.finish());
                    let verdict = if shape.starts_with("topk") {
                        if text.contains("lim=[") {
                            stats.topk_plans += 1;
                        }
                        check_topk(&l, shape, n, case, expected, &used, &out)
                    } else {
                        compare(&l, &used, expected, &out)
                    };
                    if let Err(m) = verdict {
                        let mut v = describe();
                        v["message"] = json!(m);
                        v["plan"] = json!(text);
                        violations.push(v);
                    }
                }
            }
        }
    }
    let _ = std::panic::take_hook();
    let res = json!({
        "cases": cases.len(),
        "evaluations": stats.executions,
        "per_configuration": stats.per_cfg,
        "matrix_size": matrix.len(),
        "sql_runs": stats.sql_runs,
        "ordered_input_runs": stats.ordered_runs,
        "skip_partial_runs": stats.skip_partial_runs,
        "memory_limited_resource_errors": stats.resource_errors,
        "spilled_runs": stats.spilled_runs,
        "topk_plans_with_limit_in_aggregate": stats.topk_plans,
        "distinct_nontrivial": stats.distinct.len(),
        "violations": violations,
        "tool_errors": tool_errors,
    });
    std::fs::write(&outp, serde_json::to_string(&res).unwrap()).unwrap();
    util::summary(json!({"cases": cases.len(), "evaluations": stats.executions, "violations": res["violations"].as_array().unwrap().len(),
        "tool_errors": res["tool_errors"].as_array().unwrap().len()}));
}

/// ORDER BY extremum LIMIT n: the value sequence is the reference's, every row is a real group with its value
fn check_topk(l: &Layout, shape: &str, n: usize, case: &Value, g1: &[Value], used: &[AggDef], out: &[(Vec<Norm>, Vec<Norm>)]) -> Result<(), String> {
    let exp = case[shape][n - 1].as_array().unwrap();
    let show = |o: &[(Vec<Norm>, Vec<Norm>)]| o.iter().map(|r| format!("({}|{})", r.0[0].show(), r.1.iter().map(|x| x.show()).collect::<Vec<_>>().join(","))).collect::<Vec<_>>().join(" ");
    if out.len() != exp.len() {
        return Err(format!("LIMIT {n}: {} rows returned, {} expected; output {}", out.len(), exp.len(), show(out)));
    }
    for (i, e) in exp.iter().enumerate() {
        let got = if shape == "topk_key" { &out[i].0[0] } else { &out[i].1[0] };
        let ty = if shape == "topk_key" { l.kt } else { l.xt };
        if !norm_eq(&render(ty, e), got) {
            return Err(format!("LIMIT {n}: position {i} expected {}, output {}", render(ty, e).show(), show(out)));
        }
    }
    // rows are real, distinct groups
    for (i, o) in out.iter().enumerate() {
        if !g1.iter().any(|e| row_matches(l, used, e, o).is_ok()) {
            return Err(format!("LIMIT {n}: output row {i} is not a group of the input with its aggregate value; output {}", show(out)));
        }
        if out.iter().take(i).any(|p| norm_eq(&p.0[0], &o.0[0])) {
            return Err(format!("LIMIT {n}: group output twice; output {}", show(out)));
        }
    }
    Ok(())
}
