//! C07 — replay TLC-generated accumulator histories (spec/lib/Accum.tla) into every aggregate
//! function registered by default, through every accumulator interface:
//!   scalar  : AggregateFunctionExpr::create_accumulator            (mode "merge")
//!   sliding : AggregateFunctionExpr::create_sliding_accumulator    (mode "slide", retract)
//!   groups  : create_groups_accumulator (native, when supported)   (mode "groups")
//!   adapter : GroupsAccumulatorAdapter over create_accumulator     (mode "groups")
//! Every evaluation is compared with the reference result computed by TLC (Agg.tla), or, for functions
//! without a reference, checked for self-consistency (same contents => same value, on every path).
use crate::vals::*;
use arrow::array::*;
use arrow::compute::SortOptions;
use arrow::datatypes::{Field, Schema};
use datafusion_common::ScalarValue;
use datafusion_expr::type_coercion::functions::fields_with_udf;
use datafusion_expr::{Accumulator, AggregateUDF, EmitTo, GroupsAccumulator};
use datafusion_functions_aggregate_common::aggregate::groups_accumulator::GroupsAccumulatorAdapter;
use datafusion_physical_expr::aggregate::{AggregateExprBuilder, AggregateFunctionExpr};
use datafusion_physical_expr::expressions::{Column, Literal};
use datafusion_physical_expr::{PhysicalExpr, PhysicalSortExpr};
use serde_json::{Value, json};
use std::collections::{BTreeMap, HashMap};
use std::panic::{AssertUnwindSafe, catch_unwind};
use std::sync::Arc;
use vcommon::util;

#[derive(Clone, Copy, PartialEq, Debug)]
enum Ord {
    None,
    ByX,
    ByY,
}

#[derive(Clone)]
struct Spec {
    fname: &'static str,
    nargs: usize,
    lits: Vec<ScalarValue>,
    distinct: bool,
    ignore_nulls: bool,
    ord: Ord,
    /// reference key in Agg.Expect for float/other renderings, and for integer renderings
    reference: Option<(&'static str, &'static str)>,
    joined: bool,
    /// the result is a number whatever the argument rendering (count, ...)
    num: bool,
    types: &'static [Ty],
}

struct Inst {
    label: String,
    spec: Spec,
    ty: Ty,
    expr: Arc<AggregateFunctionExpr>,
    order_sensitive: bool,
    has_sliding: bool,
    has_groups: bool,
}

const NUM: &[Ty] = &[Ty::I64, Ty::F64, Ty::I32];
const INTS: &[Ty] = &[Ty::I64, Ty::I32];
const ORDERED: &[Ty] = &[Ty::I64, Ty::F64, Ty::Utf8, Ty::I32];
const ANY: &[Ty] = &[Ty::I64, Ty::F64, Ty::Utf8, Ty::Bool, Ty::I32];
const INJ: &[Ty] = &[Ty::I64, Ty::F64, Ty::Utf8, Ty::I32];

fn s(fname: &'static str, nargs: usize, reference: Option<&'static str>, types: &'static [Ty]) -> Spec {
    Spec {
        fname,
        nargs,
        lits: vec![],
        distinct: false,
        ignore_nulls: false,
        ord: Ord::None,
        reference: reference.map(|r| (r, r)),
        joined: false,
        num: false,
        types,
    }
}

/// The table of (function, variant) with a reference in Agg.tla.  Functions of the default registry
/// not mentioned here are instantiated on every rendering they accept and checked for self-consistency.
fn known_specs() -> Vec<Spec> {
    let mut v = vec![
        Spec { num: true, ..s("count", 1, Some("count"), ANY) },
        Spec { distinct: true, num: true, ..s("count", 1, Some("count_distinct"), INJ) },
        s("sum", 1, Some("sum"), NUM),
        Spec { distinct: true, ..s("sum", 1, Some("sum_distinct"), NUM) },
        s("avg", 1, Some("avg"), NUM),
        Spec { distinct: true, ..s("avg", 1, Some("avg_distinct"), NUM) },
        s("min", 1, Some("min"), ANY),
        s("max", 1, Some("max"), ANY),
        Spec { reference: Some(("median", "median_int")), ..s("median", 1, None, NUM) },
        Spec {
            reference: Some(("median", "median_int")),
            lits: vec![ScalarValue::Float64(Some(0.5))],
            ..s("percentile_cont", 1, None, NUM)
        },
        s("var", 1, Some("var_samp"), NUM),
        s("var_pop", 1, Some("var_pop"), NUM),
        s("stddev", 1, Some("stddev_samp"), NUM),
        s("stddev_pop", 1, Some("stddev_pop"), NUM),
        s("covar_samp", 2, Some("covar_samp"), NUM),
        s("covar_pop", 2, Some("covar_pop"), NUM),
        s("corr", 2, Some("corr"), NUM),
        s("regr_count", 2, Some("regr_count"), NUM),
        s("regr_avgx", 2, Some("regr_avgx"), NUM),
        s("regr_avgy", 2, Some("regr_avgy"), NUM),
        s("regr_sxx", 2, Some("regr_sxx"), NUM),
        s("regr_syy", 2, Some("regr_syy"), NUM),
        s("regr_sxy", 2, Some("regr_sxy"), NUM),
        s("regr_slope", 2, Some("regr_slope"), NUM),
        s("regr_intercept", 2, Some("regr_intercept"), NUM),
        s("regr_r2", 2, Some("regr_r2"), NUM),
        s("bit_and", 1, Some("bit_and"), INTS),
        s("bit_or", 1, Some("bit_or"), INTS),
        s("bit_xor", 1, Some("bit_xor"), INTS),
        Spec { distinct: true, ..s("bit_xor", 1, Some("bit_xor_distinct"), INTS) },
        s("bool_and", 1, Some("bool_and"), &[Ty::Bool]),
        s("bool_or", 1, Some("bool_or"), &[Ty::Bool]),
        s("first_value", 1, Some("first_value"), ANY),
        s("last_value", 1, Some("last_value"), ANY),
        Spec { ignore_nulls: true, ..s("first_value", 1, Some("first_value_in"), ANY) },
        Spec { ignore_nulls: true, ..s("last_value", 1, Some("last_value_in"), ANY) },
        Spec { ord: Ord::ByY, ..s("first_value", 1, Some("first_value_ord"), ORDERED) },
        Spec { ord: Ord::ByY, ..s("last_value", 1, Some("last_value_ord"), ORDERED) },
        Spec { lits: vec![ScalarValue::Int64(Some(2))], ..s("nth_value", 1, Some("nth_value_2"), ANY) },
        Spec { lits: vec![ScalarValue::Int64(Some(-1))], ..s("nth_value", 1, Some("nth_value_m1"), ANY) },
        s("any_value", 1, Some("any_value"), ANY),
        s("array_agg", 1, Some("array_agg"), ANY),
        Spec { ignore_nulls: true, ..s("array_agg", 1, Some("array_agg_in"), ANY) },
        Spec { distinct: true, ..s("array_agg", 1, Some("array_agg_distinct"), INJ) },
        Spec { ord: Ord::ByX, ..s("array_agg", 1, Some("array_agg_sorted"), ORDERED) },
        Spec {
            lits: vec![ScalarValue::Utf8(Some(",".into()))],
            joined: true,
            ..s("string_agg", 1, Some("string_agg"), &[Ty::Utf8])
        },
        Spec {
            lits: vec![ScalarValue::Utf8(Some(",".into()))],
            joined: true,
            ord: Ord::ByX,
            ..s("string_agg", 1, Some("string_agg_sorted"), &[Ty::Utf8])
        },
        // HyperLogLog sketch: on the <= 4 distinct values of the scope the estimate is exact (the hashes are
        // fixed, all 16 value sets occur in every run, so this comparison cannot flake)
        Spec { num: true, ..s("approx_distinct", 1, Some("count_distinct"), INJ) },
    ];
    for sp in v.iter_mut() {
        if sp.fname == "median" || sp.fname == "percentile_cont" {
            sp.types = NUM;
        }
    }
    v
}

/// documented approximate / not accumulators: excluded by the property text
const EXCLUDED: &[&str] = &["approx_median", "approx_percentile_cont", "approx_percentile_cont_with_weight", "grouping"];

fn build_inst(udaf: &Arc<AggregateUDF>, spec: &Spec, ty: Ty) -> Result<Inst, String> {
    let mut in_fields = vec![Arc::new(Field::new("x", ty.data_type(), true))];
    if spec.nargs == 2 {
        in_fields.push(Arc::new(Field::new("y", ty.data_type(), true)));
    }
    for (i, l) in spec.lits.iter().enumerate() {
        in_fields.push(Arc::new(Field::new(format!("lit{i}"), l.data_type(), false)));
    }
    let coerced = fields_with_udf(&in_fields, udaf.as_ref()).map_err(|e| format!("coercion: {e}"))?;
    // only argument types the function accepts as they are (the driver passes arrays directly)
    for (a, b) in in_fields.iter().zip(coerced.iter()) {
        if a.data_type() != b.data_type() {
            return Err(format!("needs cast {} -> {}", a.data_type(), b.data_type()));
        }
    }
    let schema = Arc::new(Schema::new(vec![
        Field::new("x", ty.data_type(), true),
        Field::new("y", ty.data_type(), true),
    ]));
    let mut args: Vec<Arc<dyn PhysicalExpr>> = vec![Arc::new(Column::new("x", 0))];
    if spec.nargs == 2 {
        args.push(Arc::new(Column::new("y", 1)));
    }
    for l in &spec.lits {
        args.push(Arc::new(Literal::new(l.clone())));
    }
    let mut b = AggregateExprBuilder::new(Arc::clone(udaf), args).schema(schema).alias("agg");
    let so = SortOptions { descending: false, nulls_first: false };
    match spec.ord {
        Ord::None => {}
        Ord::ByX => b = b.order_by(vec![PhysicalSortExpr::new(Arc::new(Column::new("x", 0)), so)]),
        Ord::ByY => b = b.order_by(vec![PhysicalSortExpr::new(Arc::new(Column::new("y", 1)), so)]),
    }
    if spec.distinct {
        b = b.distinct();
    }
    if spec.ignore_nulls {
        b = b.ignore_nulls();
    }
    let expr = catch_unwind(AssertUnwindSafe(|| b.build())).map_err(|_| "panic in build".to_string())?.map_err(|e| format!("build: {e}"))?;
    // must be able to make an accumulator at all
    let acc = catch_unwind(AssertUnwindSafe(|| expr.create_accumulator()));
    match acc {
        Ok(Ok(_)) => {}
        Ok(Err(e)) => return Err(format!("accumulator: {e}")),
        Err(_) => return Err("panic in create_accumulator".into()),
    }
    let has_sliding = matches!(catch_unwind(AssertUnwindSafe(|| expr.create_sliding_accumulator())), Ok(Ok(_)));
    let has_groups = matches!(catch_unwind(AssertUnwindSafe(|| expr.groups_accumulator_supported())), Ok(true))
        && matches!(catch_unwind(AssertUnwindSafe(|| expr.create_groups_accumulator())), Ok(Ok(_)));
    let order_sensitive = !expr.order_sensitivity().is_insensitive();
    let mut label = spec.fname.to_string();
    if spec.distinct {
        label += "[distinct]";
    }
    if spec.ignore_nulls {
        label += "[ignore nulls]";
    }
    match spec.ord {
        Ord::ByX => label += "[order by x]",
        Ord::ByY => label += "[order by y]",
        _ => {}
    }
    for l in &spec.lits {
        label += &format!("({l})");
    }
    label += &format!("/{}", ty.name());
    Ok(Inst { label, spec: spec.clone(), ty, expr: Arc::new(expr), order_sensitive, has_sliding, has_groups })
}

fn instances(report: &mut Vec<Value>) -> Vec<Inst> {
    let all = datafusion::functions_aggregate::all_default_aggregate_functions();
    let known = known_specs();
    let mut out = vec![];
    for udaf in &all {
        let name = udaf.name().to_string();
        if EXCLUDED.contains(&name.as_str()) {
            report.push(json!({"function": name, "status": "excluded (documented approximate / not an accumulator)"}));
            continue;
        }
        let specs: Vec<Spec> = known.iter().filter(|k| k.fname == name).cloned().collect();
        let specs = if specs.is_empty() {
            // unknown function: try 1 and 2 arguments on every rendering, self-consistency only
            let leaked: &'static str = Box::leak(name.clone().into_boxed_str());
            vec![s(leaked, 1, None, ANY), s(leaked, 2, None, ANY)]
        } else {
            specs
        };
        let mut built = vec![];
        let mut rejected = vec![];
        for sp in &specs {
            for ty in sp.types {
                match build_inst(udaf, sp, *ty) {
                    Ok(i) => {
                        built.push(i.label.clone());
                        out.push(i);
                    }
                    Err(e) => rejected.push(format!("{}:{e}", ty.name())),
                }
            }
        }
        report.push(json!({"function": name, "instances": built, "not_instantiated": rejected.len()}));
    }
    out
}

fn cols(inst: &Inst, rows: &[Value]) -> Vec<ArrayRef> {
    let xs: Vec<Option<i64>> = rows.iter().map(|r| mv(&r[0])).collect();
    let ys: Vec<Option<i64>> = rows.iter().map(|r| mv(&r[1])).collect();
    let n = rows.len();
    let mut v = vec![mk_array(inst.ty, &xs)];
    if inst.spec.nargs == 2 {
        v.push(mk_array(inst.ty, &ys));
    }
    for l in &inst.spec.lits {
        v.push(l.to_array_of_size(n).unwrap());
    }
    match inst.spec.ord {
        Ord::None => {}
        Ord::ByX => v.push(mk_array(inst.ty, &xs)),
        Ord::ByY => v.push(mk_array(inst.ty, &ys)),
    }
    v
}

fn filter_of(flt: &[Value]) -> Option<BooleanArray> {
    if flt.is_empty() {
        return None;
    }
    Some(BooleanArray::from(
        flt.iter()
            .map(|f| match f.as_i64().unwrap() {
                0 => Some(false),
                1 => Some(true),
                _ => None,
            })
            .collect::<Vec<_>>(),
    ))
}

fn emit_of(e: i64) -> EmitTo {
    if e == 0 { EmitTo::All } else { EmitTo::First(e as usize) }
}

/// canonical description of contents for the self-consistency key
fn contents_key(inst: &Inst, rows: &Value) -> String {
    let mut v: Vec<String> = rows
        .as_array()
        .unwrap()
        .iter()
        .map(|r| {
            let x = mv(&r[0]).map(|x| x.to_string()).unwrap_or("N".into());
            let y = mv(&r[1]).map(|x| x.to_string()).unwrap_or("N".into());
            if inst.spec.nargs == 2 || inst.spec.ord == Ord::ByY { format!("{x}:{y}") } else { x }
        })
        .collect();
    if !inst.order_sensitive {
        v.sort();
    }
    v.join(",")
}

#[derive(Default)]
struct Stats {
    evaluations: u64,
    compared_reference: u64,
    compared_self: u64,
    zero_denominator_tolerated: u64,
    histories_run: u64,
    histories_skipped: u64,
    engine_errors: u64,
    per_path: BTreeMap<String, u64>,
    per_instance: BTreeMap<String, u64>,
    distinct_cases: std::collections::HashSet<u64>,
}

struct Runner<'a> {
    inst: &'a Inst,
    path: &'static str,
    case_idx: usize,
    stats: &'a mut Stats,
    selfmap: &'a mut HashMap<String, (Norm, String)>,
    violations: &'a mut Vec<Value>,
    has_retract: bool,
    corrupt: bool,
}

impl<'a> Runner<'a> {
    fn verdict(&mut self, step: usize, exp: &Value, contents: &Value, got: Norm) {
        self.stats.evaluations += 1;
        *self.stats.per_path.entry(self.path.to_string()).or_default() += 1;
        *self.stats.per_instance.entry(self.inst.label.clone()).or_default() += 1;
        let refkey = self.inst.spec.reference.map(|(f, i)| if matches!(self.inst.ty, Ty::I64 | Ty::I32) { i } else { f });
        let mut got = got;
        if self.corrupt {
            // self-test of the binding: perturb what the engine returned
            got = match got {
                Norm::Int(i) => Norm::Int(i + 1),
                Norm::Float(f) => Norm::Float(f + 1.0),
                Norm::Null => Norm::Int(0),
                Norm::List(mut l) => {
                    l.push(Norm::Null);
                    Norm::List(l)
                }
                Norm::Bool(b) => Norm::Bool(!b),
                Norm::Str(s) => Norm::Str(s + "!"),
                o => o,
            };
        }
        use std::hash::{Hash, Hasher};
        let mut h = std::collections::hash_map::DefaultHasher::new();
        (self.inst.label.as_str(), self.path, contents_key(self.inst, contents)).hash(&mut h);
        self.stats.distinct_cases.insert(h.finish());
        if let Some(rk) = refkey {
            self.stats.compared_reference += 1;
            let rty = if self.inst.spec.num { Ty::I64 } else { self.inst.ty };
            match check(rty, &exp[rk], &got, self.inst.spec.joined) {
                Verdict::Ok => {}
                Verdict::ZeroDenominator => {
                    // a variance that is exactly 0 in the rationals; after retraction the engine's
                    // floating-point running moments need not be exactly 0: tolerated only there
                    if self.has_retract {
                        self.stats.zero_denominator_tolerated += 1;
                    } else {
                        self.violation(step, format!("expected NULL / 0 (zero variance), engine returned {}", got.show()), contents, rk);
                    }
                }
                Verdict::Bad(m) => self.violation(step, m, contents, rk),
            }
        } else {
            self.stats.compared_self += 1;
            let key = format!("{}|{}", self.inst.label, contents_key(self.inst, contents));
            let here = format!("case {} step {} path {}", self.case_idx, step, self.path);
            match self.selfmap.get(&key) {
                None => {
                    self.selfmap.insert(key, (got, here));
                }
                Some((prev, wher)) => {
                    if !norm_eq(prev, &got) {
                        let m = format!(
                            "not a function of the contents: {} here, {} at {wher} for the same contents",
                            got.show(),
                            prev.show()
                        );
                        self.violation(step, m, contents, "self-consistency");
                    }
                }
            }
        }
    }

    fn violation(&mut self, step: usize, msg: String, contents: &Value, refkey: &str) {
        let n = self.violations.iter().filter(|v| v["instance"] == self.inst.label.as_str() && v["path"] == self.path).count();
        if n < 2 {
            self.violations.push(json!({
                "kind": "C07", "instance": self.inst.label, "path": self.path, "case_index": self.case_idx,
                "step": step, "reference": refkey, "contents": contents, "message": msg,
            }));
        } else if n < 50 {
            self.violations.push(json!({"kind": "C07", "instance": self.inst.label, "path": self.path, "case_index": self.case_idx, "message": "more"}));
        }
    }
}

type R<T> = Result<T, String>;
fn es<T, E: std::fmt::Display>(r: Result<T, E>) -> R<T> {
    r.map_err(|e| e.to_string())
}

fn run_scalar(run: &mut Runner, case: &Value, sliding: bool) -> R<()> {
    let na = case["na"].as_u64().unwrap() as usize;
    let inst = run.inst;
    let mut accs: Vec<Box<dyn Accumulator>> = vec![];
    for _ in 0..na {
        accs.push(if sliding { es(inst.expr.create_sliding_accumulator())? } else { es(inst.expr.create_accumulator())? });
    }
    let hist = case["hist"].as_array().unwrap();
    for (step, op) in hist.iter().enumerate() {
        let a = op["a"].as_u64().unwrap() as usize - 1;
        match op["op"].as_str().unwrap() {
            "update" => {
                let rows = op["rows"].as_array().unwrap();
                es(accs[a].update_batch(&cols(inst, rows)))?;
            }
            "retract" => {
                let rows = op["rows"].as_array().unwrap();
                es(accs[a].retract_batch(&cols(inst, rows)))?;
            }
            "merge" => {
                let srcs: Vec<usize> = op["b"].as_array().unwrap().iter().map(|x| x.as_u64().unwrap() as usize - 1).collect();
                let mut states: Vec<Vec<ScalarValue>> = vec![];
                for sidx in srcs {
                    states.push(es(accs[sidx].state())?);
                }
                let nf = states[0].len();
                let mut arrays = vec![];
                for f in 0..nf {
                    arrays.push(es(ScalarValue::iter_to_array(states.iter().map(|st| st[f].clone())))?);
                }
                es(accs[a].merge_batch(&arrays))?;
            }
            "eval" => {
                let v = es(accs[a].evaluate())?;
                run.verdict(step, &op["expect"][0], &op["ev"][0], norm_scalar(&v));
            }
            o => return Err(format!("harness: unknown op {o}")),
        }
    }
    for a in 0..na {
        let f = &case["final"][a];
        if f.as_array().map(|x| x.is_empty()).unwrap_or(true) {
            continue;
        }
        let v = es(accs[a].evaluate())?;
        run.verdict(hist.len() + a, &f[0], &case["finalrows"][a], norm_scalar(&v));
    }
    Ok(())
}

fn run_groups(run: &mut Runner, case: &Value, native: bool) -> R<()> {
    let na = case["na"].as_u64().unwrap() as usize;
    let inst = run.inst;
    let mut accs: Vec<Box<dyn GroupsAccumulator>> = vec![];
    for _ in 0..na {
        if native {
            accs.push(es(inst.expr.create_groups_accumulator())?);
        } else {
            let e = Arc::clone(&inst.expr);
            accs.push(Box::new(GroupsAccumulatorAdapter::new(move || e.create_accumulator())));
        }
    }
    let hist = case["hist"].as_array().unwrap();
    let idx = |v: &Value| -> Vec<usize> { v.as_array().unwrap().iter().map(|x| x.as_u64().unwrap() as usize).collect() };
    for (step, op) in hist.iter().enumerate() {
        let a = op["a"].as_u64().unwrap() as usize - 1;
        match op["op"].as_str().unwrap() {
            "gupdate" => {
                let rows = op["rows"].as_array().unwrap();
                let flt = filter_of(op["flt"].as_array().unwrap());
                es(accs[a].update_batch(&cols(inst, rows), &idx(&op["gidx"]), flt.as_ref(), op["total"].as_u64().unwrap() as usize))?;
            }
            "geval" => {
                let arr = es(accs[a].evaluate(emit_of(op["emit"].as_i64().unwrap())))?;
                let exp = op["expect"].as_array().unwrap();
                if arr.len() != exp.len() {
                    run.violation(step, format!("evaluate(emit) returned {} rows for {} groups", arr.len(), exp.len()), &op["ev"], "row count");
                    return Ok(());
                }
                for g in 0..exp.len() {
                    run.verdict(step, &exp[g], &op["ev"][g], norm_at(&arr, g));
                }
            }
            "gmerge" => {
                let b = op["b"][0].as_u64().unwrap() as usize - 1;
                let st = es(accs[b].state(emit_of(op["emit"].as_i64().unwrap())))?;
                let gi = idx(&op["gidx"]);
                if st.iter().any(|c| c.len() != gi.len()) {
                    run.violation(step, format!("state(emit) returned {} rows for {} groups", st[0].len(), gi.len()), &json!([]), "row count");
                    return Ok(());
                }
                es(accs[a].merge_batch(&st, &gi, op["total"].as_u64().unwrap() as usize))?;
            }
            "gconvert" => {
                let b = op["b"][0].as_u64().unwrap() as usize - 1;
                let rows = op["rows"].as_array().unwrap();
                let flt = filter_of(op["flt"].as_array().unwrap());
                let st = es(accs[b].convert_to_state(&cols(inst, rows), flt.as_ref()))?;
                let gi = idx(&op["gidx"]);
                if st.iter().any(|c| c.len() != gi.len()) {
                    run.violation(step, format!("convert_to_state returned {} rows for {} input rows", st[0].len(), gi.len()), &json!([]), "row count");
                    return Ok(());
                }
                es(accs[a].merge_batch(&st, &gi, op["total"].as_u64().unwrap() as usize))?;
            }
            o => return Err(format!("harness: unknown op {o}")),
        }
    }
    for a in 0..na {
        let f = case["final"][a].as_array().unwrap();
        if f.is_empty() {
            continue;
        }
        let arr = es(accs[a].evaluate(EmitTo::All))?;
        if arr.len() != f.len() {
            run.violation(hist.len() + a, format!("evaluate(All) returned {} rows for {} groups", arr.len(), f.len()), &case["finalrows"][a], "row count");
            continue;
        }
        for g in 0..f.len() {
            run.verdict(hist.len() + a, &f[g], &case["finalrows"][a][g], norm_at(&arr, g));
        }
    }
    Ok(())
}

pub fn main() {
    let inp = util::arg("--in").expect("--in");
    let outp = util::arg("--out").expect("--out");
    let only = util::arg("--only");
    let corrupt = util::has_flag("--selftest-corrupt");
    let cases = util::read_ndjson(&inp);
    let mut report = vec![];
    let insts = instances(&mut report);
    let mut stats = Stats::default();
    let mut selfmap: HashMap<String, (Norm, String)> = HashMap::new();
    let mut violations: Vec<Value> = vec![];
    let mut tool_errors: Vec<String> = vec![];
    let mut engine_error_samples: BTreeMap<String, String> = BTreeMap::new();
    // silence panic messages of the code under test (they are data)
    static LAST_PANIC: std::sync::Mutex<String> = std::sync::Mutex::new(String::new());
    std::panic::set_hook(Box::new(|info| {
        *LAST_PANIC.lock().unwrap() = format!("{info}").chars().take(400).collect();
    }));
    for (ci, case) in cases.iter().enumerate() {
        let mode = case["mode"].as_str().unwrap();
        let has_retract = mode == "slide";
        for inst in &insts {
            if let Some(o) = &only {
                if !inst.label.contains(o.as_str()) {
                    continue;
                }
            }
            let paths: Vec<&'static str> = match mode {
                "merge" => vec!["scalar"],
                "slide" => if inst.has_sliding { vec!["sliding"] } else { vec![] },
                "groups" => if inst.has_groups { vec!["groups", "adapter"] } else { vec!["adapter"] },
                _ => vec![],
            };
            if paths.is_empty() {
                stats.histories_skipped += 1;
            }
            for path in paths {
                let mut run = Runner {
                    inst,
                    path,
                    case_idx: case["idx"].as_u64().unwrap_or(ci as u64) as usize,
                    stats: &mut stats,
                    selfmap: &mut selfmap,
                    violations: &mut violations,
                    has_retract,
                    corrupt,
                };
                let r = catch_unwind(AssertUnwindSafe(|| match path {
                    "scalar" => run_scalar(&mut run, case, false),
                    "sliding" => run_scalar(&mut run, case, true),
                    "groups" => run_groups(&mut run, case, true),
                    _ => run_groups(&mut run, case, false),
                }));
                stats.histories_run += 1;
                match r {
                    Ok(Ok(())) => {}
                    Ok(Err(e)) if e.starts_with("harness:") => tool_errors.push(e),
                    Ok(Err(e)) => {
                        // an engine error on a legal history: the accumulator contract was not met
                        stats.engine_errors += 1;
                        engine_error_samples.entry(format!("{} {}", inst.label, path)).or_insert(e.clone());
                        violations.push(json!({"kind": "C07", "instance": inst.label, "path": path,
                            "case_index": case["idx"].as_u64().unwrap_or(ci as u64),
                            "message": format!("engine error on a legal history: {e}")}));
                    }
                    Err(_) => {
                        stats.engine_errors += 1;
                        violations.push(json!({"kind": "C07", "instance": inst.label, "path": path,
                            "case_index": case["idx"].as_u64().unwrap_or(ci as u64),
                            "message": format!("panic in the accumulator on a legal history: {}", LAST_PANIC.lock().unwrap())}));
                    }
                }
            }
        }
    }
    let _ = std::panic::take_hook();
    for v in violations.iter() {
        if v["message"].as_str().map(|m| m.starts_with("harness:")).unwrap_or(false) {
            tool_errors.push(v["message"].as_str().unwrap().to_string());
        }
    }
    let res = json!({
        "cases": cases.len(),
        "instances": insts.len(),
        "instances_with_reference": insts.iter().filter(|i| i.spec.reference.is_some()).count(),
        "instances_sliding": insts.iter().filter(|i| i.has_sliding).count(),
        "instances_native_groups": insts.iter().filter(|i| i.has_groups).count(),
        "functions": report,
        "evaluations": stats.evaluations,
        "compared_reference": stats.compared_reference,
        "compared_self_consistency": stats.compared_self,
        "zero_denominator_tolerated": stats.zero_denominator_tolerated,
        "histories_run": stats.histories_run,
        "histories_skipped_no_such_path": stats.histories_skipped,
        "engine_errors": stats.engine_errors,
        "engine_error_samples": engine_error_samples,
        "per_path": stats.per_path,
        "per_instance": stats.per_instance,
        "distinct_nontrivial": stats.distinct_cases.len(),
        "violations": violations,
        "tool_errors": tool_errors,
    });
    std::fs::write(&outp, serde_json::to_string(&res).unwrap()).unwrap();
    util::summary(json!({"cases": cases.len(), "instances": insts.len(), "evaluations": stats.evaluations,
        "violations": res["violations"].as_array().unwrap().len(), "tool_errors": res["tool_errors"].as_array().unwrap().len()}));
}
