//! C09 — window functions match their frame definitions under every executor.
//! Cases (tables + per-row reference values of every function for seeded legal frames) come from TLC
//! (spec/ops2/WindowGen.tla, reference spec/lib/Window.tla).  Each case is executed through SQL `OVER (...)`
//! on sorted and unsorted MemTables, with and without an extra UNBOUNDED FOLLOWING window in the same group
//! (which forces WindowAggExec instead of BoundedWindowAggExec), x batch sizes x input/target partitions,
//! plus the window-TopN (`WHERE rn <= k`) and LIMIT shapes.  Per-row results are compared with the spec.
use crate::vals::*;
use arrow::datatypes::{DataType, Field, Schema, SchemaRef};
use arrow::record_batch::RecordBatch;
use datafusion::datasource::MemTable;
use datafusion::execution::context::SessionContext;
use datafusion::prelude::SessionConfig;
use datafusion_expr::SortExpr;
use datafusion_physical_plan::{collect, displayable};
use futures::FutureExt;
use rand::rngs::StdRng;
use rand::{Rng, SeedableRng};
use serde_json::{Value, json};
use std::collections::{BTreeMap, HashMap};
use std::panic::AssertUnwindSafe;
use std::sync::Arc;
use vcommon::util;

fn schema(xt: Ty) -> SchemaRef {
    Arc::new(Schema::new(vec![
        Field::new("id", DataType::Int64, false),
        Field::new("p", DataType::Int64, true),
        Field::new("o", DataType::Int64, true),
        Field::new("x", xt.data_type(), true),
    ]))
}

fn batch_of(xt: Ty, rows: &[&Value]) -> RecordBatch {
    let ids: Vec<Option<i64>> = rows.iter().map(|r| r["id"].as_i64()).collect();
    let c = |k: &str| rows.iter().map(|r| mv(&r[k])).collect::<Vec<_>>();
    RecordBatch::try_new(
        schema(xt),
        vec![mk_array(Ty::I64, &ids), mk_array(Ty::I64, &c("p")), mk_array(Ty::I64, &c("o")), mk_array(xt, &c("x"))],
    )
    .unwrap()
}

fn bound_sql(b: &Value) -> String {
    let n = b["n"].as_i64().unwrap();
    match b["k"].as_str().unwrap() {
        "UP" => "UNBOUNDED PRECEDING".into(),
        "UF" => "UNBOUNDED FOLLOWING".into(),
        "C" => "CURRENT ROW".into(),
        "P" => format!("{n} PRECEDING"),
        "F" => format!("{n} FOLLOWING"),
        o => panic!("harness: bound {o}"),
    }
}

fn frame_sql(f: &Value) -> String {
    format!("{} BETWEEN {} AND {}", f["units"].as_str().unwrap(), bound_sql(&f["s"]), bound_sql(&f["e"]))
}

/// (reference key, SQL call with {W} for the window, result is a number regardless of x's type)
fn frame_calls(total: bool) -> Vec<(&'static str, &'static str, bool)> {
    let mut v = vec![
        ("sum", "sum(x) OVER ({W})", false),
        ("count", "count(x) OVER ({W})", true),
        ("count_star", "count(*) OVER ({W})", true),
        ("avg", "avg(x) OVER ({W})", false),
        ("min", "min(x) OVER ({W})", false),
        ("max", "max(x) OVER ({W})", false),
    ];
    if total {
        v.extend([
            ("first_value", "first_value(x) OVER ({W})", false),
            ("last_value", "last_value(x) OVER ({W})", false),
            ("nth_value_2", "nth_value(x, 2) OVER ({W})", false),
            ("first_value_in", "first_value(x) IGNORE NULLS OVER ({W})", false),
            ("last_value_in", "last_value(x) IGNORE NULLS OVER ({W})", false),
            ("nth_value_2_in", "nth_value(x, 2) IGNORE NULLS OVER ({W})", false),
        ]);
    }
    v
}

fn pos_calls(total: bool) -> Vec<(&'static str, &'static str, bool)> {
    let mut v = vec![
        ("rank", "rank() OVER ({W})", true),
        ("dense_rank", "dense_rank() OVER ({W})", true),
        ("percent_rank", "percent_rank() OVER ({W})", true),
        ("cume_dist", "cume_dist() OVER ({W})", true),
    ];
    if total {
        v.extend([
            ("row_number", "row_number() OVER ({W})", true),
            ("ntile_1", "ntile(1) OVER ({W})", true),
            ("ntile_2", "ntile(2) OVER ({W})", true),
            ("ntile_3", "ntile(3) OVER ({W})", true),
            ("lag_0", "lag(x, 0) OVER ({W})", false),
            ("lag_1", "lag(x, 1) OVER ({W})", false),
            ("lag_2", "lag(x, 2) OVER ({W})", false),
            ("lag_1_d", "lag(x, 1, 7) OVER ({W})", false),
            ("lead_0", "lead(x, 0) OVER ({W})", false),
            ("lead_1", "lead(x) OVER ({W})", false),
            ("lead_2", "lead(x, 2) OVER ({W})", false),
            ("lead_2_d", "lead(x, 2, 7) OVER ({W})", false),
        ]);
    }
    v
}

struct RunCfg {
    xt: Ty,
    bs: usize,
    src_bs: usize,
    parts: usize,
    target: usize,
    sorted: bool,
    force_unbounded: bool,
}

#[derive(Default)]
struct Stats {
    executions: u64,
    values_compared: u64,
    bounded: u64,
    plain: u64,
    both: u64,
    sorted_source_no_sort: u64,
    per_shape: BTreeMap<String, u64>,
    per_units: BTreeMap<String, u64>,
    engine_rejected: u64,
    distinct: std::collections::HashSet<u64>,
}

fn order_sql(total: bool, desc: bool) -> String {
    let d = if desc { " DESC" } else { "" };
    if total { format!("o{d}, id{d}") } else { format!("o{d}") }
}

#[allow(clippy::too_many_arguments)]
fn run_query(
    rt: &tokio::runtime::Runtime,
    tbl: &[Value],
    cfg: &RunCfg,
    sql: &str,
    total: bool,
    desc: bool,
    rng: &mut StdRng,
) -> Result<(String, Vec<RecordBatch>), String> {
    let sc = SessionConfig::new().with_batch_size(cfg.bs).with_target_partitions(cfg.target);
    let ctx = SessionContext::new_with_config(sc);
    let sch = schema(cfg.xt);
    let mut rows: Vec<&Value> = tbl.iter().collect();
    let mt = if cfg.sorted {
        // one partition, physically sorted like the window needs, and declared so
        let key = |r: &Value, k: &str| mv(&r[k]).unwrap_or(99);
        rows.sort_by_key(|r| {
            let o = if desc { -key(r, "o") } else { key(r, "o") };
            let id = if desc { -r["id"].as_i64().unwrap() } else { r["id"].as_i64().unwrap() };
            (key(r, "p"), o, id)
        });
        let batches: Vec<RecordBatch> = rows.chunks(cfg.src_bs.max(1)).map(|c| batch_of(cfg.xt, c)).collect();
        let se = |c: &str, asc: bool| SortExpr::new(datafusion::prelude::col(c), asc, !asc);
        let mut order = vec![se("p", true), se("o", !desc)];
        if total {
            order.push(se("id", !desc));
        }
        MemTable::try_new(sch, vec![batches]).map_err(|e| format!("harness: {e}"))?.with_sort_order(vec![order])
    } else {
        let mut ps: Vec<Vec<&Value>> = vec![vec![]; cfg.parts];
        for r in rows {
            ps[rng.random_range(0..cfg.parts)].push(r);
        }
        let data: Vec<Vec<RecordBatch>> = ps
            .iter()
            .map(|p| if p.is_empty() { vec![RecordBatch::new_empty(Arc::clone(&sch))] } else { p.chunks(cfg.src_bs.max(1)).map(|c| batch_of(cfg.xt, c)).collect() })
            .collect();
        MemTable::try_new(sch, data).map_err(|e| format!("harness: {e}"))?
    };
    ctx.register_table("t", Arc::new(mt)).map_err(|e| format!("harness: {e}"))?;
    let res = rt.block_on(async {
        AssertUnwindSafe(async {
            let pe = |e: datafusion_common::DataFusionError| datafusion_common::DataFusionError::Plan(format!("PLANNING: {e}"));
            let df = ctx.sql(sql).await.map_err(pe)?;
            let plan = df.create_physical_plan().await.map_err(pe)?;
            let text = displayable(plan.as_ref()).indent(false).to_string();
            let batches = collect(plan, ctx.task_ctx()).await?;
            Ok::<_, datafusion_common::DataFusionError>((text, batches))
        })
        .catch_unwind()
        .await
    });
    match res {
        Err(_) => Err("panic during execution".into()),
        Ok(Err(e)) => Err(format!("execution failed: {e}")),
        Ok(Ok(x)) => Ok(x),
    }
}

/// compare every selected column of every output row with the reference record of that row id
fn compare(
    xt: Ty,
    calls: &[(&'static str, &'static str, bool)],
    expected: &HashMap<i64, &Value>,
    batches: &[RecordBatch],
    want_ids: Option<&[i64]>,
    exact_rows: Option<usize>,
    stats: &mut Stats,
) -> Result<(), String> {
    let mut seen = vec![];
    for b in batches {
        for r in 0..b.num_rows() {
            let id = match norm_at(b.column(0), r) {
                Norm::Int(i) => i,
                o => return Err(format!("harness: id column {o:?}")),
            };
            if seen.contains(&id) {
                return Err(format!("row id {id} output twice"));
            }
            seen.push(id);
            let Some(exp) = expected.get(&id) else { return Err(format!("row id {id} is not a row of the input")) };
            for (ci, (key, _, num)) in calls.iter().enumerate() {
                let got = norm_at(b.column(ci + 1), r);
                let ty = if *num { Ty::I64 } else { xt };
                stats.values_compared += 1;
                match check(ty, &exp[*key], &got, false) {
                    Verdict::Ok => {}
                    Verdict::ZeroDenominator => return Err(format!("row id {id}, {key}: expected NULL, engine returned {}", got.show())),
                    Verdict::Bad(m) => return Err(format!("row id {id}, {key}: {m}")),
                }
            }
        }
    }
    if let Some(w) = want_ids {
        let mut a = seen.clone();
        a.sort();
        let mut b = w.to_vec();
        b.sort();
        if a != b {
            return Err(format!("rows returned {a:?}, expected exactly the rows {b:?}"));
        }
    }
    if let Some(n) = exact_rows {
        if seen.len() != n {
            return Err(format!("{} rows returned, expected {n}", seen.len()));
        }
    }
    Ok(())
}

pub fn main() {
    let inp = util::arg("--in").expect("--in");
    let outp = util::arg("--out").expect("--out");
    let per_case: usize = util::arg("--per-case").and_then(|s| s.parse().ok()).unwrap_or(10);
    let corrupt = util::has_flag("--selftest-corrupt");
    let cases = util::read_ndjson(&inp);
    let seed = util::seed();
    let rt = tokio::runtime::Builder::new_multi_thread().worker_threads(2).enable_all().build().unwrap();
    let mut stats = Stats::default();
    let mut violations: Vec<Value> = vec![];
    let mut tool_errors: Vec<String> = vec![];
    let mut rejected_samples: BTreeMap<String, String> = BTreeMap::new();
    std::panic::set_hook(Box::new(|_| {}));
    let mut rot = seed as usize;
    for (ci, case) in cases.iter().enumerate() {
        let tbl = case["tbl"].as_array().unwrap();
        let mut rng = StdRng::seed_from_u64(seed.wrapping_mul(1_000_003).wrapping_add(ci as u64));
        let variants = case["variants"].as_array().unwrap();
        for it in 0..per_case {
            rot += 1;
            let var = &variants[rng.random_range(0..variants.len())];
            let total = var["total"].as_bool().unwrap();
            let desc = var["desc"].as_bool().unwrap();
            let cfg = RunCfg {
                xt: if rng.random_bool(0.3) { Ty::F64 } else { Ty::I64 },
                bs: [1usize, 2, 8192][rng.random_range(0..3)],
                src_bs: [1usize, 2, 8192][rng.random_range(0..3)],
                parts: rng.random_range(1..=3),
                target: rng.random_range(1..=3),
                sorted: rng.random_bool(0.4),
                force_unbounded: rng.random_bool(0.4),
            };
            let w = format!("PARTITION BY p ORDER BY {}", order_sql(total, desc));
            let forcer = if cfg.force_unbounded { format!(", count(*) OVER ({w} ROWS BETWEEN UNBOUNDED PRECEDING AND UNBOUNDED FOLLOWING) AS forcer") } else { String::new() };
            // which shape
            let shape = ["frame", "frame", "frame", "frame", "pos", "pos", "topn", "limit"][(rot + it + rng.random_range(0..8)) % 8];
            let frames = var["frames"].as_array().unwrap();
            let (sql, calls, exp_list, want_ids, exact_rows, units): (String, Vec<(&str, &str, bool)>, &Value, Option<Vec<i64>>, Option<usize>, String) = match shape {
                "frame" if !frames.is_empty() => {
                    let fr = &frames[rng.random_range(0..frames.len())];
                    let wf = format!("{w} {}", frame_sql(&fr["f"]));
                    let mut calls = frame_calls(total);
                    // a random non-empty subset keeps plans varied
                    let keep: Vec<bool> = calls.iter().map(|_| rng.random_bool(0.7)).collect();
                    let mut k = 0;
                    calls.retain(|_| {
                        k += 1;
                        keep[k - 1]
                    });
                    if calls.is_empty() {
                        calls = frame_calls(total)[..1].to_vec();
                    }
                    let cols = calls.iter().map(|(k, s, _)| format!("{} AS {k}", s.replace("{W}", &wf))).collect::<Vec<_>>().join(", ");
                    (format!("SELECT id, {cols}{forcer} FROM t"), calls, &fr["res"], None, Some(tbl.len()), fr["f"]["units"].as_str().unwrap().to_string())
                }
                "topn" if total => {
                    let k = rng.random_range(1..=3i64);
                    let calls = vec![("row_number", "", true)];
                    let ids: Vec<i64> = var["tot"].as_array().unwrap().iter().filter(|e| e["r"]["row_number"]["v"].as_i64().unwrap() <= k).map(|e| e["id"].as_i64().unwrap()).collect();
                    (format!("SELECT id, rn FROM (SELECT id, row_number() OVER ({w}) AS rn FROM t) WHERE rn <= {k}"), calls, &var["tot"], Some(ids), None, "topn".into())
                }
                "limit" if total => {
                    let k = rng.random_range(1..=4usize);
                    let calls: Vec<(&str, &str, bool)> = pos_calls(true).into_iter().filter(|c| ["row_number", "lag_1", "lead_1"].contains(&c.0)).collect();
                    let cols = calls.iter().map(|(k, s, _)| format!("{} AS {k}", s.replace("{W}", &w))).collect::<Vec<_>>().join(", ");
                    (format!("SELECT id, {cols} FROM t LIMIT {k}"), calls, &var["tot"], None, Some(k.min(tbl.len())), "limit".into())
                }
                _ => {
                    // a random non-empty subset: rank-only plans stay streaming, percent_rank/cume_dist/ntile need the partition
                    let mut calls = pos_calls(total);
                    let keep: Vec<bool> = calls.iter().map(|_| rng.random_bool(0.5)).collect();
                    let mut k = 0;
                    calls.retain(|_| {
                        k += 1;
                        keep[k - 1]
                    });
                    if calls.is_empty() {
                        calls = pos_calls(total)[..1].to_vec();
                    }
                    let cols = calls.iter().map(|(k, s, _)| format!("{} AS {k}", s.replace("{W}", &w))).collect::<Vec<_>>().join(", ");
                    // pos and tot records are merged per id below
                    (format!("SELECT id, {cols}{forcer} FROM t"), calls, &var["pos"], None, Some(tbl.len()), "pos".into())
                }
            };
            // expected per id (pos + tot merged where both exist)
            let mut merged: HashMap<i64, Value> = HashMap::new();
            for e in exp_list.as_array().unwrap() {
                merged.insert(e["id"].as_i64().unwrap(), e["r"].clone());
            }
            if units == "pos" && total {
                for e in var["tot"].as_array().unwrap() {
                    let id = e["id"].as_i64().unwrap();
                    if let Some(m) = merged.get_mut(&id) {
                        for (k, v) in e["r"].as_object().unwrap() {
                            m[k] = v.clone();
                        }
                    }
                }
            }
            let expected: HashMap<i64, &Value> = merged.iter().map(|(k, v)| (*k, v)).collect();
            let res = run_query(&rt, tbl, &cfg, &sql, total, desc, &mut rng);
            stats.executions += 1;
            *stats.per_shape.entry(if units == "ROWS" || units == "RANGE" || units == "GROUPS" { format!("frame {units}") } else { units.clone() }).or_default() += 1;
            let describe = |msg: String, plan: &str| {
                json!({"kind": "C09", "sql": sql, "x_type": cfg.xt.name(), "batch_size": cfg.bs, "source_batch_size": cfg.src_bs,
                "source_partitions": cfg.parts, "target_partitions": cfg.target, "sorted_source": cfg.sorted, "message": msg, "plan": plan,
                "case_index": case["idx"].as_u64().unwrap_or(ci as u64), "seed": seed})
            };
            match res {
                Err(e) if e.starts_with("harness:") => tool_errors.push(e),
                Err(e) => {
                    if e.contains("panic") || !e.contains("PLANNING:") {
                        violations.push(describe(e, ""));
                    } else {
                        // a planning-time rejection of a frame the engine does not support is not a wrong result
                        stats.engine_rejected += 1;
                        rejected_samples.entry(e.chars().take(90).collect()).or_insert(sql.clone());
                    }
                }
                Ok((text, mut batches)) => {
                    let has_b = text.contains("BoundedWindowAggExec");
                    let has_p = text.replace("BoundedWindowAggExec", "").contains("WindowAggExec");
                    if has_b {
                        stats.bounded += 1;
                    }
                    if has_p {
                        stats.plain += 1;
                    }
                    if has_b && has_p {
                        stats.both += 1;
                    }
                    if cfg.sorted && !text.contains("SortExec") {
                        stats.sorted_source_no_sort += 1;
                    }
                    *stats.per_units.entry(format!("{} {}", units, if has_b { "bounded" } else { "whole-partition" })).or_default() += 1;
                    if corrupt && !batches.is_empty() && batches[0].num_rows() > 0 {
                        let b = batches[0].slice(0, batches[0].num_rows() - 1);
                        batches[0] = b;
                    }
                    use std::hash::{Hash, Hasher};
                    let mut h = std::collections::hash_map::DefaultHasher::new();
                    (&sql, cfg.xt.name(), cfg.bs, cfg.src_bs, cfg.parts, cfg.target, cfg.sorted, case["tbl"].to_string()).hash(&mut h);
                    stats.distinct.insert(h.finish());
                    if let Err(m) = compare(cfg.xt, &calls, &expected, &batches, want_ids.as_deref(), exact_rows, &mut stats) {
                        if m.starts_with("harness:") {
                            tool_errors.push(m);
                        } else {
                            violations.push(describe(m, &text));
                        }
                    }
                }
            }
        }
    }
    let _ = std::panic::take_hook();
    let res = json!({
        "cases": cases.len(),
        "evaluations": stats.executions,
        "values_compared": stats.values_compared,
        "plans_with_BoundedWindowAggExec": stats.bounded,
        "plans_with_WindowAggExec": stats.plain,
        "plans_with_both": stats.both,
        "sorted_source_plans_without_SortExec": stats.sorted_source_no_sort,
        "per_shape": stats.per_shape,
        "per_units_and_executor": stats.per_units,
        "engine_rejected_at_planning": stats.engine_rejected,
        "engine_rejected_samples": rejected_samples,
        "distinct_nontrivial": stats.distinct.len(),
        "violations": violations,
        "tool_errors": tool_errors,
    });
    std::fs::write(&outp, serde_json::to_string(&res).unwrap()).unwrap();
    util::summary(json!({"cases": cases.len(), "evaluations": stats.executions, "violations": res["violations"].as_array().unwrap().len(),
        "tool_errors": res["tool_errors"].as_array().unwrap().len()}));
}
