//! C09 — window functions match their frame definitions under every executor.
//! Cases (tables + per-row reference values of every function for seeded legal frames) come from TLC
//! (spec/ops2/WindowGen.tla, reference spec/lib/Window.tla).  Each case is executed through SQL `OVER (...)`
//! on sorted and unsorted MemTables, with and without an extra UNBOUNDED FOLLOWING window in the same group
//! (which forces WindowAggExec instead of BoundedWindowAggExec), x batch sizes x input/target partitions,
//! plus the window-TopN (`WHERE rn <= k`) and LIMIT shapes.  Per-row results are compared with the spec.
use crate::vals::*;
use arrow::datatypes::{DataType, Field, Schema, SchemaRef};
use arrow::record_batch::RecordBatch;
use datafusion::datasource::MemTable;
use datafusion::execution::context::SessionContext;
use datafusion::prelude::SessionConfig;
use datafusion_expr::SortExpr;
use datafusion_datasource::memory::MemorySourceConfig;
use datafusion_datasource::source::DataSourceExec;
use datafusion_execution::TaskContext;
use datafusion_physical_expr::expressions::Column;
use datafusion_physical_expr::{LexOrdering, PhysicalSortExpr};
use datafusion_physical_plan::projection::ProjectionExec;
use datafusion_physical_plan::windows::{BoundedWindowAggExec, WindowAggExec, get_window_mode};
use datafusion_physical_plan::{ExecutionPlan, InputOrderMode, collect, displayable};
use futures::FutureExt;
use rand::rngs::StdRng;
use rand::{Rng, SeedableRng};
use serde_json::{Value, json};
use std::collections::{BTreeMap, HashMap};
use std::panic::AssertUnwindSafe;
use std::sync::Arc;
use vcommon::util;

fn schema(xt: Ty) -> SchemaRef {
    Arc::new(Schema::new(vec![
        Field::new("id", DataType::Int64, false),
        Field::new("p", DataType::Int64, true),
        Field::new("a", DataType::Int64, true),
        Field::new("b", DataType::Int64, true),
        Field::new("o", DataType::Int64, true),
        Field::new("x", xt.data_type(), true),
    ]))
}

fn batch_of(xt: Ty, rows: &[&Value]) -> RecordBatch {
    let ids: Vec<Option<i64>> = rows.iter().map(|r| r["id"].as_i64()).collect();
    let c = |k: &str| rows.iter().map(|r| mv(&r[k])).collect::<Vec<_>>();
    // (a, b) = (p div 2, p mod 2): PARTITION BY a, b is the same partitioning as PARTITION BY p
    let a: Vec<Option<i64>> = c("p").iter().map(|v| v.map(|x| x / 2)).collect();
    let b: Vec<Option<i64>> = c("p").iter().map(|v| v.map(|x| x % 2)).collect();
    RecordBatch::try_new(
        schema(xt),
        vec![mk_array(Ty::I64, &ids), mk_array(Ty::I64, &c("p")), mk_array(Ty::I64, &a), mk_array(Ty::I64, &b), mk_array(Ty::I64, &c("o")), mk_array(xt, &c("x"))],
    )
    .unwrap()
}

fn bound_sql(b: &Value) -> String {
    let n = b["n"].as_i64().unwrap();
    match b["k"].as_str().unwrap() {
        "UP" => "UNBOUNDED PRECEDING".into(),
        "UF" => "UNBOUNDED FOLLOWING".into(),
        "C" => "CURRENT ROW".into(),
        "P" => format!("{n} PRECEDING"),
        "F" => format!("{n} FOLLOWING"),
        o => panic!("harness: bound {o}"),
    }
}

fn frame_sql(f: &Value) -> String {
    format!("{} BETWEEN {} AND {}", f["units"].as_str().unwrap(), bound_sql(&f["s"]), bound_sql(&f["e"]))
}

/// (reference key, SQL call with {W} for the window, result is a number regardless of x's type)
fn frame_calls(total: bool) -> Vec<(&'static str, &'static str, bool)> {
    let mut v = vec![
        ("sum", "sum(x) OVER ({W})", false),
        ("count", "count(x) OVER ({W})", true),
        ("count_star", "count(*) OVER ({W})", true),
        ("avg", "avg(x) OVER ({W})", false),
        ("min", "min(x) OVER ({W})", false),
        ("max", "max(x) OVER ({W})", false),
    ];
    if total {
        v.extend([
            ("first_value", "first_value(x) OVER ({W})", false),
            ("last_value", "last_value(x) OVER ({W})", false),
            ("nth_value_2", "nth_value(x, 2) OVER ({W})", false),
            ("first_value_in", "first_value(x) IGNORE NULLS OVER ({W})", false),
            ("last_value_in", "last_value(x) IGNORE NULLS OVER ({W})", false),
            ("nth_value_2_in", "nth_value(x, 2) IGNORE NULLS OVER ({W})", false),
            ("nth_value_m1", "nth_value(x, -1) OVER ({W})", false),
            ("nth_value_m2", "nth_value(x, -2) OVER ({W})", false),
        ]);
    }
    v
}

fn pos_calls(total: bool) -> Vec<(&'static str, &'static str, bool)> {
    let mut v = vec![
        ("rank", "rank() OVER ({W})", true),
        ("dense_rank", "dense_rank() OVER ({W})", true),
        ("percent_rank", "percent_rank() OVER ({W})", true),
        ("cume_dist", "cume_dist() OVER ({W})", true),
    ];
    if total {
        v.extend([
            ("row_number", "row_number() OVER ({W})", true),
            ("ntile_1", "ntile(1) OVER ({W})", true),
            ("ntile_2", "ntile(2) OVER ({W})", true),
            ("ntile_3", "ntile(3) OVER ({W})", true),
            ("lag_0", "lag(x, 0) OVER ({W})", false),
            ("lag_1", "lag(x, 1) OVER ({W})", false),
            ("lag_2", "lag(x, 2) OVER ({W})", false),
            ("lag_1_d", "lag(x, 1, 7) OVER ({W})", false),
            ("lead_0", "lead(x, 0) OVER ({W})", false),
            ("lead_1", "lead(x) OVER ({W})", false),
            ("lead_2", "lead(x, 2) OVER ({W})", false),
            ("lead_2_d", "lead(x, 2, 7) OVER ({W})", false),
        ]);
    }
    v
}

struct RunCfg {
    xt: Ty,
    bs: usize,
    src_bs: usize,
    parts: usize,
    target: usize,
    sorted: bool,
    force_unbounded: bool,
    /// Some(mode): build the window operator directly over a source arranged for that input order mode
    direct: Option<&'static str>,
    part_ab: bool,
    /// enable the (off by default) WindowTopN optimizer rule
    topn_rule: bool,
}

#[derive(Default)]
struct Stats {
    executions: u64,
    values_compared: u64,
    bounded: u64,
    plain: u64,
    both: u64,
    sorted_source_no_sort: u64,
    per_shape: BTreeMap<String, u64>,
    per_units: BTreeMap<String, u64>,
    engine_rejected: u64,
    direct_skipped: u64,
    partitioned_topk: u64,
    limit_plans: u64,
    direct_skip_reasons: BTreeMap<String, u64>,
    per_mode: BTreeMap<String, u64>,
    per_mode_detail: BTreeMap<String, u64>,
    distinct: std::collections::HashSet<u64>,
}

fn order_sql(total: bool, desc: bool, nf: bool) -> String {
    let d = if desc { " DESC" } else { " ASC" };
    let n = if nf { " NULLS FIRST" } else { " NULLS LAST" };
    if total { format!("o{d}{n}, id{d}") } else { format!("o{d}{n}") }
}

/// sort keys of a row for the physical arrangement: ORDER BY o {dir} NULLS {first|last}, id {dir}
fn okey(r: &Value, desc: bool, nf: bool) -> i64 {
    match mv(&r["o"]) {
        None => if nf { -1000 } else { 1000 },
        Some(v) => if desc { -v } else { v },
    }
}
fn idkey(r: &Value, desc: bool) -> i64 {
    let id = r["id"].as_i64().unwrap();
    if desc { -id } else { id }
}

#[allow(clippy::too_many_arguments)]
fn run_query(
    rt: &tokio::runtime::Runtime,
    tbl: &[Value],
    cfg: &RunCfg,
    sql: &str,
    total: bool,
    desc: bool,
    nf: bool,
    rng: &mut StdRng,
) -> Result<(String, Vec<RecordBatch>), String> {
    let sc = SessionConfig::new()
        .with_batch_size(cfg.bs)
        .with_target_partitions(cfg.target)
        .set_bool("datafusion.optimizer.enable_window_topn", cfg.topn_rule);
    let ctx = SessionContext::new_with_config(sc);
    let sch = schema(cfg.xt);
    let mut rows: Vec<&Value> = tbl.iter().collect();
    let mt = if cfg.sorted {
        // one partition, physically sorted like the window needs, and declared so
        let key = |r: &Value, k: &str| mv(&r[k]).unwrap_or(99);
        rows.sort_by_key(|r| (key(r, "p"), okey(r, desc, nf), idkey(r, desc)));
        let batches: Vec<RecordBatch> = rows.chunks(cfg.src_bs.max(1)).map(|c| batch_of(cfg.xt, c)).collect();
        let se = |c: &str, asc: bool, nulls_first: bool| SortExpr::new(datafusion::prelude::col(c), asc, nulls_first);
        let mut order = vec![se("p", true, false), se("o", !desc, nf)];
        if total {
            order.push(se("id", !desc, false));
        }
        MemTable::try_new(sch, vec![batches]).map_err(|e| format!("harness: {e}"))?.with_sort_order(vec![order])
    } else {
        let mut ps: Vec<Vec<&Value>> = vec![vec![]; cfg.parts];
        for r in rows {
            ps[rng.random_range(0..cfg.parts)].push(r);
        }
        let data: Vec<Vec<RecordBatch>> = ps
            .iter()
            .map(|p| if p.is_empty() { vec![RecordBatch::new_empty(Arc::clone(&sch))] } else { p.chunks(cfg.src_bs.max(1)).map(|c| batch_of(cfg.xt, c)).collect() })
            .collect();
        MemTable::try_new(sch, data).map_err(|e| format!("harness: {e}"))?
    };
    ctx.register_table("t", Arc::new(mt)).map_err(|e| format!("harness: {e}"))?;
    let res = rt.block_on(async {
        AssertUnwindSafe(async {
            let pe = |e: datafusion_common::DataFusionError| datafusion_common::DataFusionError::Plan(format!("PLANNING: {e}"));
            let df = ctx.sql(sql).await.map_err(pe)?;
            let plan = df.create_physical_plan().await.map_err(pe)?;
            let text = displayable(plan.as_ref()).indent(false).to_string();
            let batches = collect(plan, ctx.task_ctx()).await?;
            Ok::<_, datafusion_common::DataFusionError>((text, batches))
        })
        .catch_unwind()
        .await
    });
    match res {
        Err(_) => Err("panic during execution".into()),
        Ok(Err(e)) => Err(format!("execution failed: {e}")),
        Ok(Ok(x)) => Ok(x),
    }
}


/// Build the window operator directly: the window expressions are the ones the planner makes for `sql`
/// (taken from the planned window node), the input is a single-partition source arranged for the requested
/// input order mode (Sorted: by partition keys, order key; PartiallySorted: by a, order key with PARTITION BY a, b;
/// Linear: by the order key only, partitions interleaved) and cut into seeded irregular batches.
/// Err("SKIP: ..") = the combination is not one the engine itself accepts (counted, not a verdict).
#[allow(clippy::too_many_arguments)]
fn run_direct(
    rt: &tokio::runtime::Runtime,
    tbl: &[Value],
    cfg: &RunCfg,
    mode: &str,
    sql: &str,
    calls: &mut Vec<(&'static str, &'static str, bool)>,
    total: bool,
    desc: bool,
    nf: bool,
    rng: &mut StdRng,
    cuts_desc: &mut String,
) -> Result<(String, Vec<RecordBatch>), String> {
    let sc = SessionConfig::new().with_batch_size(cfg.bs).with_target_partitions(1);
    let ctx = SessionContext::new_with_config(sc.clone());
    let sch = schema(cfg.xt);
    let all: Vec<&Value> = tbl.iter().collect();
    let mt = MemTable::try_new(Arc::clone(&sch), vec![vec![batch_of(cfg.xt, &all)]]).map_err(|e| format!("harness: {e}"))?;
    ctx.register_table("t", Arc::new(mt)).map_err(|e| format!("harness: {e}"))?;
    let planned = rt.block_on(async {
        AssertUnwindSafe(async {
            let df = ctx.sql(sql).await?;
            df.create_physical_plan().await
        })
        .catch_unwind()
        .await
    });
    let plan = match planned {
        Err(_) => return Err("panic during planning".into()),
        Ok(Err(e)) => return Err(format!("PLANNING: {e}")),
        Ok(Ok(p)) => p,
    };
    let Some(proj) = plan.downcast_ref::<ProjectionExec>() else { return Err("SKIP: planned plan has no top projection".into()) };
    let child = Arc::clone(proj.input());
    let exprs = if let Some(w) = child.downcast_ref::<BoundedWindowAggExec>() {
        if w.input().schema().fields() != sch.fields() {
            return Err("SKIP: window input schema differs from the table schema".into());
        }
        w.window_expr().to_vec()
    } else if let Some(w) = child.downcast_ref::<WindowAggExec>() {
        if w.input().schema().fields() != sch.fields() {
            return Err("SKIP: window input schema differs from the table schema".into());
        }
        w.window_expr().to_vec()
    } else {
        return Err("SKIP: projection is not directly above one window operator".into());
    };
    // alias -> output column of the window node
    let mut mapping: Vec<usize> = vec![];
    let mut kept = vec![];
    for c in calls.iter() {
        let hit = proj.expr().iter().find(|pe| pe.alias == c.0).and_then(|pe| pe.expr.downcast_ref::<Column>().map(|col| col.index()));
        if let Some(i) = hit {
            mapping.push(i);
            kept.push(*c);
        }
    }
    if kept.is_empty() {
        return Err("SKIP: no window column is projected unchanged".into());
    }
    *calls = kept;
    // arrangement of the rows
    let mut rows: Vec<&Value> = tbl.iter().collect();
    let pk = |r: &Value, k: &str| mv(&r[k]).unwrap_or(99);
    let tie: HashMap<i64, u32> = rows.iter().map(|r| (r["id"].as_i64().unwrap(), rng.random::<u32>())).collect();
    // under ORDER BY o alone the arrival order of peers is free: shuffle it (interleaves partitions differently)
    let last = |r: &Value| if total { idkey(r, desc) } else { tie[&r["id"].as_i64().unwrap()] as i64 };
    let col = |n: &str| -> Arc<dyn datafusion_physical_expr::PhysicalExpr> { Arc::new(Column::new(n, sch.index_of(n).unwrap())) };
    let so = |descending: bool, nulls_first: bool| arrow::compute::SortOptions { descending, nulls_first };
    let mut ord: Vec<PhysicalSortExpr> = vec![];
    match mode {
        "sorted" => {
            rows.sort_by_key(|r| (pk(r, "p"), okey(r, desc, nf), last(r)));
            if cfg.part_ab {
                ord.push(PhysicalSortExpr::new(col("a"), so(false, false)));
                ord.push(PhysicalSortExpr::new(col("b"), so(false, false)));
            } else {
                ord.push(PhysicalSortExpr::new(col("p"), so(false, false)));
            }
        }
        "partial" => {
            rows.sort_by_key(|r| (pk(r, "p") / 2 + if mv(&r["p"]).is_none() { 50 } else { 0 }, okey(r, desc, nf), last(r)));
            ord.push(PhysicalSortExpr::new(col("a"), so(false, false)));
        }
        _ => rows.sort_by_key(|r| (okey(r, desc, nf), last(r))),
    }
    ord.push(PhysicalSortExpr::new(col("o"), so(desc, nf)));
    if total {
        ord.push(PhysicalSortExpr::new(col("id"), so(desc, false)));
    }
    // seeded irregular batch cuts (every boundary is cut with probability 1/2; or fixed sizes 1, 2, 3)
    let style = rng.random_range(0..5);
    let mut batches = vec![];
    let mut cur: Vec<&Value> = vec![];
    let mut sizes = vec![];
    for (i, r) in rows.iter().enumerate() {
        cur.push(r);
        let cut = match style {
            0 => true,
            1 => cur.len() == 2,
            2 => cur.len() == 3,
            _ => rng.random_bool(0.5),
        };
        if cut || i + 1 == rows.len() {
            sizes.push(cur.len());
            batches.push(batch_of(cfg.xt, &cur));
            cur.clear();
        }
    }
    *cuts_desc = format!("{sizes:?}");
    let lex = LexOrdering::new(ord).ok_or("harness: empty ordering")?;
    let src = MemorySourceConfig::try_new(&[batches], Arc::clone(&sch), None)
        .and_then(|m| m.try_with_sort_information(vec![lex]))
        .map_err(|e| format!("harness: source {e}"))?;
    let source: Arc<dyn ExecutionPlan> = DataSourceExec::from_data_source(src);
    let got_mode = get_window_mode(exprs[0].partition_by(), exprs[0].order_by(), &source).map_err(|e| format!("harness: get_window_mode {e}"))?;
    let Some((false, m)) = got_mode else { return Err(format!("SKIP: the engine does not accept this arrangement for the window ({got_mode:?})")) };
    let want_ok = match (mode, &m) {
        ("sorted", InputOrderMode::Sorted) | ("partial", InputOrderMode::PartiallySorted(_)) | ("linear", InputOrderMode::Linear) => true,
        _ => false,
    };
    if !want_ok {
        return Err(format!("SKIP: engine chose {m:?} for arrangement {mode}"));
    }
    let bounded = exprs.iter().all(|e| e.uses_bounded_memory());
    let op: Arc<dyn ExecutionPlan> = if bounded {
        Arc::new(BoundedWindowAggExec::try_new(exprs, source, m, false).map_err(|e| format!("harness: BoundedWindowAggExec {e}"))?)
    } else if mode == "sorted" {
        Arc::new(WindowAggExec::try_new(exprs, source, false).map_err(|e| format!("harness: WindowAggExec {e}"))?)
    } else {
        return Err("SKIP: an expression needs the whole partition; only the Sorted arrangement runs WindowAggExec".into());
    };
    let text = displayable(op.as_ref()).indent(false).to_string();
    let tctx = Arc::new(TaskContext::default().with_session_config(sc));
    let op2 = Arc::clone(&op);
    let res = rt.block_on(async { AssertUnwindSafe(collect(op2, tctx)).catch_unwind().await });
    let batches = match res {
        Err(_) => return Err("panic during execution".into()),
        Ok(Err(e)) => return Err(format!("execution failed: {e}")),
        Ok(Ok(b)) => b,
    };
    // [id, mapped window columns...]
    let mut out = vec![];
    for b in batches {
        let mut idx = vec![0usize];
        idx.extend(mapping.iter().cloned());
        out.push(b.project(&idx).map_err(|e| format!("harness: project {e}"))?);
    }
    Ok((text, out))
}

/// compare every selected column of every output row with the reference record of that row id
fn compare(
    xt: Ty,
    calls: &[(&'static str, &'static str, bool)],
    expected: &HashMap<i64, &Value>,
    batches: &[RecordBatch],
    want_ids: Option<&[i64]>,
    exact_rows: Option<usize>,
    stats: &mut Stats,
) -> Result<(), String> {
    let mut seen = vec![];
    for b in batches {
        for r in 0..b.num_rows() {
            let id = match norm_at(b.column(0), r) {
                Norm::Int(i) => i,
                o => return Err(format!("harness: id column {o:?}")),
            };
            if seen.contains(&id) {
                return Err(format!("row id {id} output twice"));
            }
            seen.push(id);
            let Some(exp) = expected.get(&id) else { return Err(format!("row id {id} is not a row of the input")) };
            for (ci, (key, _, num)) in calls.iter().enumerate() {
                let got = norm_at(b.column(ci + 1), r);
                let ty = if *num { Ty::I64 } else { xt };
                stats.values_compared += 1;
                match check(ty, &exp[*key], &got, false) {
                    Verdict::Ok => {}
                    Verdict::ZeroDenominator => return Err(format!("row id {id}, {key}: expected NULL, engine returned {}", got.show())),
                    Verdict::Bad(m) => return Err(format!("row id {id}, {key}: {m}")),
                }
            }
        }
    }
    if let Some(w) = want_ids {
        let mut a = seen.clone();
        a.sort();
        let mut b = w.to_vec();
        b.sort();
        if a != b {
            return Err(format!("rows returned {a:?}, expected exactly the rows {b:?}"));
        }
    }
    if let Some(n) = exact_rows {
        if seen.len() != n {
            return Err(format!("{} rows returned, expected {n}", seen.len()));
        }
    }
    Ok(())
}

pub fn main() {
    let inp = util::arg("--in").expect("--in");
    let outp = util::arg("--out").expect("--out");
    let per_case: usize = util::arg("--per-case").and_then(|s| s.parse().ok()).unwrap_or(10);
    let corrupt = util::has_flag("--selftest-corrupt");
    let cases = util::read_ndjson(&inp);
    let seed = util::seed();
    let rt = tokio::runtime::Builder::new_multi_thread().worker_threads(2).enable_all().build().unwrap();
    let mut stats = Stats::default();
    let mut violations: Vec<Value> = vec![];
    let mut tool_errors: Vec<String> = vec![];
    let mut rejected_samples: BTreeMap<String, String> = BTreeMap::new();
    std::panic::set_hook(Box::new(|_| {}));
    let mut rot = seed as usize;
    for (ci, case) in cases.iter().enumerate() {
        let tbl = case["tbl"].as_array().unwrap();
        let mut rng = StdRng::seed_from_u64(seed.wrapping_mul(1_000_003).wrapping_add(ci as u64));
        let variants = case["variants"].as_array().unwrap();
        for it in 0..per_case {
            rot += 1;
            let var = &variants[rng.random_range(0..variants.len())];
            let total = var["total"].as_bool().unwrap();
            let desc = var["desc"].as_bool().unwrap();
            let nf = var["nf"].as_bool().unwrap_or(desc);
            let direct_pick = [None, None, Some("sorted"), Some("partial"), Some("linear"), Some("linear")][rng.random_range(0..6)];
            let cfg = RunCfg {
                xt: if rng.random_bool(0.3) { Ty::F64 } else { Ty::I64 },
                bs: [1usize, 2, 8192][rng.random_range(0..3)],
                src_bs: [1usize, 2, 8192][rng.random_range(0..3)],
                parts: rng.random_range(1..=3),
                target: rng.random_range(1..=3),
                sorted: rng.random_bool(0.4),
                force_unbounded: rng.random_bool(0.4),
                direct: direct_pick,
                part_ab: direct_pick == Some("partial") || rng.random_bool(0.3),
                topn_rule: rng.random_bool(0.7),
            };
            let pcl = if cfg.part_ab { "a, b" } else { "p" };
            let w = format!("PARTITION BY {pcl} ORDER BY {}", order_sql(total, desc, nf));
            let forcer = if cfg.force_unbounded { format!(", count(*) OVER ({w} ROWS BETWEEN UNBOUNDED PRECEDING AND UNBOUNDED FOLLOWING) AS forcer") } else { String::new() };
            // which shape
            let shape = if cfg.direct.is_some() {
                ["frame", "frame", "frame", "pos"][rng.random_range(0..4)]
            } else {
                ["frame", "frame", "frame", "frame", "pos", "pos", "topn", "limit"][(rot + it + rng.random_range(0..8)) % 8]
            };
            let forcer = if cfg.direct.is_some() { String::new() } else { forcer };
            let base_cols = if cfg.direct.is_some() { "id, p, a, b, o, x" } else { "id" };
            let frames = var["frames"].as_array().unwrap();
            let (sql, calls, exp_list, want_ids, exact_rows, units): (String, Vec<(&str, &str, bool)>, &Value, Option<Vec<i64>>, Option<usize>, String) = match shape {
                "frame" if !frames.is_empty() => {
                    // the streaming executor in PartiallySorted / Linear mode only takes frames that end before UNBOUNDED FOLLOWING
                    let streaming_only = matches!(cfg.direct, Some("partial") | Some("linear"));
                    let cand: Vec<&Value> = frames.iter().filter(|f| !streaming_only || f["f"]["e"]["k"] != "UF").collect();
                    let fr: &Value = if cand.is_empty() { &frames[rng.random_range(0..frames.len())] } else { cand[rng.random_range(0..cand.len())] };
                    let wf = format!("{w} {}", frame_sql(&fr["f"]));
                    let mut calls = frame_calls(total);
                    // a random non-empty subset keeps plans varied
                    let keep: Vec<bool> = calls.iter().map(|_| rng.random_bool(0.7)).collect();
                    let mut k = 0;
                    calls.retain(|_| {
                        k += 1;
                        keep[k - 1]
                    });
                    if calls.is_empty() {
                        calls = frame_calls(total)[..1].to_vec();
                    }
                    let cols = calls.iter().map(|(k, s, _)| format!("{} AS {k}", s.replace("{W}", &wf))).collect::<Vec<_>>().join(", ");
                    (format!("SELECT {base_cols}, {cols}{forcer} FROM t"), calls, &fr["res"], None, Some(tbl.len()), fr["f"]["units"].as_str().unwrap().to_string())
                }
                "topn" => {
                    // per-partition top-K: WHERE row_number/rank/dense_rank <= k (the WindowTopN rule, when enabled,
                    // replaces the filter by a PartitionedTopKExec below the window); rank functions also with ties
                    let k = rng.random_range(1..=3i64);
                    let fns: Vec<&'static str> = if total { vec!["row_number", "rank", "dense_rank"] } else { vec!["rank", "dense_rank"] };
                    let f = fns[rng.random_range(0..fns.len())];
                    let calls = vec![(f, "", true)];
                    let src = if f == "row_number" { &var["tot"] } else { &var["pos"] };
                    let ids: Vec<i64> = src.as_array().unwrap().iter().filter(|e| e["r"][f]["v"].as_i64().unwrap() <= k).map(|e| e["id"].as_i64().unwrap()).collect();
                    (format!("SELECT * FROM (SELECT *, {f}() OVER ({w}) AS {f} FROM t) WHERE {f} <= {k}"), calls, &var["pos"], Some(ids), None, "topn".into())
                }
                "limit" if total => {
                    let k = rng.random_range(1..=4usize);
                    let calls: Vec<(&str, &str, bool)> = pos_calls(true).into_iter().filter(|c| ["row_number", "lag_1", "lead_1"].contains(&c.0)).collect();
                    let cols = calls.iter().map(|(k, s, _)| format!("{} AS {k}", s.replace("{W}", &w))).collect::<Vec<_>>().join(", ");
                    (format!("SELECT id, {cols} FROM t LIMIT {k}"), calls, &var["tot"], None, Some(k.min(tbl.len())), "limit".into())
                }
                _ => {
                    // a random non-empty subset: rank-only plans stay streaming, percent_rank/cume_dist/ntile need the partition
                    let mut calls = pos_calls(total);
                    if matches!(cfg.direct, Some("partial") | Some("linear")) {
                        calls.retain(|c| ["rank", "dense_rank", "row_number", "lag_0", "lag_1", "lag_2", "lag_1_d", "lead_1", "lead_2_d"].contains(&c.0));
                    }
                    let keep: Vec<bool> = calls.iter().map(|_| rng.random_bool(0.5)).collect();
                    let mut k = 0;
                    calls.retain(|_| {
                        k += 1;
                        keep[k - 1]
                    });
                    if calls.is_empty() {
                        calls = pos_calls(total)[..1].to_vec();
                    }
                    let cols = calls.iter().map(|(k, s, _)| format!("{} AS {k}", s.replace("{W}", &w))).collect::<Vec<_>>().join(", ");
                    // pos and tot records are merged per id below
                    (format!("SELECT {base_cols}, {cols}{forcer} FROM t"), calls, &var["pos"], None, Some(tbl.len()), "pos".into())
                }
            };
            // expected per id (pos + tot merged where both exist)
            let mut merged: HashMap<i64, Value> = HashMap::new();
            for e in exp_list.as_array().unwrap() {
                merged.insert(e["id"].as_i64().unwrap(), e["r"].clone());
            }
            if (units == "pos" || units == "topn" || units == "limit") && total {
                for e in var["tot"].as_array().unwrap() {
                    let id = e["id"].as_i64().unwrap();
                    if let Some(m) = merged.get_mut(&id) {
                        for (k, v) in e["r"].as_object().unwrap() {
                            m[k] = v.clone();
                        }
                    }
                }
            }
            let expected: HashMap<i64, &Value> = merged.iter().map(|(k, v)| (*k, v)).collect();
            let mut calls = calls;
            let mut cuts = String::new();
            let res = match cfg.direct {
                Some(mode) => run_direct(&rt, tbl, &cfg, mode, &sql, &mut calls, total, desc, nf, &mut rng, &mut cuts),
                None => run_query(&rt, tbl, &cfg, &sql, total, desc, nf, &mut rng),
            };
            if let (Some(mode), Err(e)) = (cfg.direct, &res) {
                if e.starts_with("SKIP:") {
                    stats.direct_skipped += 1;
                    *stats.direct_skip_reasons.entry(format!("{mode}: {}", e.chars().take(70).collect::<String>())).or_default() += 1;
                    continue;
                }
            }
            stats.executions += 1;
            *stats.per_shape.entry(if units == "ROWS" || units == "RANGE" || units == "GROUPS" { format!("frame {units}") } else { units.clone() }).or_default() += 1;
            let describe = |msg: String, plan: &str| {
                json!({"kind": "C09", "sql": sql, "x_type": cfg.xt.name(), "batch_size": cfg.bs, "source_batch_size": cfg.src_bs,
                "source_partitions": cfg.parts, "target_partitions": cfg.target, "sorted_source": cfg.sorted, "message": msg, "plan": plan,
                "direct_mode": cfg.direct, "batch_cuts": cuts,
                "case_index": case["idx"].as_u64().unwrap_or(ci as u64), "seed": seed})
            };
            match res {
                Err(e) if e.starts_with("harness:") => tool_errors.push(e),
                Err(e) => {
                    if e.contains("panic") || !e.contains("PLANNING:") {
                        violations.push(describe(e, ""));
                    } else {
                        // a planning-time rejection of a frame the engine does not support is not a wrong result
                        stats.engine_rejected += 1;
                        rejected_samples.entry(e.chars().take(90).collect()).or_insert(sql.clone());
                    }
                }
                Ok((text, mut batches)) => {
                    if units == "topn" {
                        // SELECT *: keep [id, the ranking column]
                        batches = batches.iter().map(|b| b.project(&[0, b.num_columns() - 1]).unwrap()).collect();
                    }
                    let has_b = text.contains("BoundedWindowAggExec");
                    let has_p = text.replace("BoundedWindowAggExec", "").contains("WindowAggExec");
                    if has_b {
                        stats.bounded += 1;
                    }
                    if has_p {
                        stats.plain += 1;
                    }
                    if has_b && has_p {
                        stats.both += 1;
                    }
                    if text.contains("PartitionedTopKExec") {
                        stats.partitioned_topk += 1;
                    }
                    if units == "limit" && (text.contains("fetch=") || text.contains("GlobalLimitExec") || text.contains("LocalLimitExec")) {
                        stats.limit_plans += 1;
                    }
                    if cfg.sorted && !text.contains("SortExec") {
                        stats.sorted_source_no_sort += 1;
                    }
                    *stats.per_units.entry(format!("{} {}", units, if has_b { "bounded" } else { "whole-partition" })).or_default() += 1;
                    if has_b {
                        let m = if text.contains("mode=[Linear]") { "Linear" } else if text.contains("mode=[PartiallySorted") { "PartiallySorted" } else { "Sorted" };
                        let how = if cfg.direct.is_some() { "direct" } else { "planned" };
                        let dir = format!("{}{}", if desc { "DESC" } else { "ASC" }, if nf { " NULLS FIRST" } else { " NULLS LAST" });
                        *stats.per_mode.entry(format!("{m} ({how})")).or_default() += 1;
                        *stats.per_mode_detail.entry(format!("{m} {units} {dir}")).or_default() += 1;
                    } else if cfg.direct.is_some() {
                        *stats.per_mode.entry("WindowAggExec (direct)".into()).or_default() += 1;
                    }
                    if corrupt && !batches.is_empty() && batches[0].num_rows() > 0 {
                        let b = batches[0].slice(0, batches[0].num_rows() - 1);
                        batches[0] = b;
                    }
                    use std::hash::{Hash, Hasher};
                    let mut h = std::collections::hash_map::DefaultHasher::new();
                    (&sql, cfg.xt.name(), cfg.bs, cfg.src_bs, cfg.parts, cfg.target, cfg.sorted, cfg.direct, &cuts, case["tbl"].to_string()).hash(&mut h);
                    stats.distinct.insert(h.finish());
                    if let Err(m) = compare(cfg.xt, &calls, &expected, &batches, want_ids.as_deref(), exact_rows, &mut stats) {
                        if m.starts_with("harness:") {
                            tool_errors.push(m);
                        } else {
                            violations.push(describe(m, &text));
                        }
                    }
                }
            }
        }
    }
    let _ = std::panic::take_hook();
    let res = json!({
        "cases": cases.len(),
        "evaluations": stats.executions,
        "values_compared": stats.values_compared,
        "plans_with_BoundedWindowAggExec": stats.bounded,
        "plans_with_WindowAggExec": stats.plain,
        "plans_with_both": stats.both,
        "sorted_source_plans_without_SortExec": stats.sorted_source_no_sort,
        "per_shape": stats.per_shape,
        "per_units_and_executor": stats.per_units,
        "bounded_executor_runs_per_input_order_mode": stats.per_mode,
        "bounded_executor_runs_per_mode_units_direction": stats.per_mode_detail,
        "direct_combinations_not_accepted_by_engine": stats.direct_skipped,
        "direct_skip_reasons": stats.direct_skip_reasons,
        "plans_with_PartitionedTopKExec": stats.partitioned_topk,
        "limit_shape_plans_with_a_limit_or_fetch": stats.limit_plans,
        "engine_rejected_at_planning": stats.engine_rejected,
        "engine_rejected_samples": rejected_samples,
        "distinct_nontrivial": stats.distinct.len(),
        "violations": violations,
        "tool_errors": tool_errors,
    });
    std::fs::write(&outp, serde_json::to_string(&res).unwrap()).unwrap();
    util::summary(json!({"cases": cases.len(), "evaluations": stats.executions, "violations": res["violations"].as_array().unwrap().len(),
        "tool_errors": res["tool_errors"].as_array().unwrap().len()}));
}
