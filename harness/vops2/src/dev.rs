//! development entry point (feature `dev`): sub-commands still being written + an ad-hoc SQL runner
use std::sync::Arc;
fn main() {
    let a: Vec<String> = std::env::args().collect();
    match a.get(1).map(|s| s.as_str()).unwrap_or("") {
        "sql" => {
            // vops2dev sql "<statement>;<statement>;..."  (each printed)  [--partitions N] [--set k=v]
            let rt = tokio::runtime::Runtime::new().unwrap();
            let mut cfg = datafusion::prelude::SessionConfig::new();
            if let Some(n) = vcommon::util::arg("--partitions") {
                cfg = cfg.with_target_partitions(n.parse().unwrap());
            }
            for (i, x) in a.iter().enumerate() {
                if x == "--set" {
                    let (k, v) = a[i + 1].split_once('=').unwrap();
                    cfg = cfg.set_str(k, v);
                }
            }
            let ctx = datafusion::prelude::SessionContext::new_with_config(cfg);
            rt.block_on(async {
                for st in a[2].split(';') {
                    if st.trim().is_empty() {
                        continue;
                    }
                    println!("> {}", st.trim());
                    match ctx.sql(st).await {
                        Ok(df) => match df.collect().await {
                            Ok(b) => println!("{}", arrow::util::pretty::pretty_format_batches(&b).unwrap()),
                            Err(e) => println!("ERROR {e}"),
                        },
                        Err(e) => println!("ERROR {e}"),
                    }
                }
            });
            let _ = Arc::new(0);
        }
        _ => std::process::exit(2),
    }
}
