//! development entry point (feature `dev`): sub-commands still being written
mod c06;
mod vals;
fn main() {
    let a: Vec<String> = std::env::args().collect();
    match a.get(1).map(|s| s.as_str()).unwrap_or("") {
        "c06" => c06::main(),
        _ => std::process::exit(2),
    }
}
