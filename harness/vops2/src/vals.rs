//! Shared value plumbing: model values (spec/lib/Values.tla JSON form) <-> arrow, normalised engine
//! results, and the comparison of an engine result with an expected result of spec/lib/Agg.tla.
use arrow::array::*;
use arrow::datatypes::DataType;
use datafusion_common::ScalarValue;
use serde_json::Value;
use std::sync::Arc;

/// How the model's abstract ordered values {NULL,-1,0,1,2,..} are rendered as an arrow type.
#[derive(Clone, Copy, Debug, PartialEq, Eq, Hash)]
pub enum Ty {
    I64,
    I32,
    F64,
    Utf8,
    Bool,
}

/// order-preserving string pool: model integer v -> POOL[v + 3]
pub const POOL: [&str; 10] = ["a", "b", "c", "d", "e", "f", "g", "h", "i", "j"];
pub fn pool(v: i64) -> String {
    POOL[(v + 3) as usize].to_string()
}

impl Ty {
    pub fn name(&self) -> &'static str {
        match self {
            Ty::I64 => "i64",
            Ty::I32 => "i32",
            Ty::F64 => "f64",
            Ty::Utf8 => "utf8",
            Ty::Bool => "bool",
        }
    }
    pub fn data_type(&self) -> DataType {
        match self {
            Ty::I64 => DataType::Int64,
            Ty::I32 => DataType::Int32,
            Ty::F64 => DataType::Float64,
            Ty::Utf8 => DataType::Utf8,
            Ty::Bool => DataType::Boolean,
        }
    }
    pub fn sql(&self) -> &'static str {
        match self {
            Ty::I64 => "BIGINT",
            Ty::I32 => "INT",
            Ty::F64 => "DOUBLE",
            Ty::Utf8 => "VARCHAR",
            Ty::Bool => "BOOLEAN",
        }
    }
}

/// model value -> Option<i64> (None = NULL); accepts {"k":"n"} / {"k":"i","v":n} / {"k":"b","v":n}
pub fn mv(v: &Value) -> Option<i64> {
    match v["k"].as_str() {
        Some("n") => None,
        Some("i") | Some("b") | Some("s") => Some(v["v"].as_i64().unwrap()),
        _ => panic!("bad model value {v}"),
    }
}

pub fn mk_array(ty: Ty, vals: &[Option<i64>]) -> ArrayRef {
    match ty {
        Ty::I64 => Arc::new(Int64Array::from(vals.to_vec())),
        Ty::I32 => Arc::new(Int32Array::from(vals.iter().map(|v| v.map(|x| x as i32)).collect::<Vec<_>>())),
        Ty::F64 => Arc::new(Float64Array::from(vals.iter().map(|v| v.map(|x| x as f64)).collect::<Vec<_>>())),
        Ty::Utf8 => Arc::new(StringArray::from(vals.iter().map(|v| v.map(pool)).collect::<Vec<_>>())),
        Ty::Bool => Arc::new(BooleanArray::from(vals.iter().map(|v| v.map(|x| x > 0)).collect::<Vec<_>>())),
    }
}

/// Normalised engine value.
#[derive(Clone, Debug, PartialEq)]
pub enum Norm {
    Null,
    Int(i64),
    Float(f64),
    Str(String),
    Bool(bool),
    List(Vec<Norm>),
    Other(String),
}

impl Norm {
    pub fn show(&self) -> String {
        match self {
            Norm::Null => "NULL".into(),
            Norm::Int(i) => format!("{i}"),
            Norm::Float(f) => format!("{f:?}"),
            Norm::Str(s) => format!("'{s}'"),
            Norm::Bool(b) => format!("{b}"),
            Norm::List(l) => format!("[{}]", l.iter().map(|x| x.show()).collect::<Vec<_>>().join(",")),
            Norm::Other(s) => format!("?{s}"),
        }
    }
    pub fn as_f64(&self) -> Option<f64> {
        match self {
            Norm::Int(i) => Some(*i as f64),
            Norm::Float(f) => Some(*f),
            _ => None,
        }
    }
}

pub fn norm_scalar(s: &ScalarValue) -> Norm {
    if s.is_null() {
        return Norm::Null;
    }
    match s {
        ScalarValue::Int8(Some(v)) => Norm::Int(*v as i64),
        ScalarValue::Int16(Some(v)) => Norm::Int(*v as i64),
        ScalarValue::Int32(Some(v)) => Norm::Int(*v as i64),
        ScalarValue::Int64(Some(v)) => Norm::Int(*v),
        ScalarValue::UInt8(Some(v)) => Norm::Int(*v as i64),
        ScalarValue::UInt16(Some(v)) => Norm::Int(*v as i64),
        ScalarValue::UInt32(Some(v)) => Norm::Int(*v as i64),
        ScalarValue::UInt64(Some(v)) => Norm::Int(*v as i64),
        ScalarValue::Float32(Some(v)) => Norm::Float(*v as f64),
        ScalarValue::Float64(Some(v)) => Norm::Float(*v),
        ScalarValue::Boolean(Some(v)) => Norm::Bool(*v),
        ScalarValue::Utf8(Some(v)) | ScalarValue::LargeUtf8(Some(v)) | ScalarValue::Utf8View(Some(v)) => {
            Norm::Str(v.clone())
        }
        ScalarValue::Decimal128(Some(v), _, scale) => Norm::Float(*v as f64 / 10f64.powi(*scale as i32)),
        ScalarValue::List(arr) => norm_list(arr.value(0)),
        ScalarValue::LargeList(arr) => norm_list(arr.value(0)),
        other => Norm::Other(format!("{other:?}")),
    }
}

fn norm_list(a: ArrayRef) -> Norm {
    Norm::List((0..a.len()).map(|i| norm_at(&a, i)).collect())
}

pub fn norm_at(a: &ArrayRef, i: usize) -> Norm {
    match ScalarValue::try_from_array(a, i) {
        Ok(s) => norm_scalar(&s),
        Err(e) => Norm::Other(format!("{e}")),
    }
}

/// Render a model Value (k in n/i/b) under a type rendering.
pub fn render(ty: Ty, v: &Value) -> Norm {
    match v["k"].as_str() {
        Some("n") => Norm::Null,
        Some("b") => Norm::Bool(v["v"].as_i64().unwrap() != 0),
        Some("i") => {
            let x = v["v"].as_i64().unwrap();
            match ty {
                Ty::I64 | Ty::I32 => Norm::Int(x),
                Ty::F64 => Norm::Float(x as f64),
                Ty::Utf8 => Norm::Str(pool(x)),
                Ty::Bool => Norm::Bool(x > 0),
            }
        }
        _ => Norm::Other(format!("{v}")),
    }
}

pub fn close(a: f64, e: f64) -> bool {
    if a.is_nan() || e.is_nan() {
        return a.is_nan() && e.is_nan();
    }
    (a - e).abs() <= 1e-9 * e.abs().max(1.0)
}

/// equality of two normalised values: numbers numerically (1e-9 relative), lists element-wise
pub fn norm_eq(a: &Norm, b: &Norm) -> bool {
    match (a, b) {
        (Norm::List(x), Norm::List(y)) => x.len() == y.len() && x.iter().zip(y).all(|(p, q)| norm_eq(p, q)),
        _ => match (a.as_f64(), b.as_f64()) {
            (Some(x), Some(y)) => close(x, y),
            _ => a == b,
        },
    }
}

fn sort_key(n: &Norm) -> String {
    match n {
        Norm::Null => "~".into(),
        Norm::Int(i) => format!("n{:020.6}", *i as f64 + 1e9),
        Norm::Float(f) => format!("n{:020.6}", f + 1e9),
        o => o.show(),
    }
}

pub fn sorted(l: &[Norm]) -> Vec<Norm> {
    let mut v = l.to_vec();
    v.sort_by_key(sort_key);
    v
}

pub enum Verdict {
    Ok,
    /// ill-conditioned: the reference says NULL because a variance is exactly zero and the engine returned a value,
    /// or the reference root is 0 and the engine took the root of a tiny negative float (NaN)
    ZeroDenominator,
    Bad(String),
}

/// Compare an engine value with an expected result of Agg.tla under a rendering.
/// `joined`: the function returns the list joined by ',' (string_agg).
pub fn check(ty: Ty, exp: &Value, got: &Norm, joined: bool) -> Verdict {
    let k = exp["k"].as_str().unwrap_or("?");
    let bad = |e: String| Verdict::Bad(format!("expected {e}, engine returned {}", got.show()));
    match k {
        "n" => {
            if *got == Norm::Null {
                Verdict::Ok
            } else {
                bad("NULL".into())
            }
        }
        "nz" => {
            if *got == Norm::Null {
                Verdict::Ok
            } else {
                Verdict::ZeroDenominator
            }
        }
        "i" | "b" => {
            let e = render(ty, exp);
            if norm_eq(&e, got) { Verdict::Ok } else { bad(e.show()) }
        }
        "q" => {
            let e = exp["n"].as_f64().unwrap() / exp["d"].as_f64().unwrap();
            match got.as_f64() {
                Some(a) if close(a, e) => Verdict::Ok,
                _ => bad(format!("{}/{} = {e}", exp["n"], exp["d"])),
            }
        }
        "qs" => {
            // s * sqrt(n/d): compared on the radicand (a root amplifies an in-tolerance error of the variance)
            let sg = exp["s"].as_f64().unwrap();
            let rad = exp["n"].as_f64().unwrap() / exp["d"].as_f64().unwrap();
            let e = sg * rad.sqrt();
            match got.as_f64() {
                Some(a) if close(a, e) => Verdict::Ok,
                Some(a) if close(a * a, rad) && (a == 0.0 || sg == 0.0 || (a > 0.0) == (sg > 0.0) || rad.abs() < 1e-9) => Verdict::Ok,
                // sqrt of a variance that is 0 in the rationals and a tiny negative float in the engine
                Some(a) if a.is_nan() && rad == 0.0 => Verdict::ZeroDenominator,
                _ => bad(format!("{}*sqrt({}/{}) = {e}", exp["s"], exp["n"], exp["d"])),
            }
        }
        "l" | "ls" => {
            let el: Vec<Norm> = exp["l"].as_array().unwrap().iter().map(|v| render(ty, v)).collect();
            if joined {
                let s = el.iter().map(|n| if let Norm::Str(s) = n { s.clone() } else { n.show() }).collect::<Vec<_>>().join(",");
                return if *got == Norm::Str(s.clone()) { Verdict::Ok } else { bad(format!("'{s}'")) };
            }
            match got {
                Norm::List(gl) => {
                    let ok = if k == "l" {
                        norm_eq(&Norm::List(el.clone()), got)
                    } else {
                        norm_eq(&Norm::List(sorted(&el)), &Norm::List(sorted(gl)))
                    };
                    if ok { Verdict::Ok } else { bad(Norm::List(el).show()) }
                }
                _ => bad(Norm::List(el).show()),
            }
        }
        "any" => {
            let set: Vec<Norm> = exp["of"].as_array().unwrap().iter().map(|v| render(ty, v)).collect();
            if set.iter().any(|e| norm_eq(e, got)) {
                Verdict::Ok
            } else {
                bad(format!("one of {}", Norm::List(set).show()))
            }
        }
        _ => Verdict::Bad(format!("harness: unknown expected shape {exp}")),
    }
}
