//! Operator-level drivers, part 2 (C06 grouped aggregation, C07 accumulators, C09 window functions)
//! — DESIGN.md §7.1.  Each sub-command replays TLC-generated cases into the real code (B3).
mod c06;
mod c07;
mod c09;
mod vals;

fn main() {
    let a: Vec<String> = std::env::args().collect();
    let cmd = a.get(1).map(|s| s.as_str()).unwrap_or("");
    match cmd {
        "c06" => c06::main(),
        "c07" => c07::main(),
        "c09" => c09::main(),
        _ => {
            eprintln!("usage: vops2 <c06|c07|c09> --in FILE --out FILE");
            std::process::exit(2);
        }
    }
}
