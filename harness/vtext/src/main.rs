//! Text / small-pure-function drivers (B3 case replay, B2 traces) — DESIGN.md §7.5, §7.3 C43, §7.1 C47.
mod c11;
mod c43;
mod c47;
mod c52;

fn main() {
    let a: Vec<String> = std::env::args().collect();
    let cmd = a.get(1).map(|s| s.as_str()).unwrap_or("");
    match cmd {
        "c52" => c52::main(),
        "c11" => c11::main(),
        "c43" => c43::main(),
        "c47" => c47::main(),
        _ => {
            eprintln!("usage: vtext <c52|c11|c43|c47> [options]");
            std::process::exit(2);
        }
    }
}
