//! C47 — mixed-type comparisons are order-independent and exact for integers/decimals (B3 driver of NumLine.tla).
//!
//! Input (`--in`): {"types": [{"name", "rows": [[index, text]...]}], "pairs": [{"ta","tb","exact"}], "filter_ops": [...],
//!                  "list_sizes": [...]}.  index > 0: position on the global number line; 0: NULL; < 0: a float special
//! (NaN, +inf, -inf) that is not on the line.  `text` is the exact decimal numeral (integer count in the type's unit for
//! temporal types).
//! For every ordered type pair the comparison is evaluated through SQL over typed MemTables:
//!   projection (six operators, both operand orders; BETWEEN, CASE, IS [NOT] DISTINCT FROM, IN (expr), NOT IN (expr)),
//!   filter, equi-join (hash and sort-merge, both key orders, with a residual filter, null-equal keys), comparisons
//!   against literals (both orders: the cast-unwrapping path), IN / NOT IN lists of literals of several sizes with and
//!   without a NULL entry (bitmap / branch-free / hash-set / generic strategies), IN subquery.
//! Oracles: mirror law; filter / join / literal / IN agree with the pairwise projection; for exact pairs (integers,
//! decimals) every answer equals the comparison of indices (NumLine!Cmp3).
use arrow::array::{Array, ArrayRef, BooleanArray, Decimal128Array, Decimal256Array, Float32Array, Float64Array, Int8Array, Int16Array, Int32Array,
                   Int64Array, StringArray, UInt8Array, UInt16Array, UInt32Array, UInt64Array};
use arrow::datatypes::{DataType, Field, Schema, TimeUnit, i256};
use arrow::record_batch::RecordBatch;
use datafusion::datasource::MemTable;
use datafusion::prelude::{SessionConfig, SessionContext};
use serde_json::{Value, json};
use std::collections::{BTreeMap, BTreeSet, HashMap, VecDeque};
use std::sync::Arc;
use vcommon::util;

const OPS: [&str; 6] = ["=", "<>", "<", "<=", ">", ">="];
fn mirror(op: &str) -> &'static str { match op { "<" => ">", "<=" => ">=", ">" => "<", ">=" => "<=", "=" => "=", _ => "<>" } }
fn cmp_idx(op: &str, i: i64, j: i64) -> Option<bool> {
    if i == 0 || j == 0 { return None; }
    Some(match op { "=" => i == j, "<>" => i != j, "<" => i < j, "<=" => i <= j, ">" => i > j, _ => i >= j })
}

fn dec_digits(s: &str, scale: u32) -> String {
    let neg = s.starts_with('-');
    let t = s.trim_start_matches('-');
    let (ip, fp) = t.split_once('.').unwrap_or((t, ""));
    assert!(fp.len() as u32 <= scale, "value {s} has more than {scale} fractional digits");
    let mut digits = String::from(ip);
    digits.push_str(fp);
    for _ in 0..(scale - fp.len() as u32) { digits.push('0'); }
    if neg { format!("-{digits}") } else { digits }
}

#[derive(Clone)]
struct Ty { name: String, table: String, dt: DataType, rows: Vec<(i64, String)> }

fn arrow_type(name: &str) -> DataType {
    let ts = |u, tz: Option<&str>| DataType::Timestamp(u, tz.map(|z| z.into()));
    match name {
        "i8" => DataType::Int8, "i16" => DataType::Int16, "i32" => DataType::Int32, "i64" => DataType::Int64,
        "u8" => DataType::UInt8, "u16" => DataType::UInt16, "u32" => DataType::UInt32, "u64" => DataType::UInt64,
        "f32" => DataType::Float32, "f64" => DataType::Float64,
        "d20_0" => DataType::Decimal128(20, 0), "d10_2" => DataType::Decimal128(10, 2), "d38_10" => DataType::Decimal128(38, 10),
        "d256_50_10" => DataType::Decimal256(50, 10),
        "utf8" => DataType::Utf8, "utf8view" => DataType::Utf8View, "largeutf8" => DataType::LargeUtf8,
        "dict_i64" => DataType::Dictionary(Box::new(DataType::Int32), Box::new(DataType::Int64)),
        "dict_utf8" => DataType::Dictionary(Box::new(DataType::Int32), Box::new(DataType::Utf8)),
        "date32" => DataType::Date32, "date64" => DataType::Date64,
        "ts_s" => ts(TimeUnit::Second, None), "ts_ms" => ts(TimeUnit::Millisecond, None), "ts_us" => ts(TimeUnit::Microsecond, None),
        "ts_ns" => ts(TimeUnit::Nanosecond, None), "ts_ns_utc" => ts(TimeUnit::Nanosecond, Some("UTC")), "ts_us_p2" => ts(TimeUnit::Microsecond, Some("+02:00")),
        _ => panic!("unknown type {name}"),
    }
}

fn build_array(name: &str, vals: &[String]) -> ArrayRef {
    let opt = |s: &String| if s == "NULL" { None } else { Some(s.clone()) };
    macro_rules! prim { ($A:ty, $T:ty) => { Arc::new(<$A>::from(vals.iter().map(|s| opt(s).map(|s| s.parse::<$T>().unwrap_or_else(|_| panic!("{s} as {}", name)))).collect::<Vec<Option<$T>>>())) as ArrayRef } }
    let dec = |p: u8, s: i8| -> ArrayRef {
        Arc::new(Decimal128Array::from(vals.iter().map(|v| opt(v).map(|v| dec_digits(&v, s as u32).parse::<i128>().unwrap())).collect::<Vec<Option<i128>>>()).with_precision_and_scale(p, s).unwrap())
    };
    let via = |base: &str| arrow::compute::cast(&build_array(base, vals), &arrow_type(name)).unwrap_or_else(|e| panic!("cast {base} -> {name}: {e}"));
    match name {
        "i8" => prim!(Int8Array, i8), "i16" => prim!(Int16Array, i16), "i32" => prim!(Int32Array, i32), "i64" => prim!(Int64Array, i64),
        "u8" => prim!(UInt8Array, u8), "u16" => prim!(UInt16Array, u16), "u32" => prim!(UInt32Array, u32), "u64" => prim!(UInt64Array, u64),
        "f32" => prim!(Float32Array, f32), "f64" => prim!(Float64Array, f64),
        "d20_0" => dec(20, 0), "d10_2" => dec(10, 2), "d38_10" => dec(38, 10),
        "d256_50_10" => Arc::new(Decimal256Array::from(vals.iter().map(|v| opt(v).map(|v| i256::from_string(&dec_digits(&v, 10)).unwrap())).collect::<Vec<Option<i256>>>()).with_precision_and_scale(50, 10).unwrap()),
        "utf8" => Arc::new(StringArray::from(vals.iter().map(opt).collect::<Vec<Option<String>>>())),
        "utf8view" | "largeutf8" | "dict_utf8" => via("utf8"),
        "dict_i64" => via("i64"),
        "date32" => via("i32"),
        "date64" | "ts_s" | "ts_ms" | "ts_us" | "ts_ns" | "ts_ns_utc" | "ts_us_p2" => via("i64"),
        _ => panic!("unknown type {name}"),
    }
}

/// SQL literal of the type holding exactly this value
fn literal(t: &Ty, text: &str) -> String {
    if text == "NULL" { return "NULL".into(); }
    match &t.dt {
        DataType::Utf8 => format!("'{text}'"),
        DataType::Dictionary(_, v) if **v == DataType::Utf8 => format!("'{text}'"),
        DataType::Dictionary(_, v) => format!("arrow_cast('{text}', '{v}')"),
        DataType::Date32 => format!("arrow_cast(arrow_cast('{text}', 'Int32'), 'Date32')"),
        DataType::Date64 | DataType::Timestamp(_, _) => format!("arrow_cast(arrow_cast('{text}', 'Int64'), '{}')", t.dt),
        dt => format!("arrow_cast('{text}', '{dt}')"),
    }
}

struct H { rt: tokio::runtime::Runtime, ctx: SessionContext, ctx_smj: SessionContext, queries: u64 }
impl H {
    fn run(&mut self, smj: bool, sql: &str) -> Result<Vec<RecordBatch>, String> {
        self.queries += 1;
        let ctx = if smj { self.ctx_smj.clone() } else { self.ctx.clone() };
        let r = std::panic::catch_unwind(std::panic::AssertUnwindSafe(|| self.rt.block_on(async {
            let df = ctx.sql(sql).await.map_err(|e| e.to_string())?;
            df.collect().await.map_err(|e| e.to_string())
        })));
        match r { Ok(x) => x, Err(_) => Err("panic".into()) }
    }
    fn q(&mut self, sql: &str) -> Result<Vec<RecordBatch>, String> { self.run(false, sql) }
    fn register(&self, t: &Ty, split: bool) {
        let arr = build_array(&t.name, &t.rows.iter().map(|r| r.1.clone()).collect::<Vec<_>>());
        let schema = Arc::new(Schema::new(vec![Field::new("r", DataType::Int32, false), Field::new("v", t.dt.clone(), true)]));
        let rcol: ArrayRef = Arc::new(Int32Array::from((0..t.rows.len() as i32).collect::<Vec<_>>()));
        let b = RecordBatch::try_new(Arc::clone(&schema), vec![rcol, arr]).unwrap();
        let h = b.num_rows() / 2;
        // two partitions so that joins/filters see more than one batch
        let parts = if split && h > 0 { vec![vec![b.slice(0, h)], vec![b.slice(h, b.num_rows() - h)]] } else { vec![vec![b]] };
        for c in [&self.ctx, &self.ctx_smj] {
            c.register_table(t.table.as_str(), Arc::new(MemTable::try_new(Arc::clone(&schema), parts.clone()).unwrap())).unwrap();
        }
    }
}

fn i32col(b: &RecordBatch, c: usize) -> Vec<i32> { let a = b.column(c).as_any().downcast_ref::<Int32Array>().unwrap(); (0..a.len()).map(|i| a.value(i)).collect() }
fn boolcol(b: &RecordBatch, c: usize) -> Vec<Option<bool>> {
    let a = b.column(c).as_any().downcast_ref::<BooleanArray>().unwrap_or_else(|| panic!("column {c} is {:?}", b.column(c).data_type()));
    (0..a.len()).map(|i| if a.is_null(i) { None } else { Some(a.value(i)) }).collect()
}
fn not3(x: Option<bool>) -> Option<bool> { x.map(|b| !b) }

pub fn main() {
    let inp: Value = serde_json::from_str(&std::fs::read_to_string(util::arg("--in").expect("--in")).unwrap()).unwrap();
    let out = util::arg("--out").expect("--out");
    std::panic::set_hook(Box::new(|_| {}));
    let filter_ops: Vec<String> = inp["filter_ops"].as_array().unwrap().iter().map(|v| v.as_str().unwrap().to_string()).collect();
    let list_sizes: Vec<usize> = inp["list_sizes"].as_array().unwrap().iter().map(|v| v.as_u64().unwrap() as usize).collect();
    let rt = tokio::runtime::Builder::new_multi_thread().worker_threads(2).enable_all().build().unwrap();
    let ctx = SessionContext::new_with_config(SessionConfig::new().with_target_partitions(3));
    let ctx_smj = SessionContext::new_with_config(SessionConfig::new().with_target_partitions(2).set_bool("datafusion.optimizer.prefer_hash_join", false));
    let mut h = H { rt, ctx, ctx_smj, queries: 0 };
    let mut tys: HashMap<String, Ty> = HashMap::new();
    for t in inp["types"].as_array().unwrap() {
        let name = t["name"].as_str().unwrap().to_string();
        let rows: Vec<(i64, String)> = t["rows"].as_array().unwrap().iter().map(|r| (r[0].as_i64().unwrap(), r[1].as_str().unwrap().to_string())).collect();
        let ty = Ty { table: format!("t_{name}"), dt: arrow_type(&name), name: name.clone(), rows };
        h.register(&ty, true);
        tys.insert(name, ty);
    }
    let mut violations: Vec<Value> = vec![];
    let mut nviol = 0u64;
    let mut errors: Vec<Value> = vec![];
    let mut nerr = 0u64;
    let mut evaluations = 0u64;
    let mut exact_checked = 0u64;
    let mut context_info = 0u64;       // non-exact pairs: BETWEEN/CASE/DISTINCT answers that differ from the pairwise operators (information)
    let mut distinct: BTreeSet<(String, String, i64, i64)> = BTreeSet::new();
    let mut coercion: Vec<Value> = vec![];
    let mut samples: Vec<Value> = vec![];
    let mut pair_stats: Vec<Value> = vec![];
    let mut paths: BTreeMap<String, u64> = BTreeMap::new();    // which sub-check / strategy ran how often
    let mut restricted_pairs = 0u64;
    let mut tmp_tables = 0u64;
    let mut vclasses: BTreeMap<String, u64> = BTreeMap::new();      // violations per <kind | typeA | typeB>
    macro_rules! viol { ($v:expr) => {{
        let v: Value = $v;
        let cls = format!("{} | {} | {}", v["kind"].as_str().unwrap_or(""), v["case"]["ta"].as_str().unwrap_or(""), v["case"]["tb"].as_str().unwrap_or(""));
        let n = vclasses.entry(cls).or_insert(0);
        *n += 1;
        nviol += 1;
        // keep the first few of every class so that no class can crowd out another
        if *n <= 2 && violations.len() < 400 { violations.push(v); }
    }}; }
    macro_rules! err { ($v:expr) => {{ nerr += 1; if errors.len() < 60 { errors.push($v); } }}; }
    macro_rules! path { ($p:expr) => {{ *paths.entry($p.to_string()).or_insert(0) += 1; }}; }

    let mut work: VecDeque<(Ty, Ty, bool, bool)> = inp["pairs"].as_array().unwrap().iter()
        .map(|p| (tys[p["ta"].as_str().unwrap()].clone(), tys[p["tb"].as_str().unwrap()].clone(), p["exact"].as_bool().unwrap(), false)).collect();
    while let Some((ta_o, tb_o, exact, restricted)) = work.pop_front() {
        let (ta, tb) = (&ta_o, &tb_o);
        let (na, nb) = (ta.rows.len(), tb.rows.len());
        let case = |ra: usize, rb: usize| json!({"ta": ta.name, "tb": tb.name, "a": ta.rows[ra].1, "b": tb.rows[rb].1});
        // 1. projection: all operators, both operand orders, and the comparison in other syntactic contexts
        let mut cols: Vec<String> = vec![];
        for op in OPS { cols.push(format!("a.v {op} b.v")); }
        for op in OPS { cols.push(format!("b.v {} a.v", mirror(op))); }
        let extra = ["a.v BETWEEN b.v AND b.v", "a.v IN (b.v)", "a.v NOT IN (b.v)", "CASE a.v WHEN b.v THEN true ELSE false END",
                     "CASE WHEN a.v < b.v THEN true WHEN a.v >= b.v THEN false END", "a.v IS NOT DISTINCT FROM b.v", "a.v IS DISTINCT FROM b.v",
                     "b.v IN (a.v)", "a.v NOT BETWEEN b.v AND b.v"];
        for e in extra { cols.push(e.to_string()); }
        let ncols = cols.len();
        let alias = |cols: &Vec<String>| cols.iter().enumerate().map(|(i, c)| format!("{c} AS c{i}")).collect::<Vec<_>>().join(", ");
        let sql = format!("SELECT a.r, b.r, {} FROM {} a CROSS JOIN {} b", alias(&cols), ta.table, tb.table);
        let batches = match h.q(&sql) {
            Ok(b) => b,
            Err(e) => {
                err!(json!({"ta": ta.name, "tb": tb.name, "where": if restricted { "projection (restricted)" } else { "projection" }, "error": e.chars().take(200).collect::<String>()}));
                if !restricted {
                    // an error is allowed by the property; the laws are still checked on the values both types represent (and NULL)
                    let common: BTreeSet<i64> = ta.rows.iter().map(|r| r.0).filter(|i| *i >= 0 && tb.rows.iter().any(|r| r.0 == *i)).collect();
                    if common.len() > 1 {
                        let mut mk = |t: &Ty| -> Ty {
                            let rows: Vec<(i64, String)> = t.rows.iter().filter(|r| common.contains(&r.0)).cloned().collect();
                            tmp_tables += 1;
                            let n = Ty { name: t.name.clone(), table: format!("r{}_{}", tmp_tables, t.name), dt: t.dt.clone(), rows };
                            h.register(&n, false);
                            n
                        };
                        let (ra, rb) = (mk(ta), mk(tb));
                        restricted_pairs += 1;
                        work.push_back((ra, rb, exact, true));
                    }
                }
                continue;
            }
        };
        path!("projection");
        // m[col][ra][rb]
        let mut m: Vec<Vec<Vec<Option<bool>>>> = vec![vec![vec![None; nb]; na]; ncols];
        let mut filled = 0usize;
        for b in &batches {
            let (ra, rb) = (i32col(b, 0), i32col(b, 1));
            for c in 0..ncols {
                let v = boolcol(b, 2 + c);
                for i in 0..b.num_rows() { m[c][ra[i] as usize][rb[i] as usize] = v[i]; }
            }
            filled += b.num_rows();
        }
        if filled != na * nb { viol!(json!({"case": {"ta": ta.name, "tb": tb.name}, "kind": "cross join row count", "observed": filled, "expected": na * nb})); continue; }
        let mut pair_viol = 0u64;
        for ra in 0..na { for rb in 0..nb {
            let (ia, ib) = (ta.rows[ra].0, tb.rows[rb].0);
            if ia == 0 || ib == 0 { path!("NULL operand"); }
            if ia < 0 || ib < 0 { path!("float special operand (NaN / inf)"); }
            for (k, op) in OPS.iter().enumerate() {
                evaluations += 1;
                let (x, y) = (m[k][ra][rb], m[6 + k][ra][rb]);
                if x != y {
                    pair_viol += 1;
                    viol!(json!({"case": case(ra, rb), "kind": "mirror", "expr": format!("a {op} b"), "observed": x, "mirrored_expr": format!("b {} a", mirror(op)), "mirrored_observed": y,
                                 "oracle": "NumLine!MirrorLaw: a op b = b mirror(op) a"}));
                }
                if exact {
                    exact_checked += 1;
                    let want = cmp_idx(op, ia, ib);
                    if x != want {
                        pair_viol += 1;
                        viol!(json!({"case": case(ra, rb), "kind": "exact", "expr": format!("a {op} b"), "observed": x, "expected": want,
                                     "oracle": "NumLine!Cmp3: integer/decimal comparison = comparison of the numbers (NULL if an operand is NULL)"}));
                    }
                }
            }
            // the comparison in other syntactic contexts, stated in terms of the pairwise operators
            let (eq, ne, lt, ge) = (m[0][ra][rb], m[1][ra][rb], m[2][ra][rb], m[5][ra][rb]);
            let both_null = ia == 0 && ib == 0;
            let any_null = ia == 0 || ib == 0;
            let ndf = if both_null { Some(true) } else if any_null { Some(false) } else { eq };
            let wants: [(usize, Option<bool>, bool); 9] = [
                (12, eq, false), (13, eq, true), (14, ne, true), (15, Some(eq == Some(true)), false),
                (16, if lt == Some(true) { Some(true) } else if ge == Some(true) { Some(false) } else { None }, false),
                (17, ndf, false), (18, not3(ndf), false), (19, eq, true), (20, ne, false)];
            for (c, want, is_in_list) in wants {
                evaluations += 1;
                let got = m[c][ra][rb];
                if got != want {
                    if is_in_list || exact {
                        pair_viol += 1;
                        viol!(json!({"case": case(ra, rb), "kind": if is_in_list { "IN list with a column entry" } else { "comparison context" }, "expr": extra[c - 12], "observed": got,
                                     "pairwise": {"=": eq, "<>": ne, "<": lt, ">=": ge}, "expected": want,
                                     "oracle": "IN lists agree with the pairwise comparison; for integers/decimals every comparison context gives the mathematically correct answer"}));
                    } else {
                        context_info += 1;
                    }
                }
            }
            distinct.insert((ta.name.clone(), tb.name.clone(), ia, ib));
        } }
        path!("IN list with a non-literal entry");
        path!("BETWEEN / CASE / IS DISTINCT FROM contexts");
        if samples.len() < 3 && exact && ta.name != tb.name && na > 4 && nb > 4 {
            samples.push(json!({"case": case(na - 2, nb - 3), "a_lt_b": m[2][na - 2][nb - 3], "a_eq_b": m[0][na - 2][nb - 3]}));
        }
        let truth = |k: usize| -> BTreeSet<(i32, i32)> { let mut s = BTreeSet::new(); for ra in 0..na { for rb in 0..nb { if m[k][ra][rb] == Some(true) { s.insert((ra as i32, rb as i32)); } } } s };
        let pairs_of = |bs: &Vec<RecordBatch>| -> Vec<(i32, i32)> { let mut v = vec![]; for b in bs { let (x, y) = (i32col(b, 0), i32col(b, 1)); for i in 0..b.num_rows() { v.push((x[i], y[i])); } } v };
        let cmp_pairs = |h: &mut H, smj: bool, sql: String, want: &BTreeSet<(i32, i32)>, kind: &str, violations: &mut Vec<Value>, nviol: &mut u64, errors: &mut Vec<Value>, nerr: &mut u64| -> bool {
            match h.run(smj, &sql) {
                Ok(bs) => {
                    let got = pairs_of(&bs);
                    let gs: BTreeSet<(i32, i32)> = got.iter().copied().collect();
                    if gs != *want || got.len() != gs.len() {
                        let d = gs.symmetric_difference(want).next().copied();
                        *nviol += 1;
                        if violations.len() < 400 {
                            violations.push(json!({"case": d.map(|(x, y)| json!({"ta": ta.name, "tb": tb.name, "a": ta.rows[x as usize].1, "b": tb.rows[y as usize].1})).unwrap_or(json!({"ta": ta.name, "tb": tb.name})),
                                "kind": kind, "sql": sql, "observed_rows": got.len(), "expected_rows": want.len(), "in_result": d.map(|d| gs.contains(&d)),
                                "oracle": "filter / join result = the pairs for which the projected comparison is true (NumLine!JoinLaw)"}));
                        }
                    }
                    true
                }
                Err(e) => { *nerr += 1; if errors.len() < 60 { errors.push(json!({"ta": ta.name, "tb": tb.name, "where": kind, "error": e.chars().take(200).collect::<String>()})); } false }
            }
        };
        // 2. filter (nested loop / cross join + filter)
        for op in &filter_ops {
            let k = OPS.iter().position(|o| o == op).unwrap();
            if cmp_pairs(&mut h, false, format!("SELECT a.r, b.r FROM {} a, {} b WHERE a.v {op} b.v", ta.table, tb.table), &truth(k), "filter", &mut violations, &mut nviol, &mut errors, &mut nerr) { path!("filter"); }
        }
        // 3. equi-join: hash and sort-merge, both key orders, residual filter, null-equal keys
        let eq = truth(0);
        if cmp_pairs(&mut h, false, format!("SELECT a.r, b.r FROM {} a JOIN {} b ON a.v = b.v", ta.table, tb.table), &eq, "equi-join", &mut violations, &mut nviol, &mut errors, &mut nerr) { path!("equi-join (hash)"); }
        if cmp_pairs(&mut h, false, format!("SELECT a.r, b.r FROM {} a JOIN {} b ON b.v = a.v", ta.table, tb.table), &eq, "equi-join (mirrored key order)", &mut violations, &mut nviol, &mut errors, &mut nerr) { path!("equi-join (mirrored key order)"); }
        if cmp_pairs(&mut h, true, format!("SELECT a.r, b.r FROM {} a JOIN {} b ON a.v = b.v", ta.table, tb.table), &eq, "equi-join (sort-merge)", &mut violations, &mut nviol, &mut errors, &mut nerr) { path!("equi-join (sort-merge)"); }
        let eq_res: BTreeSet<(i32, i32)> = eq.iter().copied().filter(|p| p.0 % 2 == 0).collect();
        if cmp_pairs(&mut h, false, format!("SELECT a.r, b.r FROM {} a JOIN {} b ON a.v = b.v AND a.r % 2 = 0", ta.table, tb.table), &eq_res, "equi-join with a residual filter", &mut violations, &mut nviol, &mut errors, &mut nerr) { path!("equi-join with a residual filter"); }
        if cmp_pairs(&mut h, false, format!("SELECT a.r, b.r FROM {} a JOIN {} b ON a.v IS NOT DISTINCT FROM b.v", ta.table, tb.table), &truth(17), "null-equal join (IS NOT DISTINCT FROM key)", &mut violations, &mut nviol, &mut errors, &mut nerr) { path!("null-equal join"); }
        // 4. literals of type B against column of type A (cast unwrapping), both orders
        for op in &filter_ops {
            let k = OPS.iter().position(|o| o == op).unwrap();
            let mut cols = vec![];
            for (_, text) in &tb.rows { let l = literal(tb, text); cols.push(format!("a.v {op} {l}")); cols.push(format!("{l} {} a.v", mirror(op))); }
            let sql = format!("SELECT a.r, {} FROM {} a", alias(&cols), ta.table);
            match h.q(&sql) {
                Ok(bs) => { path!("column vs literal"); for b in &bs {
                    let ra = i32col(b, 0);
                    for rb in 0..nb { for side in 0..2 {
                        let v = boolcol(b, 1 + 2 * rb + side);
                        for i in 0..b.num_rows() {
                            evaluations += 1;
                            let want = m[k][ra[i] as usize][rb];
                            if v[i] != want {
                                viol!(json!({"case": case(ra[i] as usize, rb), "kind": if side == 0 { "column op literal" } else { "literal mirror(op) column" }, "op": op,
                                             "observed": v[i], "pairwise_column_comparison": want, "oracle": "a comparison against a literal agrees with the pairwise comparison of the same values"}));
                            }
                        }
                    } }
                } },
                Err(e) => err!(json!({"ta": ta.name, "tb": tb.name, "where": "literal", "error": e.chars().take(200).collect::<String>()})),
            }
            // the same in a filter (the cast-unwrapping rewrite of predicates)
            let rb = (k * 7 + na) % nb;
            let l = literal(tb, &tb.rows[rb].1);
            let want: BTreeSet<i32> = (0..na).filter(|ra| m[k][*ra][rb] == Some(true)).map(|x| x as i32).collect();
            match h.q(&format!("SELECT a.r FROM {} a WHERE a.v {op} {l}", ta.table)) {
                Ok(bs) => {
                    path!("column vs literal in a filter");
                    let mut got: Vec<i32> = vec![]; for b in &bs { got.extend(i32col(b, 0)); }
                    let gs: BTreeSet<i32> = got.iter().copied().collect();
                    if gs != want || gs.len() != got.len() {
                        let d = gs.symmetric_difference(&want).next().copied();
                        viol!(json!({"case": d.map(|d| case(d as usize, rb)).unwrap_or(json!({"ta": ta.name, "tb": tb.name})), "kind": "filter: column op literal", "op": op,
                                     "in_result": d.map(|d| gs.contains(&d)), "oracle": "a filter against a literal keeps the rows for which the pairwise comparison is true"}));
                    }
                }
                Err(e) => err!(json!({"ta": ta.name, "tb": tb.name, "where": "literal filter", "error": e.chars().take(200).collect::<String>()})),
            }
        }
        // 5. IN / NOT IN lists of literals of several sizes, with and without a NULL entry (three-valued), in a projection
        let nonnull: Vec<usize> = (0..nb).filter(|rb| tb.rows[*rb].0 != 0).collect();
        if !nonnull.is_empty() {
            let mut lists: Vec<(Vec<usize>, bool)> = vec![];     // (rows of B, with a NULL literal)
            for (li, &sz) in list_sizes.iter().enumerate() {
                let sz = if sz == 0 { nonnull.len() } else { sz };
                let off = (li * 5 + na) % nonnull.len();
                let rows: Vec<usize> = (0..sz).map(|j| nonnull[(off + j * 3) % nonnull.len()]).collect();
                lists.push((rows.clone(), false));
                if li % 2 == 0 { lists.push((rows, true)); }
            }
            let mut cols = vec![];
            for (rows, with_null) in &lists {
                let mut ls: Vec<String> = rows.iter().map(|rb| literal(tb, &tb.rows[*rb].1)).collect();
                if *with_null { ls.insert(ls.len() / 2, "NULL".into()); }
                cols.push(format!("a.v IN ({})", ls.join(", ")));
                cols.push(format!("a.v NOT IN ({})", ls.join(", ")));
            }
            let sql = format!("SELECT a.r, {} FROM {} a", alias(&cols), ta.table);
            match h.q(&sql) {
                Ok(bs) => for b in &bs {
                    let ra = i32col(b, 0);
                    for (li, (rows, with_null)) in lists.iter().enumerate() {
                        path!(format!("IN list of {} literals{}", match rows.len() { 0..=3 => "1-3", 4 => "4", 5..=8 => "5-8", 9..=16 => "9-16", 17..=32 => "17-32", _ => "33+" }, if *with_null { " + NULL" } else { "" }));
                        let (vin, vnot) = (boolcol(b, 1 + 2 * li), boolcol(b, 2 + 2 * li));
                        for i in 0..b.num_rows() {
                            evaluations += 2;
                            let a = ra[i] as usize;
                            let mut any_true = false; let mut any_null = *with_null;
                            for rb in rows { match m[0][a][*rb] { Some(true) => any_true = true, None => any_null = true, _ => {} } }
                            let want = if any_true { Some(true) } else if any_null { None } else { Some(false) };
                            for (got, want, neg) in [(vin[i], want, false), (vnot[i], not3(want), true)] {
                                if got != want {
                                    viol!(json!({"case": {"ta": ta.name, "tb": tb.name, "a": ta.rows[a].1, "list": rows.iter().map(|rb| tb.rows[*rb].1.clone()).collect::<Vec<_>>(), "list_has_null": with_null},
                                                 "kind": if neg { "NOT IN list" } else { "IN list" }, "observed": got, "expected": want,
                                                 "oracle": "x IN (list) = OR of the pairwise x = y (three-valued; NumLine!InLaw)"}));
                                }
                            }
                        }
                    }
                },
                Err(e) => err!(json!({"ta": ta.name, "tb": tb.name, "where": "IN list", "error": e.chars().take(200).collect::<String>()})),
            }
        }
        // IN list in a filter and IN subquery
        let want_in: BTreeSet<i32> = eq.iter().map(|p| p.0).collect();
        let lits: Vec<String> = tb.rows.iter().map(|(_, t)| literal(tb, t)).collect();
        for (kind, sql) in [("IN list (filter)", format!("SELECT a.r FROM {} a WHERE a.v IN ({})", ta.table, lits.join(", "))),
                            ("IN subquery", format!("SELECT a.r FROM {} a WHERE a.v IN (SELECT v FROM {})", ta.table, tb.table))] {
            match h.q(&sql) {
                Ok(bs) => {
                    path!(kind);
                    let mut got: Vec<i32> = vec![]; for b in &bs { got.extend(i32col(b, 0)); }
                    let gs: BTreeSet<i32> = got.iter().copied().collect();
                    evaluations += na as u64;
                    if gs != want_in || gs.len() != got.len() {
                        let d = gs.symmetric_difference(&want_in).next().copied();
                        viol!(json!({"case": {"ta": ta.name, "tb": tb.name, "a": d.map(|d| ta.rows[d as usize].1.clone())}, "kind": kind, "observed_rows": got.len(), "expected_rows": want_in.len(),
                                     "in_result": d.map(|d| gs.contains(&d)), "oracle": "x IN (list) = exists y in list: x = y (NumLine!InLaw), with = as evaluated pairwise"}));
                    }
                }
                Err(e) => err!(json!({"ta": ta.name, "tb": tb.name, "where": kind, "error": e.chars().take(200).collect::<String>()})),
            }
        }
        // the common type the engine chose (information only)
        if let Ok(bs) = h.q(&format!("EXPLAIN SELECT a.v = b.v FROM {} a CROSS JOIN {} b", ta.table, tb.table)) {
            if let Some(b) = bs.first() {
                if let Some(a) = b.column(1).as_any().downcast_ref::<StringArray>() {
                    let plan = a.value(0).lines().next().unwrap_or("").to_string();
                    if coercion.len() < 900 { coercion.push(json!({"ta": ta.name, "tb": tb.name, "projection": plan.chars().take(160).collect::<String>()})); }
                }
            }
        }
        pair_stats.push(json!({"ta": ta.name, "tb": tb.name, "rows": [na, nb], "exact": exact, "restricted_to_common_values": restricted, "violations": pair_viol}));
    }
    let res = json!({
        "evaluations": evaluations, "exact_comparisons_checked": exact_checked, "distinct_nontrivial": distinct.len(), "queries": h.queries,
        "violations": violations, "n_violations": nviol, "errors": errors, "n_errors": nerr, "samples": samples, "pairs": pair_stats.len(),
        "pairs_retried_on_common_values": restricted_pairs, "coercion": coercion, "paths": paths, "violation_classes": vclasses,
        "non_exact_context_answers_differing_from_pairwise_operators": context_info,
    });
    std::fs::write(&out, serde_json::to_string(&res).unwrap()).unwrap();
    util::summary(json!({"evaluations": evaluations, "n_violations": nviol, "n_errors": nerr, "queries": h.queries}));
}
