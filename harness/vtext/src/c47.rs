//! C47 — mixed-type comparisons are order-independent and exact for integers/decimals (B3 driver of NumLine.tla).
//!
//! Input (`--in`): {"values": [exact decimal string per index (1-based)], "types": [{"name", "idxs"}],
//!                  "pairs": [{"ta","tb","exact"}], "filter_ops": [...]}.
//! For every ordered type pair the comparison is evaluated through SQL over typed MemTables: in a projection
//! (all six operators, both operand orders), in a filter, in an equi-join (both orders), against literals (both
//! orders; the cast-unwrapping path), in an IN list and an IN subquery.
//! Oracles: mirror law; filter / join / literal / IN agree with the pairwise projection; for exact pairs the
//! projection equals the comparison of indices (NumLine!Cmp).
use arrow::array::{Array, ArrayRef, BooleanArray, Decimal128Array, Float32Array, Float64Array, Int8Array, Int16Array, Int32Array, Int64Array,
                   StringArray, UInt8Array, UInt16Array, UInt32Array, UInt64Array};
use arrow::datatypes::{DataType, Field, Schema};
use arrow::record_batch::RecordBatch;
use datafusion::datasource::MemTable;
use datafusion::prelude::{SessionConfig, SessionContext};
use serde_json::{Value, json};
use std::collections::{BTreeSet, HashMap};
use std::sync::Arc;
use vcommon::util;

const OPS: [&str; 6] = ["=", "<>", "<", "<=", ">", ">="];
fn mirror(op: &str) -> &'static str { match op { "<" => ">", "<=" => ">=", ">" => "<", ">=" => "<=", "=" => "=", _ => "<>" } }
fn cmp_idx(op: &str, i: i64, j: i64) -> bool { match op { "=" => i == j, "<>" => i != j, "<" => i < j, "<=" => i <= j, ">" => i > j, _ => i >= j } }

fn dec_scaled(s: &str, scale: u32) -> i128 {
    let neg = s.starts_with('-');
    let t = s.trim_start_matches('-');
    let (ip, fp) = t.split_once('.').unwrap_or((t, ""));
    assert!(fp.len() as u32 <= scale, "value {s} has more than {scale} fractional digits");
    let mut digits = String::from(ip);
    digits.push_str(fp);
    for _ in 0..(scale - fp.len() as u32) { digits.push('0'); }
    let v: i128 = digits.parse().unwrap();
    if neg { -v } else { v }
}

#[derive(Clone)]
struct Ty { name: String, table: String, sql_type: String, rows: Vec<(i64, String)> }   // rows: (index, literal text)

fn arrow_type(name: &str) -> (DataType, String) {
    let d = |p, s| (DataType::Decimal128(p, s), format!("Decimal128({p}, {s})"));
    match name {
        "i8" => (DataType::Int8, "Int8".into()), "i16" => (DataType::Int16, "Int16".into()), "i32" => (DataType::Int32, "Int32".into()),
        "i64" => (DataType::Int64, "Int64".into()), "u8" => (DataType::UInt8, "UInt8".into()), "u16" => (DataType::UInt16, "UInt16".into()),
        "u32" => (DataType::UInt32, "UInt32".into()), "u64" => (DataType::UInt64, "UInt64".into()),
        "f32" => (DataType::Float32, "Float32".into()), "f64" => (DataType::Float64, "Float64".into()),
        "d20_0" => d(20, 0), "d10_2" => d(10, 2), "d38_10" => d(38, 10),
        "utf8" => (DataType::Utf8, "Utf8".into()),
        "dict_i64" => (DataType::Dictionary(Box::new(DataType::Int32), Box::new(DataType::Int64)), "Int64".into()),
        "dict_utf8" => (DataType::Dictionary(Box::new(DataType::Int32), Box::new(DataType::Utf8)), "Utf8".into()),
        _ => panic!("unknown type {name}"),
    }
}

fn build_array(name: &str, vals: &[String]) -> ArrayRef {
    macro_rules! ints { ($A:ty, $T:ty) => { Arc::new(<$A>::from(vals.iter().map(|s| s.parse::<$T>().unwrap_or_else(|_| panic!("{s} as {}", name))).collect::<Vec<$T>>())) as ArrayRef } }
    let dec = |p: u8, s: i8| -> ArrayRef {
        Arc::new(Decimal128Array::from(vals.iter().map(|v| dec_scaled(v, s as u32)).collect::<Vec<i128>>()).with_precision_and_scale(p, s).unwrap())
    };
    match name {
        "i8" => ints!(Int8Array, i8), "i16" => ints!(Int16Array, i16), "i32" => ints!(Int32Array, i32), "i64" => ints!(Int64Array, i64),
        "u8" => ints!(UInt8Array, u8), "u16" => ints!(UInt16Array, u16), "u32" => ints!(UInt32Array, u32), "u64" => ints!(UInt64Array, u64),
        "f32" => ints!(Float32Array, f32), "f64" => ints!(Float64Array, f64),
        "d20_0" => dec(20, 0), "d10_2" => dec(10, 2), "d38_10" => dec(38, 10),
        "utf8" => Arc::new(StringArray::from(vals.to_vec())),
        "dict_i64" => arrow::compute::cast(&build_array("i64", vals), &arrow_type(name).0).unwrap(),
        "dict_utf8" => arrow::compute::cast(&build_array("utf8", vals), &arrow_type(name).0).unwrap(),
        _ => panic!("unknown type {name}"),
    }
}

fn literal(t: &Ty, text: &str) -> String {
    if t.sql_type == "Utf8" { format!("'{text}'") } else { format!("arrow_cast('{text}', '{}')", t.sql_type) }
}

struct H { rt: tokio::runtime::Runtime, ctx: SessionContext, queries: u64 }
impl H {
    fn q(&mut self, sql: &str) -> Result<Vec<RecordBatch>, String> {
        self.queries += 1;
        let ctx = self.ctx.clone();
        let r = std::panic::catch_unwind(std::panic::AssertUnwindSafe(|| self.rt.block_on(async {
            let df = ctx.sql(sql).await.map_err(|e| e.to_string())?;
            df.collect().await.map_err(|e| e.to_string())
        })));
        match r { Ok(x) => x, Err(_) => Err("panic".into()) }
    }
}

fn i32col(b: &RecordBatch, c: usize) -> Vec<i32> { let a = b.column(c).as_any().downcast_ref::<Int32Array>().unwrap(); (0..a.len()).map(|i| a.value(i)).collect() }
fn boolcol(b: &RecordBatch, c: usize) -> Vec<Option<bool>> {
    let a = b.column(c).as_any().downcast_ref::<BooleanArray>().unwrap_or_else(|| panic!("column {c} is {:?}", b.column(c).data_type()));
    (0..a.len()).map(|i| if a.is_null(i) { None } else { Some(a.value(i)) }).collect()
}

pub fn main() {
    let inp: Value = serde_json::from_str(&std::fs::read_to_string(util::arg("--in").expect("--in")).unwrap()).unwrap();
    let out = util::arg("--out").expect("--out");
    std::panic::set_hook(Box::new(|_| {}));
    let values: Vec<String> = inp["values"].as_array().unwrap().iter().map(|v| v.as_str().unwrap().to_string()).collect();
    let filter_ops: Vec<String> = inp["filter_ops"].as_array().unwrap().iter().map(|v| v.as_str().unwrap().to_string()).collect();
    let rt = tokio::runtime::Builder::new_multi_thread().worker_threads(2).enable_all().build().unwrap();
    let ctx = SessionContext::new_with_config(SessionConfig::new().with_target_partitions(3));
    let mut tys: HashMap<String, Ty> = HashMap::new();
    for t in inp["types"].as_array().unwrap() {
        let name = t["name"].as_str().unwrap().to_string();
        let mut rows: Vec<(i64, String)> = t["idxs"].as_array().unwrap().iter().map(|i| { let i = i.as_i64().unwrap(); (i, values[i as usize - 1].clone()) }).collect();
        if name == "f32" || name == "f64" {
            // negative zero is another spelling of the number 0
            if let Some(z) = rows.iter().find(|r| r.1 == "0").map(|r| r.0) { rows.push((z, "-0".into())); }
        }
        let (dt, sql_type) = arrow_type(&name);
        let arr = build_array(&name, &rows.iter().map(|r| r.1.clone()).collect::<Vec<_>>());
        let schema = Arc::new(Schema::new(vec![Field::new("r", DataType::Int32, false), Field::new("v", dt, true)]));
        let rcol: ArrayRef = Arc::new(Int32Array::from((0..rows.len() as i32).collect::<Vec<_>>()));
        // two partitions so that joins/filters see more than one batch
        let b = RecordBatch::try_new(Arc::clone(&schema), vec![rcol, arr]).unwrap();
        let h = b.num_rows() / 2;
        let parts = vec![vec![b.slice(0, h)], vec![b.slice(h, b.num_rows() - h)]];
        ctx.register_table(format!("t_{name}").as_str(), Arc::new(MemTable::try_new(schema, parts).unwrap())).unwrap();
        tys.insert(name.clone(), Ty { table: format!("t_{name}"), name, sql_type, rows });
    }
    let mut h = H { rt, ctx, queries: 0 };
    let mut violations: Vec<Value> = vec![];
    let mut nviol = 0u64;
    let mut errors: Vec<Value> = vec![];
    let mut nerr = 0u64;
    let mut evaluations = 0u64;
    let mut exact_checked = 0u64;
    let mut distinct: BTreeSet<(String, String, i64, i64)> = BTreeSet::new();
    let mut coercion: Vec<Value> = vec![];
    let mut samples: Vec<Value> = vec![];
    let mut pair_stats: Vec<Value> = vec![];
    macro_rules! viol { ($v:expr) => {{ nviol += 1; if violations.len() < 40 { violations.push($v); } }}; }
    macro_rules! err { ($v:expr) => {{ nerr += 1; if errors.len() < 40 { errors.push($v); } }}; }

    let mut work: std::collections::VecDeque<(Ty, Ty, bool, bool)> = inp["pairs"].as_array().unwrap().iter()
        .map(|p| (tys[p["ta"].as_str().unwrap()].clone(), tys[p["tb"].as_str().unwrap()].clone(), p["exact"].as_bool().unwrap(), false)).collect();
    let mut restricted_pairs = 0u64;
    let mut tmp_tables = 0u64;
    while let Some((ta_o, tb_o, exact, restricted)) = work.pop_front() {
        let (ta, tb) = (&ta_o, &tb_o);
        let (na, nb) = (ta.rows.len(), tb.rows.len());
        let case = |ra: usize, rb: usize| json!({"ta": ta.name, "tb": tb.name, "a": ta.rows[ra].1, "b": tb.rows[rb].1});
        // 1. projection: all operators, both operand orders
        let mut cols: Vec<String> = vec![];
        for op in OPS { cols.push(format!("a.v {op} b.v")); }
        for op in OPS { cols.push(format!("b.v {} a.v", mirror(op))); }
        let sql = format!("SELECT a.r, b.r, {} FROM {} a CROSS JOIN {} b", cols.join(", "), ta.table, tb.table);
        let batches = match h.q(&sql) {
            Ok(b) => b,
            Err(e) => {
                err!(json!({"ta": ta.name, "tb": tb.name, "where": if restricted { "projection (restricted)" } else { "projection" }, "error": e.chars().take(200).collect::<String>()}));
                if !restricted {
                    // an error is allowed by the property; the laws are still checked on the values both types represent
                    let common: BTreeSet<i64> = ta.rows.iter().map(|r| r.0).filter(|i| tb.rows.iter().any(|r| r.0 == *i)).collect();
                    if !common.is_empty() {
                        let mut mk = |t: &Ty| -> Ty {
                            let rows: Vec<(i64, String)> = t.rows.iter().filter(|r| common.contains(&r.0)).cloned().collect();
                            tmp_tables += 1;
                            let table = format!("r{}_{}", tmp_tables, t.name);
                            let (dt, _) = arrow_type(&t.name);
                            let arr = build_array(&t.name, &rows.iter().map(|r| r.1.clone()).collect::<Vec<_>>());
                            let schema = Arc::new(Schema::new(vec![Field::new("r", DataType::Int32, false), Field::new("v", dt, true)]));
                            let rcol: ArrayRef = Arc::new(Int32Array::from((0..rows.len() as i32).collect::<Vec<_>>()));
                            let b = RecordBatch::try_new(Arc::clone(&schema), vec![rcol, arr]).unwrap();
                            h.ctx.register_table(table.as_str(), Arc::new(MemTable::try_new(schema, vec![vec![b]]).unwrap())).unwrap();
                            Ty { name: t.name.clone(), table, sql_type: t.sql_type.clone(), rows }
                        };
                        let (ra, rb) = (mk(ta), mk(tb));
                        restricted_pairs += 1;
                        work.push_back((ra, rb, exact, true));
                    }
                }
                continue;
            }
        };
        // m[op][ra][rb]
        let mut m: Vec<Vec<Vec<Option<bool>>>> = vec![vec![vec![None; nb]; na]; 12];
        let mut filled = 0usize;
        for b in &batches {
            let (ra, rb) = (i32col(b, 0), i32col(b, 1));
            for c in 0..12 {
                let v = boolcol(b, 2 + c);
                for i in 0..b.num_rows() { m[c][ra[i] as usize][rb[i] as usize] = v[i]; }
            }
            filled += b.num_rows();
        }
        if filled != na * nb { viol!(json!({"case": {"ta": ta.name, "tb": tb.name}, "kind": "cross join row count", "observed": filled, "expected": na * nb})); continue; }
        let mut pair_viol = 0u64;
        for ra in 0..na { for rb in 0..nb {
            let (ia, ib) = (ta.rows[ra].0, tb.rows[rb].0);
            for (k, op) in OPS.iter().enumerate() {
                evaluations += 1;
                let (x, y) = (m[k][ra][rb], m[6 + k][ra][rb]);
                if x != y {
                    pair_viol += 1;
                    viol!(json!({"case": case(ra, rb), "kind": "mirror", "expr": format!("a {op} b"), "observed": x, "mirrored_expr": format!("b {} a", mirror(op)), "mirrored_observed": y,
                                 "oracle": "NumLine!MirrorLaw: a op b = b mirror(op) a"}));
                }
                if exact {
                    exact_checked += 1;
                    let want = cmp_idx(op, ia, ib);
                    if x != Some(want) {
                        pair_viol += 1;
                        viol!(json!({"case": case(ra, rb), "kind": "exact", "expr": format!("a {op} b"), "observed": x, "expected": want,
                                     "oracle": "NumLine!Cmp: integer/decimal comparison = comparison of the numbers"}));
                    }
                }
            }
            if ia != ib || true { distinct.insert((ta.name.clone(), tb.name.clone(), ia, ib)); }
        } }
        if samples.len() < 3 && exact && ta.name != tb.name && na > 3 && nb > 3 {
            samples.push(json!({"case": case(na - 1, nb - 2), "a_lt_b": m[2][na - 1][nb - 2], "a_eq_b": m[0][na - 1][nb - 2]}));
        }
        let truth = |k: usize| -> BTreeSet<(i32, i32)> { let mut s = BTreeSet::new(); for ra in 0..na { for rb in 0..nb { if m[k][ra][rb] == Some(true) { s.insert((ra as i32, rb as i32)); } } } s };
        let pairs_of = |bs: &Vec<RecordBatch>| -> Vec<(i32, i32)> { let mut v = vec![]; for b in bs { let (x, y) = (i32col(b, 0), i32col(b, 1)); for i in 0..b.num_rows() { v.push((x[i], y[i])); } } v };
        let cmp_pairs = |h: &mut H, sql: String, want: &BTreeSet<(i32, i32)>, kind: &str, violations: &mut Vec<Value>, nviol: &mut u64, errors: &mut Vec<Value>, nerr: &mut u64| {
            match h.q(&sql) {
                Ok(bs) => {
                    let got = pairs_of(&bs);
                    let gs: BTreeSet<(i32, i32)> = got.iter().copied().collect();
                    if gs != *want || got.len() != gs.len() {
                        let d = gs.symmetric_difference(want).next().copied();
                        *nviol += 1;
                        if violations.len() < 40 {
                            violations.push(json!({"case": d.map(|(x, y)| json!({"ta": ta.name, "tb": tb.name, "a": ta.rows[x as usize].1, "b": tb.rows[y as usize].1})).unwrap_or(json!({"ta": ta.name, "tb": tb.name})),
                                "kind": kind, "sql": sql, "observed_rows": got.len(), "expected_rows": want.len(), "in_result": d.map(|d| gs.contains(&d)),
                                "oracle": "filter / join result = the pairs for which the projected comparison is true (NumLine!JoinLaw)"}));
                        }
                    }
                }
                Err(e) => { *nerr += 1; if errors.len() < 40 { errors.push(json!({"ta": ta.name, "tb": tb.name, "where": kind, "error": e.chars().take(200).collect::<String>()})); } }
            }
        };
        // 2. filter (nested loop / cross join + filter)
        for op in &filter_ops {
            let k = OPS.iter().position(|o| o == op).unwrap();
            cmp_pairs(&mut h, format!("SELECT a.r, b.r FROM {} a, {} b WHERE a.v {op} b.v", ta.table, tb.table), &truth(k), "filter", &mut violations, &mut nviol, &mut errors, &mut nerr);
        }
        // 3. equi-join, both key orders
        let eq = truth(0);
        cmp_pairs(&mut h, format!("SELECT a.r, b.r FROM {} a JOIN {} b ON a.v = b.v", ta.table, tb.table), &eq, "equi-join", &mut violations, &mut nviol, &mut errors, &mut nerr);
        cmp_pairs(&mut h, format!("SELECT a.r, b.r FROM {} a JOIN {} b ON b.v = a.v", ta.table, tb.table), &eq, "equi-join (mirrored key order)", &mut violations, &mut nviol, &mut errors, &mut nerr);
        // 4. literals of type B against column of type A (cast unwrapping), both orders
        for op in &filter_ops {
            let k = OPS.iter().position(|o| o == op).unwrap();
            let mut cols = vec![];
            for (_, text) in &tb.rows { let l = literal(tb, text); cols.push(format!("a.v {op} {l}")); cols.push(format!("{l} {} a.v", mirror(op))); }
            let sql = format!("SELECT a.r, {} FROM {} a", cols.join(", "), ta.table);
            match h.q(&sql) {
                Ok(bs) => for b in &bs {
                    let ra = i32col(b, 0);
                    for rb in 0..nb { for side in 0..2 {
                        let v = boolcol(b, 1 + 2 * rb + side);
                        for i in 0..b.num_rows() {
                            evaluations += 1;
                            let want = m[k][ra[i] as usize][rb];
                            if v[i] != want {
                                viol!(json!({"case": case(ra[i] as usize, rb), "kind": if side == 0 { "column op literal" } else { "literal mirror(op) column" }, "op": op,
                                             "observed": v[i], "pairwise_column_comparison": want, "oracle": "a comparison against a literal agrees with the pairwise comparison of the same values"}));
                            }
                        }
                    } }
                },
                Err(e) => err!(json!({"ta": ta.name, "tb": tb.name, "where": "literal", "error": e.chars().take(200).collect::<String>()})),
            }
        }
        // 5. IN list of literals and IN subquery
        let want_in: BTreeSet<i32> = eq.iter().map(|p| p.0).collect();
        let lits: Vec<String> = tb.rows.iter().map(|(_, t)| literal(tb, t)).collect();
        for (kind, sql) in [("IN list", format!("SELECT a.r FROM {} a WHERE a.v IN ({})", ta.table, lits.join(", "))),
                            ("IN subquery", format!("SELECT a.r FROM {} a WHERE a.v IN (SELECT v FROM {})", ta.table, tb.table))] {
            match h.q(&sql) {
                Ok(bs) => {
                    let mut got: Vec<i32> = vec![]; for b in &bs { got.extend(i32col(b, 0)); }
                    let gs: BTreeSet<i32> = got.iter().copied().collect();
                    evaluations += na as u64;
                    if gs != want_in || gs.len() != got.len() {
                        let d = gs.symmetric_difference(&want_in).next().copied();
                        viol!(json!({"case": {"ta": ta.name, "tb": tb.name, "a": d.map(|d| ta.rows[d as usize].1.clone())}, "kind": kind, "observed_rows": got.len(), "expected_rows": want_in.len(),
                                     "in_result": d.map(|d| gs.contains(&d)), "oracle": "x IN (list) = exists y in list: x = y (NumLine!InLaw), with = as evaluated pairwise"}));
                    }
                }
                Err(e) => err!(json!({"ta": ta.name, "tb": tb.name, "where": kind, "error": e.chars().take(200).collect::<String>()})),
            }
        }
        // the common type the engine chose (information only)
        if let Ok(bs) = h.q(&format!("EXPLAIN SELECT a.v = b.v FROM {} a CROSS JOIN {} b", ta.table, tb.table)) {
            if let Some(b) = bs.first() {
                if let Some(a) = b.column(1).as_any().downcast_ref::<StringArray>() {
                    let plan = a.value(0).lines().next().unwrap_or("").to_string();
                    if coercion.len() < 400 { coercion.push(json!({"ta": ta.name, "tb": tb.name, "projection": plan.chars().take(160).collect::<String>()})); }
                }
            }
        }
        pair_stats.push(json!({"ta": ta.name, "tb": tb.name, "rows": [na, nb], "exact": exact, "restricted_to_common_values": restricted, "violations": pair_viol}));
    }
    let res = json!({
        "evaluations": evaluations, "exact_comparisons_checked": exact_checked, "distinct_nontrivial": distinct.len(), "queries": h.queries,
        "violations": violations, "n_violations": nviol, "errors": errors, "n_errors": nerr, "samples": samples, "pairs": pair_stats.len(), "pairs_retried_on_common_values": restricted_pairs, "coercion": coercion,
    });
    std::fs::write(&out, serde_json::to_string(&res).unwrap()).unwrap();
    util::summary(json!({"evaluations": evaluations, "n_violations": nviol, "n_errors": nerr, "queries": h.queries}));
}
