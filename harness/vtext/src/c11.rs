//! C11 — hash partition index = hash mod partition count (binding of FastMod.tla at W = 64).
//!
//! Oracle: the specification's top-level definition, `n % d`.
//!  1. `--cases FILE`: TLC-enumerated cases {w,d,n,r} (small widths are valid 64-bit inputs too).
//!  2. structured boundary values x structured divisors + seeded random pairs through
//!     `verif_strength_reduced_remainder` (the private `StrengthReducedU64::new` + `quotient`).
//!  3. `verif_partition_indices` (the production `partition_indices` loop) for many partition counts.
//!  4. the production `BatchPartitioner` hash path end to end: every row's partition must be
//!     `create_hashes(REPARTITION_RANDOM_STATE) % n`.
use arrow::array::{Array, ArrayRef, Int64Array, StringArray};
use arrow::datatypes::{DataType, Field, Schema};
use arrow::record_batch::RecordBatch;
use datafusion_common::hash_utils::create_hashes;
use datafusion_physical_expr::expressions::col;
use datafusion_physical_plan::metrics;
use datafusion_physical_plan::repartition::verif_export::{verif_partition_indices, verif_strength_reduced_remainder};
use datafusion_physical_plan::repartition::{BatchPartitioner, REPARTITION_RANDOM_STATE};
use rand::{Rng, SeedableRng};
use serde_json::{Value, json};
use std::collections::HashSet;
use std::panic::{AssertUnwindSafe, catch_unwind};
use std::sync::Arc;
use vcommon::util;

/// the carry of `quotient()` recomputed here only to *measure* coverage (never used as an oracle)
fn carry_of(d: u64, n: u64) -> Option<u64> {
    if d.is_power_of_two() {
        return None;
    }
    let m = u128::MAX / u128::from(d) + 1;
    let lo = u128::from(n) * u128::from(m as u64);
    let hi = u128::from(n) * u128::from((m >> 64) as u64);
    Some((((hi & u128::from(u64::MAX)) + (lo >> 64)) >> 64) as u64)
}

/// transcribed *mutants* of the algorithm; only used to measure how many of the generated inputs would
/// expose each class of error (sensitivity of the input set; never an oracle)
const MUTANTS: [&str; 5] = ["recip_floor", "recip_plus2", "no_carry", "carry_low_only", "mask_d"];
fn mutant_remainder(kind: usize, d: u64, n: u64) -> u64 {
    if d.is_power_of_two() {
        return if kind == 4 { n & d } else { n & (d - 1) };
    }
    let m = (u128::MAX / u128::from(d)).wrapping_add(match kind { 0 => 0, 1 => 2, _ => 1 });
    let lo = u128::from(n) * u128::from(m as u64);
    let hi = u128::from(n) * u128::from((m >> 64) as u64);
    let carry = match kind {
        2 => 0,
        3 => (lo >> 64) >> 64,
        _ => ((hi & u128::from(u64::MAX)) + (lo >> 64)) >> 64,
    };
    let q = ((hi >> 64) + carry) as u64;
    n.wrapping_sub(q.wrapping_mul(d))
}

struct Acc {
    reuse_batches: u64,
    sens: [u64; 5],
    evaluations: u64,
    nontrivial: HashSet<(u64, u64)>,
    carry1: u64,
    carry0: u64,
    pow2: u64,
    violations: Vec<Value>,
    nviol: u64,
    samples: Vec<Value>,
}

impl Acc {
    fn remainder(&mut self, d: u64, n: u64, origin: &str) {
        self.evaluations += 1;
        let got = catch_unwind(AssertUnwindSafe(|| verif_strength_reduced_remainder(d, n)));
        let want = n % d;
        for k in 0..5 {
            if mutant_remainder(k, d, n) != want {
                self.sens[k] += 1;
            }
        }
        match carry_of(d, n) {
            None => self.pow2 += 1,
            Some(1) => self.carry1 += 1,
            Some(_) => self.carry0 += 1,
        }
        if !d.is_power_of_two() && n >= d && self.nontrivial.len() < 2_000_000 {
            self.nontrivial.insert((d, n));
        }
        let ok = matches!(got, Ok(g) if g == want);
        if !ok {
            self.nviol += 1;
            if self.violations.len() < 20 {
                self.violations.push(json!({"case": {"kind": "remainder", "d": d, "n": n}, "origin": origin,
                    "observed": match got { Ok(g) => json!(g), Err(_) => json!("panic") }, "expected": want,
                    "oracle": "StrengthReducedU64 remainder = n % d (FastMod.tla IndexIsMod)"}));
            }
        } else if self.samples.len() < 3 && !d.is_power_of_two() && n > d && d > 64 {
            self.samples.push(json!({"d": d, "n": n, "remainder": want, "origin": origin}));
        }
    }

    /// the production loop: every hash must land in partition hash % divisor, each row exactly once
    fn indices(&mut self, divisor: usize, hashes: &[u64], origin: &str) {
        self.evaluations += 1;
        let got = catch_unwind(AssertUnwindSafe(|| verif_partition_indices(divisor, hashes)));
        let mut bad: Option<Value> = None;
        match got {
            Err(_) => bad = Some(json!("panic in partition_indices (index out of range / arithmetic overflow)")),
            Ok(ix) => {
                let mut seen = vec![false; hashes.len()];
                if ix.len() != divisor {
                    bad = Some(json!(format!("{} partitions returned", ix.len())));
                }
                'o: for (p, rows) in ix.iter().enumerate() {
                    for &r in rows {
                        let r = r as usize;
                        if r >= hashes.len() || seen[r] || (hashes[r] % divisor as u64) as usize != p {
                            bad = Some(json!({"row": r, "hash": hashes.get(r), "partition": p,
                                              "expected": hashes.get(r).map(|h| h % divisor as u64)}));
                            break 'o;
                        }
                        seen[r] = true;
                    }
                }
                if bad.is_none() && seen.iter().any(|s| !s) {
                    bad = Some(json!("a row was assigned to no partition"));
                }
            }
        }
        if let Some(b) = bad {
            self.nviol += 1;
            if self.violations.len() < 20 {
                let h: Vec<u64> = hashes.iter().copied().take(4096).collect();
                self.violations.push(json!({"case": {"kind": "indices", "divisor": divisor, "hashes": h}, "origin": origin,
                    "observed": b, "oracle": "partition_indices puts row i into partition hashes[i] % divisor"}));
            }
        }
    }


    /// one partitioner reused over several consecutive batches (state carried between batches: the per-partition
    /// index vectors and the hash buffer must be reset), alternating `partition_iter` and the callback API `partition`
    fn batch_reuse(&mut self, nparts: usize, seed: u64, origin: &str) {
        self.evaluations += 1;
        let schema = Arc::new(Schema::new(vec![
            Field::new("id", DataType::Int64, false),
            Field::new("k1", DataType::Int64, true),
        ]));
        let mut rng = rand::rngs::StdRng::seed_from_u64(seed ^ 0xBA7C);
        let sizes = [257usize, 0, 1, 90, 17, 300];
        let exprs = vec![col("k1", &schema).unwrap()];
        let mut p = match BatchPartitioner::new_hash_partitioner(exprs, nparts, metrics::Time::new()) {
            Ok(p) => p,
            Err(e) => { self.nviol += 1; self.violations.push(json!({"case": {"kind": "batch_reuse", "partitions": nparts, "seed": seed}, "observed": e.to_string()})); return; }
        };
        let mut bad: Option<Value> = None;
        'outer: for (bi, &rows) in sizes.iter().enumerate() {
            let k1: Vec<Option<i64>> = (0..rows).map(|_| if rng.random_range(0..9) == 0 { None } else { Some(rng.random()) }).collect();
            let a1: ArrayRef = Arc::new(Int64Array::from(k1));
            let batch = RecordBatch::try_new(Arc::clone(&schema), vec![Arc::new(Int64Array::from((0..rows as i64).collect::<Vec<_>>())), Arc::clone(&a1)]).unwrap();
            let mut hashes = vec![0u64; rows];
            create_hashes(&[a1], REPARTITION_RANDOM_STATE.random_state(), &mut hashes).unwrap();
            let res = catch_unwind(AssertUnwindSafe(|| -> Result<Vec<(usize, RecordBatch)>, String> {
                if bi % 2 == 0 {
                    let it = p.partition_iter(batch).map_err(|e| e.to_string())?;
                    it.map(|r| r.map_err(|e| e.to_string())).collect()
                } else {
                    let mut out = vec![];
                    p.partition(batch, |i, b| { out.push((i, b)); Ok(()) }).map_err(|e| e.to_string())?;
                    Ok(out)
                }
            }));
            self.reuse_batches += 1;
            match res {
                Err(_) => { bad = Some(json!({"batch": bi, "what": "panic"})); break 'outer; }
                Ok(Err(e)) => { bad = Some(json!({"batch": bi, "what": format!("error: {e}")})); break 'outer; }
                Ok(Ok(parts)) => {
                    let mut seen = vec![false; rows];
                    for (pi, b) in parts {
                        let idc = b.column(0).as_any().downcast_ref::<Int64Array>().unwrap();
                        for i in 0..idc.len() {
                            let r = idc.value(i) as usize;
                            if r >= rows || seen[r] || pi >= nparts || (hashes[r] % nparts as u64) as usize != pi {
                                bad = Some(json!({"batch": bi, "rows_in_batch": rows, "row": r, "partition": pi, "expected": hashes.get(r).map(|h| h % nparts as u64), "duplicate_or_stale": r >= rows || seen[r]}));
                                break 'outer;
                            }
                            seen[r] = true;
                        }
                    }
                    if seen.iter().any(|s| !s) { bad = Some(json!({"batch": bi, "what": "a row is missing from the partitioned output"})); break 'outer; }
                }
            }
        }
        if let Some(b) = bad {
            self.nviol += 1;
            if self.violations.len() < 20 {
                self.violations.push(json!({"case": {"kind": "batch_reuse", "partitions": nparts, "seed": seed}, "origin": origin, "observed": b,
                    "oracle": "a reused BatchPartitioner puts each row of each batch into partition create_hashes(keys) % n, exactly once"}));
            }
        }
    }

    /// end to end through BatchPartitioner::new_hash_partitioner(..).partition_iter
    fn batch(&mut self, nparts: usize, rows: usize, seed: u64, origin: &str) {
        self.evaluations += 1;
        let mut rng = rand::rngs::StdRng::seed_from_u64(seed);
        let ids: Vec<i64> = (0..rows as i64).collect();
        let k1: Vec<Option<i64>> = (0..rows)
            .map(|_| match rng.random_range(0..10) {
                0 => None,
                1 => Some(i64::MAX),
                2 => Some(rng.random_range(-3..3)),
                _ => Some(rng.random()),
            })
            .collect();
        let k2: Vec<Option<String>> = (0..rows)
            .map(|_| if rng.random_range(0..8) == 0 { None } else { Some(format!("k{}", rng.random_range(0..1000u32))) })
            .collect();
        let schema = Arc::new(Schema::new(vec![
            Field::new("id", DataType::Int64, false),
            Field::new("k1", DataType::Int64, true),
            Field::new("k2", DataType::Utf8, true),
        ]));
        let a1: ArrayRef = Arc::new(Int64Array::from(k1));
        let a2: ArrayRef = Arc::new(StringArray::from(k2));
        let batch = RecordBatch::try_new(Arc::clone(&schema), vec![Arc::new(Int64Array::from(ids)), Arc::clone(&a1), Arc::clone(&a2)]).unwrap();
        // one or two key columns
        let two = seed % 2 == 0;
        let keys: Vec<ArrayRef> = if two { vec![a1, a2] } else { vec![a1] };
        let mut hashes = vec![0u64; rows];
        create_hashes(&keys, REPARTITION_RANDOM_STATE.random_state(), &mut hashes).unwrap();
        let mut exprs = vec![col("k1", &schema).unwrap()];
        if two {
            exprs.push(col("k2", &schema).unwrap());
        }
        let res = catch_unwind(AssertUnwindSafe(|| -> Result<Vec<(usize, RecordBatch)>, String> {
            let mut p = BatchPartitioner::new_hash_partitioner(exprs, nparts, metrics::Time::new()).map_err(|e| e.to_string())?;
            let it = p.partition_iter(batch).map_err(|e| e.to_string())?;
            it.map(|r| r.map_err(|e| e.to_string())).collect()
        }));
        let mut bad: Option<Value> = None;
        match res {
            Err(_) => bad = Some(json!("panic in the hash partitioner")),
            Ok(Err(e)) => bad = Some(json!(format!("error: {e}"))),
            Ok(Ok(parts)) => {
                let mut seen = vec![false; rows];
                'o: for (p, b) in parts {
                    let idc = b.column(0).as_any().downcast_ref::<Int64Array>().unwrap();
                    for i in 0..idc.len() {
                        let r = idc.value(i) as usize;
                        let want = (hashes[r] % nparts as u64) as usize;
                        if seen[r] || want != p || p >= nparts {
                            bad = Some(json!({"row": r, "hash": hashes[r], "partition": p, "expected": want, "duplicate": seen[r]}));
                            break 'o;
                        }
                        seen[r] = true;
                        if hashes[r] >= nparts as u64 && !(nparts as u64).is_power_of_two() && self.nontrivial.len() < 2_000_000 {
                            self.nontrivial.insert((nparts as u64, hashes[r]));
                        }
                    }
                }
                if bad.is_none() && seen.iter().any(|s| !s) {
                    bad = Some(json!("a row is missing from the partitioned output"));
                }
            }
        }
        if let Some(b) = bad {
            self.nviol += 1;
            if self.violations.len() < 20 {
                self.violations.push(json!({"case": {"kind": "batch", "partitions": nparts, "rows": rows, "seed": seed}, "origin": origin,
                    "observed": b, "oracle": "BatchPartitioner puts each row into partition create_hashes(keys, REPARTITION_RANDOM_STATE) % n"}));
            }
        }
    }
}

fn divisors(rng: &mut rand::rngs::StdRng, nrand: usize) -> Vec<u64> {
    let mut d: Vec<u64> = (1..=64).collect();
    for k in 1..64u32 {
        let p = 1u64 << k;
        d.extend([p, p - 1, p + 1]);
    }
    d.extend([
        u64::MAX, u64::MAX - 1, u64::MAX - 2, (1u64 << 63) + 1, (1u64 << 63) - 1,
        // primes: 2^64-59, 2^63-25, 2^61-1, 2^32-5, 2^32+15, 2^31-1, 1e9+7, 1e18+3
        18446744073709551557, 9223372036854775783, 2305843009213693951, 4294967291, 4294967311, 2147483647,
        1_000_000_007, 1_000_000_000_000_000_003,
        // products / near-multiples that stress the error term
        0xFFFF_FFFF_0000_0001, 0x8000_0000_8000_0001, 0xAAAA_AAAA_AAAA_AAAB, 0x5555_5555_5555_5555, 6700417, 641,
        3 * (1u64 << 62) / 2, 0xFFFF_FFFF, 0x1_0000_0001, 10_000_000_000, 1_000_003, 65_537, 4_099, 1_000, 100, 97, 127, 129,
    ]);
    for _ in 0..nrand {
        let bits = rng.random_range(2..=64u32);
        let v: u64 = rng.random::<u64>() >> (64 - bits);
        d.push(v.max(1));
    }
    d.retain(|x| *x > 0);
    d.sort_unstable();
    d.dedup();
    d
}

fn values_for(d: u64, rng: &mut rand::rngs::StdRng, nrand: usize) -> Vec<u64> {
    let mut v: Vec<u64> = vec![0, 1, 2, 3, u64::MAX, u64::MAX - 1, u64::MAX / 2, u64::MAX / 2 + 1, u64::MAX / 3];
    for k in 1..64u32 {
        let p = 1u64 << k;
        v.extend([p - 1, p, p + 1]);
    }
    // multiples of d and their neighbours: small multiples, the largest ones, random ones
    let kmax = u64::MAX / d;
    let mut ks = vec![1u64, 2, 3, 7, kmax, kmax.saturating_sub(1), kmax / 2, kmax / 2 + 1];
    for _ in 0..6 {
        ks.push(if kmax == 0 { 0 } else { rng.random_range(0..=kmax) });
    }
    for k in ks {
        if let Some(m) = k.checked_mul(d) {
            v.extend([m.wrapping_sub(1), m, m.saturating_add(1), m.saturating_add(d - 1), m.saturating_add(d / 2)]);
        }
    }
    v.extend([d, d - 1, d.saturating_add(1), d.saturating_mul(2).saturating_sub(1)]);
    for _ in 0..nrand {
        let bits = rng.random_range(1..=64u32);
        v.push(rng.random::<u64>() >> (64 - bits));
    }
    v
}

pub fn main() {
    let out = util::arg("--out").expect("--out");
    let seed = util::seed();
    let quick = util::tier_quick();
    let mut rng = rand::rngs::StdRng::seed_from_u64(seed ^ 0xC11);
    std::panic::set_hook(Box::new(|_| {}));
    let mut acc = Acc { reuse_batches: 0, sens: [0; 5], evaluations: 0, nontrivial: HashSet::new(), carry1: 0, carry0: 0, pow2: 0, violations: vec![], nviol: 0, samples: vec![] };
    let mut stats = serde_json::Map::new();

    if let Some(rp) = util::arg("--replay") {
        let v: Value = serde_json::from_str(&std::fs::read_to_string(&rp).unwrap()).unwrap();
        let c = &v["case"];
        match c["kind"].as_str().unwrap_or("") {
            "remainder" => acc.remainder(c["d"].as_u64().unwrap(), c["n"].as_u64().unwrap(), "replay"),
            "indices" => {
                let h: Vec<u64> = c["hashes"].as_array().unwrap().iter().map(|x| x.as_u64().unwrap()).collect();
                acc.indices(c["divisor"].as_u64().unwrap() as usize, &h, "replay")
            }
            "batch_reuse" => acc.batch_reuse(c["partitions"].as_u64().unwrap() as usize, c["seed"].as_u64().unwrap(), "replay"),
            "batch" => acc.batch(c["partitions"].as_u64().unwrap() as usize, c["rows"].as_u64().unwrap() as usize, c["seed"].as_u64().unwrap(), "replay"),
            k => panic!("unknown replay kind {k}"),
        }
    } else {
        // 1. TLC cases
        let mut tlc_cases = 0u64;
        if let Some(f) = util::arg("--cases") {
            let cases = util::read_ndjson(&f);
            let mut by_d: std::collections::BTreeMap<u64, Vec<u64>> = Default::default();
            for c in &cases {
                let (d, n, r) = (c["d"].as_u64().unwrap(), c["n"].as_u64().unwrap(), c["r"].as_u64().unwrap());
                if n % d != r {
                    eprintln!("TLC case disagrees with % : {c}");
                    std::process::exit(3);
                }
                acc.remainder(d, n, "tlc");
                by_d.entry(d).or_default().push(n);
                tlc_cases += 1;
            }
            for (d, ns) in by_d {
                acc.indices(d as usize, &ns, "tlc");
            }
        }
        stats.insert("tlc_cases_replayed".into(), json!(tlc_cases));
        // 2. structured x structured, plus random pairs
        let ds = divisors(&mut rng, if quick { 300 } else { 3000 });
        let mut pairs = 0u64;
        for &d in &ds {
            for n in values_for(d, &mut rng, if quick { 24 } else { 200 }) {
                acc.remainder(d, n, "structured");
                pairs += 1;
            }
        }
        stats.insert("structured_divisors".into(), json!(ds.len()));
        stats.insert("structured_pairs".into(), json!(pairs));
        let nrand = if quick { 120_000 } else { 8_000_000 };
        for _ in 0..nrand {
            let bd = rng.random_range(2..=64u32);
            let d = (rng.random::<u64>() >> (64 - bd)).max(1);
            let n = if rng.random_range(0..4) == 0 { rng.random::<u64>() >> rng.random_range(0..64u32) } else { rng.random::<u64>() };
            acc.remainder(d, n, "random");
        }
        stats.insert("random_pairs".into(), json!(nrand));
        // small exhaustive corner natively (all d <= 300, n <= 2000) -- also the scope TLC proves at W <= 8
        let mut small = 0u64;
        for d in 1..=(if quick { 130u64 } else { 300 }) {
            for n in 0..=(if quick { 1100u64 } else { 2000 }) {
                acc.remainder(d, n, "small-exhaustive");
                small += 1;
            }
        }
        stats.insert("small_exhaustive_pairs".into(), json!(small));
        // 3. the production loop
        let mut counts: Vec<usize> = (1..=64).collect();
        counts.extend([96, 97, 100, 127, 128, 129, 255, 256, 257, 1000, 1023, 1024, 1025, 4096, 4099, 65_535, 65_536, 65_537, 1_000_003]);
        let mut loops = 0u64;
        for &c in &counts {
            let mut hashes = values_for(c as u64, &mut rng, if quick { 300 } else { 3000 });
            for _ in 0..(if quick { 300 } else { 3000 }) {
                hashes.push(rng.random());
            }
            acc.indices(c, &hashes, "partition_indices");
            loops += hashes.len() as u64;
        }
        stats.insert("partition_indices_counts".into(), json!(counts.len()));
        stats.insert("partition_indices_rows".into(), json!(loops));
        // 4. BatchPartitioner end to end
        let mut bcounts: Vec<usize> = (1..=64).collect();
        bcounts.extend([100, 127, 128, 129, 1000, 1023, 1024, 1025, 4096, 65_537]);
        let mut brows = 0u64;
        for (i, &c) in bcounts.iter().enumerate() {
            for rep in 0..(if quick { 2 } else { 10 }) {
                let rows = if quick { 700 } else { 4000 };
                acc.batch(c, rows, seed.wrapping_mul(1_000_003).wrapping_add((i * 16 + rep) as u64), "BatchPartitioner");
                brows += rows as u64;
            }
        }
        for (i, &c) in bcounts.iter().enumerate() {
            acc.batch_reuse(c, seed.wrapping_mul(7919).wrapping_add(i as u64), "BatchPartitioner reused");
        }
        // zero partitions must be refused, not divide by zero
        let zero_refused = BatchPartitioner::new_hash_partitioner(vec![], 0, metrics::Time::new()).is_err();
        stats.insert("zero_partitions_refused".into(), json!(zero_refused));
        stats.insert("batch_partitioner_reuse_batches".into(), json!(acc.reuse_batches));
        stats.insert("batch_partitioner_counts".into(), json!(bcounts.len()));
        stats.insert("batch_partitioner_rows".into(), json!(brows));
    }
    let res = json!({
        "evaluations": acc.evaluations,
        "distinct_nontrivial": acc.nontrivial.len(),
        "carry_one": acc.carry1, "carry_zero": acc.carry0, "power_of_two_divisor": acc.pow2,
        "violations": acc.violations, "n_violations": acc.nviol,
        "samples": acc.samples,
        "inputs_that_would_expose_a_transcribed_mutant": MUTANTS.iter().zip(acc.sens.iter()).map(|(k, v)| (k.to_string(), json!(v))).collect::<serde_json::Map<String, Value>>(),
        "stats": stats,
    });
    std::fs::write(&out, serde_json::to_string(&res).unwrap()).unwrap();
    util::summary(json!({"evaluations": acc.evaluations, "n_violations": acc.nviol}));
}
