//! C43 — configuration options round-trip through their text form (B2 recorder for ConfigTrace.tla).
//!
//! The key set, every key's class and its candidate texts are derived from the implementation's own
//! `ConfigOptions::entries()` (+ the runtime entries shown by `information_schema.df_settings`).
//! Histories of Set/Show through three front ends (ConfigOptions::set, SessionConfig, SQL SET/SHOW/
//! df_settings) are recorded as NDJSON runs; after every call the full listing is diffed.
use datafusion::execution::memory_pool::MemoryLimit;
use datafusion::prelude::{SessionConfig, SessionContext};
use datafusion_common::config::ConfigOptions;
use rand::seq::SliceRandom;
use rand::{Rng, SeedableRng};
use serde_json::{Value, json};
use std::collections::HashMap;
use std::panic::{AssertUnwindSafe, catch_unwind};
use vcommon::util;

#[derive(Clone, Copy, PartialEq, Debug)]
enum Class { Bool, UInt, Float, Opt, Str, Size, Dur, NoSet }

const RAW_MEM: &str = "raw:datafusion.runtime.memory_limit(bytes)";
const RAW_TMP: &str = "raw:datafusion.runtime.max_temp_directory_size(bytes)";
const UMBRELLA: &str = "datafusion.optimizer.enable_dynamic_filter_pushdown";
const UMBRELLA_OVER: [&str; 3] = [
    "datafusion.optimizer.enable_topk_dynamic_filter_pushdown",
    "datafusion.optimizer.enable_join_dynamic_filter_pushdown",
    "datafusion.optimizer.enable_aggregate_dynamic_filter_pushdown",
];

fn classify(key: &str, default: &Option<String>) -> Class {
    if key.starts_with("raw:") || key == "datafusion.runtime.temp_directory" { return Class::NoSet; }
    if key.starts_with("datafusion.runtime.") {
        if key.ends_with("_ttl") { return Class::Dur; }
        if key.ends_with("fan_in") { return Class::UInt; }
        return Class::Size;
    }
    match default {
        None => Class::Opt,
        Some(v) if v == "true" || v == "false" => Class::Bool,
        Some(v) if v.parse::<u64>().is_ok() => Class::UInt,
        Some(v) if v.parse::<f64>().is_ok() && v.contains('.') => Class::Float,
        _ => Class::Str,
    }
}

struct Cand { text: &'static str, plain: bool, inval: bool }
const fn c(text: &'static str) -> Cand { Cand { text, plain: false, inval: false } }
const fn p(text: &'static str) -> Cand { Cand { text, plain: true, inval: false } }
const fn x(text: &'static str) -> Cand { Cand { text, plain: false, inval: true } }

static BOOL: &[Cand] = &[p("true"), p("false"), c("TRUE"), c("False"), c("1"), c("0"), c("yes"), c("t"), c(" true"), x("maybe"), x("tru"), x("-"), x("0x")];
static UINT: &[Cand] = &[c("0"), p("1"), p("2"), p("3"), p("7"), p("64"), p("100"), p("255"), p("256"), p("1000"), p("65536"), p("4294967295"), p("4294967296"),
    p("18446744073709551615"), c("+5"), c("007"), c(" 8"), c("1_000"), c("1e3"), c("-1"), c("18446744073709551616"), c("0x10"), c("5.0"),
    x("abc"), x("1.5x"), x("--1"), x("1 2"), x("ten")];
static UINT_SQL: &[Cand] = &[p("1"), p("2"), p("3"), p("7"), p("64"), c("+5"), c("007"), c("-1"), c("5.0"), x("abc"), x("1.5x"), x("--1"), x("ten")];
static FLOAT: &[Cand] = &[p("0"), p("1"), p("2"), p("0.5"), p("0.25"), p("10"), c("1e-3"), c(".5"), c("5."), c("-0.5"), c("NaN"), c("inf"), c("100"), x("abc"), x("1..2"), x("--")];
static STR: &[Cand] = &[c("abc"), c("zstd"), c("snappy"), c("uncompressed"), c("gzip"), c("lz4"), c("ZSTD(3)"), c("zstd(3)"), c("tree"), c("indent"), c("pgjson"), c("postgresql"),
    c("postgres"), c("PostgreSQL"), c("mysql"), c("generic"), c("utf8"), c("error"), c("last_win"), c("iso8601"), c("pretty"), c("A b"), c(""), c("1.0"), c("2.0"), c("true"),
    c("datafusion"), c("public"), c("NULL"), c("%Y-%m-%d"), c("+00:00"), c("none"), c("always"), c("necessary"), c("never"), c("Always"), c("null"), c("skip"), c("raise")];
static OPT: &[Cand] = &[c("abc"), c("1"), c("64"), c("true"), c("false"), c("0.5"), c("0.01"), c("utf8"), c("plain"), c("+00:00"), c("%Y"), c("ns"), c("us"), c("1048576"), c("rle"), c("")];
static SIZE: &[Cand] = &[p("1K"), p("64K"), p("1M"), p("512M"), p("1G"), p("2G"), c("1536M"), c("1.5G"), c("0.5K"), c("100"), c("0"), c("1024K"), c("unlimited"), c(" 1G"), c("1g"),
    x("abc"), x("-1G"), x("G")];
static DUR: &[Cand] = &[c("1m30s"), c("2m"), c("45s"), c("90s"), c("0s"), c("1h"), c("1m0s"), x("abc")];

fn cands(class: Class, sql: bool) -> &'static [Cand] {
    match class {
        Class::Bool => BOOL,
        Class::UInt => if sql { UINT_SQL } else { UINT },
        Class::Float => FLOAT,
        Class::Opt => OPT,
        Class::Str => STR,
        Class::Size => SIZE,
        Class::Dur => DUR,
        Class::NoSet => &[],
    }
}

struct Uni {
    keys: Vec<String>,
    kidx: HashMap<String, usize>,
    class: Vec<Class>,
    texts: Vec<String>,
    tidx: HashMap<String, usize>,
}

impl Uni {
    fn t(&mut self, s: &Option<String>) -> usize {
        match s {
            None => 0,
            Some(s) => {
                if let Some(i) = self.tidx.get(s) { return *i; }
                self.texts.push(s.clone());
                self.tidx.insert(s.clone(), self.texts.len());
                self.texts.len()
            }
        }
    }
}

type Snap = Vec<Option<String>>;

enum Fe {
    Opts(Box<ConfigOptions>),
    Sess(Box<SessionConfig>),
    Sql(Box<SessionContext>),
}

struct Drv {
    rt: tokio::runtime::Runtime,
    uni: Uni,
    sql_errors: u64,
    sql_unusable: u64,
    show_skipped: u64,
}

fn sql_quote(s: &str) -> String { format!("'{}'", s.replace('\'', "''")) }

impl Drv {
    fn run_sql(&self, ctx: &SessionContext, q: &str) -> Result<Vec<arrow::record_batch::RecordBatch>, String> {
        let fut = async {
            match tokio::time::timeout(std::time::Duration::from_secs(120), async {
                let df = ctx.sql(q).await.map_err(|e| e.to_string())?;
                df.collect().await.map_err(|e| e.to_string())
            }).await {
                Ok(r) => r,
                Err(_) => { eprintln!("machinery: SQL timed out: {q}"); std::process::exit(2) }
            }
        };
        match catch_unwind(AssertUnwindSafe(|| self.rt.block_on(fut))) {
            Ok(r) => r,
            Err(_) => Err("panic".into()),
        }
    }

    fn snapshot(&self, fe: &Fe) -> Snap {
        let mut s: Snap = vec![None; self.uni.keys.len()];
        let mut put = |k: &str, v: Option<String>| { if let Some(i) = self.uni.kidx.get(k) { s[*i] = v; } };
        match fe {
            Fe::Opts(o) => for e in o.entries() { put(&e.key, e.value) },
            Fe::Sess(c) => for e in c.options().entries() { put(&e.key, e.value) },
            Fe::Sql(ctx) => {
                let st = ctx.state();
                for e in st.config().options().entries() { put(&e.key, e.value) }
                let rt = ctx.runtime_env();
                // temp_directory shows the lazily created spill directories (a random path that appears when the
                // disk manager is first used): an observation of the environment, not a settable text form
                for e in rt.config_entries() { if e.key != "datafusion.runtime.temp_directory" { put(&e.key, e.value) } }
                put(RAW_MEM, Some(match rt.memory_pool.memory_limit() { MemoryLimit::Finite(n) => n.to_string(), MemoryLimit::Infinite => "infinite".into(), _ => "unknown".into() }));
                put(RAW_TMP, Some(rt.disk_manager.max_temp_directory_size().to_string()));
            }
        }
        s
    }

    /// Set(k, text) through the front end; returns ok
    fn set(&mut self, fe: &mut Fe, key: &str, text: &str, variant: u32) -> Option<bool> {
        Some(match fe {
            Fe::Opts(o) => o.set(key, text).is_ok(),
            Fe::Sess(cfg) => {
                if variant % 2 == 0 {
                    cfg.options_mut().set(key, text).is_ok()
                } else {
                    // the builder-style setter panics/ignores on failure: run it on a copy
                    let copy = (**cfg).clone();
                    match catch_unwind(AssertUnwindSafe(|| copy.set_str(key, text))) {
                        Ok(n) => {
                            // set_str cannot report failure: success is "the listing changed or the text is what is shown"
                            let ok = n.options().entries().iter().any(|e| e.key == key && e.value.as_deref() == Some(text))
                                || n.options().entries() != cfg.options().entries();
                            if ok { **cfg = n; }
                            // undecidable otherwise: fall back to the fallible API for the verdict
                            if !ok { return Some(cfg.options_mut().set(key, text).is_ok()); }
                            true
                        }
                        Err(_) => false,
                    }
                }
            }
            Fe::Sql(ctx) => {
                let q = if variant % 3 == 0 && !text.is_empty() && (text.chars().all(|c| c.is_ascii_digit()) || text == "true" || text == "false") {
                    format!("SET {key} = {text}")
                } else if variant % 3 == 1 {
                    format!("SET {key} TO {}", sql_quote(text))
                } else {
                    format!("SET {key} = {}", sql_quote(text))
                };
                let ctx2 = (**ctx).clone();
                let r = self.run_sql(&ctx2, &q);
                if let Err(e) = &r {
                    if e.starts_with("SQL error") || e == "panic" {
                        // the statement itself could not be parsed (e.g. the session's own recursion limit was set
                        // to 1): the front end is unusable, no observation about the option
                        self.sql_unusable += 1;
                        return None;
                    }
                    self.sql_errors += 1;
                }
                r.is_ok()
            }
        })
    }

    /// Show(k) through a *printing* front end (not the snapshot): Some(printed) or None when it cannot be asked
    fn show(&mut self, fe: &Fe, key: &str, variant: u32) -> Option<Option<String>> {
        match fe {
            Fe::Opts(o) => Some(o.entries().into_iter().find(|e| e.key == key).and_then(|e| e.value)),
            Fe::Sess(cfg) => Some(cfg.options().entries().into_iter().find(|e| e.key == key).and_then(|e| e.value)),
            Fe::Sql(ctx) => {
                let q = if variant % 2 == 0 { format!("SHOW {key}") } else { format!("SELECT name, value FROM information_schema.df_settings WHERE name = '{key}'") };
                let ctx2 = (**ctx).clone();
                match self.run_sql(&ctx2, &q) {
                    Ok(b) => {
                        let rows: usize = b.iter().map(|x| x.num_rows()).sum();
                        if rows != 1 { self.show_skipped += 1; return None; }
                        let b = b.iter().find(|x| x.num_rows() == 1).unwrap();
                        let col = arrow::compute::cast(b.column(1), &arrow::datatypes::DataType::Utf8).ok()?;
                        let a = col.as_any().downcast_ref::<arrow::array::StringArray>()?;
                        use arrow::array::Array;
                        Some(if a.is_null(0) { None } else { Some(a.value(0).to_string()) })
                    }
                    Err(_) => { self.show_skipped += 1; None }
                }
            }
        }
    }
}

fn new_fe(kind: &str) -> Fe {
    match kind {
        "opts" => Fe::Opts(Box::new(ConfigOptions::new())),
        "sess" => Fe::Sess(Box::new(SessionConfig::new())),
        _ => Fe::Sql(Box::new(SessionContext::new_with_config(SessionConfig::new().with_information_schema(true)))),
    }
}

pub fn main() {
    let out = util::arg("--out").expect("--out");
    let meta = util::arg("--meta").expect("--meta");
    let seed = util::seed();
    let quick = util::tier_quick();
    std::panic::set_hook(Box::new(|_| {}));
    let rt = tokio::runtime::Builder::new_current_thread().enable_all().build().unwrap();
    // the universe, from the implementation's own listing
    let mut keys: Vec<(String, Option<String>)> = ConfigOptions::new().entries().into_iter().map(|e| (e.key, e.value)).collect();
    let n_options = keys.len();
    {
        let ctx = SessionContext::new();
        for e in ctx.runtime_env().config_entries() { keys.push((e.key, e.value)); }
    }
    keys.push((RAW_MEM.into(), None));
    keys.push((RAW_TMP.into(), None));
    let mut uni = Uni { keys: vec![], kidx: HashMap::new(), class: vec![], texts: vec![], tidx: HashMap::new() };
    for (k, v) in &keys {
        uni.kidx.insert(k.clone(), uni.keys.len());
        uni.keys.push(k.clone());
        uni.class.push(classify(k, v));
    }
    let mut d = Drv { rt, uni, sql_errors: 0, sql_unusable: 0, show_skipped: 0 };
    let nkeys = d.uni.keys.len();
    let mut over: Vec<Value> = vec![];
    let mut over_map: HashMap<usize, Vec<usize>> = HashMap::new();
    if let Some(&u) = d.uni.kidx.get(UMBRELLA) {
        let js: Vec<usize> = UMBRELLA_OVER.iter().filter_map(|k| d.uni.kidx.get(*k).copied()).collect();
        over_map.insert(u, js);
    }
    let mut raw: Vec<Value> = vec![];
    for (k, r) in [("datafusion.runtime.memory_limit", RAW_MEM), ("datafusion.runtime.max_temp_directory_size", RAW_TMP)] {
        if let (Some(&a), Some(&b)) = (d.uni.kidx.get(k), d.uni.kidx.get(r)) { raw.push(json!({"k": a + 1, "js": [b + 1]})); }
    }
    for (k, js) in &over_map { over.push(json!({"k": k + 1, "js": js.iter().map(|j| j + 1).collect::<Vec<_>>()})); }

    let mut rng = rand::rngs::StdRng::seed_from_u64(seed ^ 0xC43);
    let mut runs: Vec<Value> = vec![];
    let mut n_set = 0u64; let mut n_show = 0u64; let mut n_ok = 0u64;
    let mut covered: Vec<[bool; 3]> = vec![[false; 3]; nkeys];   // per key: round trip at default, a changed value round trip, an invalid text

    // one step helper
    macro_rules! do_set {
        ($fe:expr, $ev:expr, $snap:expr, $ki:expr, $text:expr, $plain:expr, $inval:expr) => {{
            let key = d.uni.keys[$ki].clone();
            let text: String = $text;
            let Some(ok) = d.set(&mut $fe, &key, &text, rng.random()) else { continue };
            let after = d.snapshot(&$fe);
            let mut ch = vec![];
            for j in 0..nkeys { if after[j] != $snap[j] { let t = d.uni.t(&after[j]); ch.push(json!([j + 1, t])); } }
            let t = d.uni.t(&Some(text));
            $ev.push(json!({"op": "set", "k": $ki + 1, "t": t, "ok": ok, "ch": ch, "plain": $plain, "inval": $inval}));
            $snap = after;
            n_set += 1; if ok { n_ok += 1; }
            ok
        }};
    }
    macro_rules! do_show {
        ($fe:expr, $ev:expr, $ki:expr) => {{
            let key = d.uni.keys[$ki].clone();
            if let Some(v) = d.show(&$fe, &key, rng.random()) {
                let t = d.uni.t(&v);
                $ev.push(json!({"op": "show", "k": $ki + 1, "t": t}));
                n_show += 1;
            }
        }};
    }

    // 1. coverage runs: every key, through every front end that has it
    let per_run = 8usize;
    for fe_kind in ["opts", "sql", "sess"] {
        let settable: Vec<usize> = (0..nkeys).filter(|&i| d.uni.class[i] != Class::NoSet && (fe_kind == "sql" || i < n_options)).collect();
        for chunk in settable.chunks(per_run) {
            let mut fe = new_fe(fe_kind);
            let mut snap = d.snapshot(&fe);
            let init: Vec<usize> = snap.clone().iter().map(|v| d.uni.t(v)).collect();
            let mut ev: Vec<Value> = vec![json!({"op": "init", "cfg": init})];
            for &ki in chunk {
                let class = d.uni.class[ki];
                do_show!(fe, ev, ki);
                // round trip of the default text
                if let Some(v) = snap[ki].clone() {
                    do_set!(fe, ev, snap, ki, v, false, false);
                    covered[ki][0] = true;
                }
                let mut cs: Vec<&Cand> = cands(class, fe_kind == "sql").iter().collect();
                cs.shuffle(&mut rng);
                let take = if fe_kind == "sess" { 4 } else if quick { 10 } else { cs.len() };
                for cand in cs.into_iter().take(take) {
                    let ok = do_set!(fe, ev, snap, ki, cand.text.to_string(), cand.plain, cand.inval);
                    if cand.inval { covered[ki][2] = true; }
                    if ok {
                        do_show!(fe, ev, ki);
                        if let Some(v) = snap[ki].clone() {
                            // Set(k, Show(k)) on a non-default value
                            do_set!(fe, ev, snap, ki, v, false, false);
                            covered[ki][1] = true;
                        }
                    }
                }
            }
            runs.push(json!({"keys": nkeys, "over": over, "raw": raw, "fe": fe_kind, "kind": "coverage", "ev": ev}));
        }
    }
    // 2. seeded random histories mixing keys
    let nrand = if quick { 24 } else { 200 };
    for r in 0..nrand {
        let fe_kind = ["opts", "sql", "sess"][r % 3];
        let mut fe = new_fe(fe_kind);
        let mut snap = d.snapshot(&fe);
        let init: Vec<usize> = snap.clone().iter().map(|v| d.uni.t(v)).collect();
        let mut ev: Vec<Value> = vec![json!({"op": "init", "cfg": init})];
        let settable: Vec<usize> = (0..nkeys).filter(|&i| d.uni.class[i] != Class::NoSet && (fe_kind == "sql" || i < n_options)).collect();
        let mut touched: Vec<usize> = vec![];
        for _ in 0..(if quick { 60 } else { 150 }) {
            let ki = if !touched.is_empty() && rng.random_range(0..3) > 0 { touched[rng.random_range(0..touched.len())] } else { settable[rng.random_range(0..settable.len())] };
            match rng.random_range(0..10) {
                0..=2 => do_show!(fe, ev, ki),
                3..=5 => { if let Some(v) = snap[ki].clone() { do_set!(fe, ev, snap, ki, v, false, false); } }
                _ => {
                    let cs = cands(d.uni.class[ki], fe_kind == "sql");
                    let cand = &cs[rng.random_range(0..cs.len())];
                    if do_set!(fe, ev, snap, ki, cand.text.to_string(), cand.plain, cand.inval) { touched.push(ki); }
                }
            }
        }
        runs.push(json!({"keys": nkeys, "over": over, "raw": raw, "fe": fe_kind, "kind": "random", "ev": ev}));
    }
    util::write_ndjson(&out, &runs);
    let not_covered: Vec<&String> = (0..nkeys).filter(|&i| d.uni.class[i] != Class::NoSet && !(covered[i][0] || covered[i][1])).map(|i| &d.uni.keys[i]).collect();
    std::fs::write(&meta, serde_json::to_string(&json!({
        "keys": d.uni.keys, "classes": d.uni.class.iter().map(|c| format!("{c:?}")).collect::<Vec<_>>(), "texts": d.uni.texts,
        "n_options": n_options,
    })).unwrap()).unwrap();
    util::summary(json!({
        "runs": runs.len(), "set_events": n_set, "set_ok": n_ok, "show_events": n_show, "keys": nkeys, "option_keys": n_options,
        "keys_round_tripped_at_default": covered.iter().filter(|c| c[0]).count(),
        "keys_round_tripped_at_changed_value": covered.iter().filter(|c| c[1]).count(),
        "keys_given_invalid_text": covered.iter().filter(|c| c[2]).count(),
        "keys_never_round_tripped": not_covered,
        "sql_set_errors": d.sql_errors, "sql_front_end_unusable": d.sql_unusable, "sql_show_skipped": d.show_skipped,
    }));
}
