//! C43 — configuration options round-trip through their text form (B2 recorder for ConfigTrace.tla).
//!
//! The key set, every key's class and its candidate texts are derived from the implementation's own
//! `ConfigOptions::entries()` (+ the runtime entries shown by `information_schema.df_settings`).
//! Histories of Set/Show through three front ends (ConfigOptions::set, SessionConfig, SQL SET/SHOW/
//! df_settings) are recorded as NDJSON runs; after every call the full listing is diffed.
use datafusion::execution::memory_pool::MemoryLimit;
use datafusion::prelude::{SessionConfig, SessionContext};
use datafusion_common::config::{ConfigExtension, ConfigField, ConfigFileType, ConfigOptions, TableOptions};
use datafusion_common::{ScalarValue, extensions_options};
use rand::seq::SliceRandom;
use rand::{Rng, SeedableRng};
use serde_json::{Value, json};
use std::collections::HashMap;
use std::panic::{AssertUnwindSafe, catch_unwind};
use vcommon::util;

extensions_options! {
    /// An extension namespace registered by the harness (ConfigExtension / extensions_options!)
    pub struct VerifExt {
        /// a boolean extension option
        pub flag: bool, default = true
        /// an integer extension option
        pub rows: usize, default = 7
        /// a string extension option
        pub name: String, default = "x".to_string()
        /// a float extension option
        pub ratio: f64, default = 0.5
        /// an optional integer extension option
        pub limit: Option<usize>, default = None
    }
}
impl ConfigExtension for VerifExt { const PREFIX: &'static str = "verif"; }
const EXT_FIELDS: [&str; 5] = ["flag", "rows", "name", "ratio", "limit"];
/// the listing prints extension options without their namespace; the settable key has it
fn listed_key(k: &str) -> String { if EXT_FIELDS.contains(&k) { format!("verif.{k}") } else { k.to_string() } }

#[derive(Clone, Copy, PartialEq, Debug)]
enum Class { Bool, UInt, Float, Opt, Str, Size, Dur, NoSet }

const RAW_MEM: &str = "raw:datafusion.runtime.memory_limit(bytes)";
const RAW_TMP: &str = "raw:datafusion.runtime.max_temp_directory_size(bytes)";
const UMBRELLA: &str = "datafusion.optimizer.enable_dynamic_filter_pushdown";
const UMBRELLA_OVER: [&str; 3] = [
    "datafusion.optimizer.enable_topk_dynamic_filter_pushdown",
    "datafusion.optimizer.enable_join_dynamic_filter_pushdown",
    "datafusion.optimizer.enable_aggregate_dynamic_filter_pushdown",
];

fn classify(key: &str, default: &Option<String>) -> Class {
    if key.starts_with("raw:") || key == "datafusion.runtime.temp_directory" { return Class::NoSet; }
    if key.starts_with("datafusion.runtime.") {
        if key.ends_with("_ttl") { return Class::Dur; }
        if key.ends_with("fan_in") { return Class::UInt; }
        return Class::Size;
    }
    match default {
        None => Class::Opt,
        Some(v) if v == "true" || v == "false" => Class::Bool,
        Some(v) if v.parse::<u64>().is_ok() => Class::UInt,
        Some(v) if v.parse::<f64>().is_ok() && v.contains('.') => Class::Float,
        _ => Class::Str,
    }
}

struct Cand { text: &'static str, plain: bool, inval: bool }
const fn c(text: &'static str) -> Cand { Cand { text, plain: false, inval: false } }
const fn p(text: &'static str) -> Cand { Cand { text, plain: true, inval: false } }
const fn x(text: &'static str) -> Cand { Cand { text, plain: false, inval: true } }

static BOOL: &[Cand] = &[p("true"), p("false"), c("TRUE"), c("False"), c("1"), c("0"), c("yes"), c("t"), c(" true"), x("maybe"), x("tru"), x("-"), x("0x")];
static UINT: &[Cand] = &[c("0"), p("1"), p("2"), p("3"), p("7"), p("64"), p("100"), p("255"), p("256"), p("1000"), p("65536"), p("4294967295"), p("4294967296"),
    p("18446744073709551615"), c("+5"), c("007"), c(" 8"), c("1_000"), c("1e3"), c("-1"), c("18446744073709551616"), c("0x10"), c("5.0"),
    x("abc"), x("1.5x"), x("--1"), x("1 2"), x("ten")];
static UINT_SQL: &[Cand] = &[p("1"), p("2"), p("3"), p("7"), p("64"), c("+5"), c("007"), c("-1"), c("5.0"), x("abc"), x("1.5x"), x("--1"), x("ten")];
static FLOAT: &[Cand] = &[p("0"), p("1"), p("2"), p("0.5"), p("0.25"), p("10"), c("1e-3"), c(".5"), c("5."), c("-0.5"), c("NaN"), c("inf"), c("100"), x("abc"), x("1..2"), x("--")];
static STR: &[Cand] = &[c("abc"), c("zstd"), c("snappy"), c("uncompressed"), c("gzip"), c("lz4"), c("ZSTD(3)"), c("zstd(3)"), c("tree"), c("indent"), c("pgjson"), c("postgresql"),
    c("postgres"), c("PostgreSQL"), c("mysql"), c("generic"), c("utf8"), c("error"), c("last_win"), c("iso8601"), c("pretty"), c("A b"), c(""), c("1.0"), c("2.0"), c("true"),
    c("datafusion"), c("public"), c("NULL"), c("%Y-%m-%d"), c("+00:00"), c("none"), c("always"), c("necessary"), c("never"), c("Always"), c("null"), c("skip"), c("raise")];
static OPT: &[Cand] = &[c("abc"), c("1"), c("64"), c("true"), c("false"), c("0.5"), c("0.01"), c("utf8"), c("plain"), c("+00:00"), c("%Y"), c("ns"), c("us"), c("1048576"), c("rle"), c("")];
static SIZE: &[Cand] = &[p("1K"), p("64K"), p("1M"), p("512M"), p("1G"), p("2G"), c("1536M"), c("1.5G"), c("0.5K"), c("100"), c("0"), c("1024K"), c("unlimited"), c(" 1G"), c("1g"),
    x("abc"), x("-1G"), x("G")];
static DUR: &[Cand] = &[c("1m30s"), c("2m"), c("45s"), c("90s"), c("0s"), c("1h"), c("1m0s"), x("abc")];

fn cands_static(class: Class, sql: bool) -> &'static [Cand] {
    match class {
        Class::Bool => BOOL,
        Class::UInt => if sql { UINT_SQL } else { UINT },
        Class::Float => FLOAT,
        Class::Opt => OPT,
        Class::Str => STR,
        Class::Size => SIZE,
        Class::Dur => DUR,
        Class::NoSet => &[],
    }
}

#[derive(Clone)]
struct OC { text: String, plain: bool, inval: bool }

/// words of an option's own description (enum variants are listed there), in three letter cases
fn description_words(desc: &str) -> Vec<String> {
    let mut out: Vec<String> = vec![];
    for w in desc.split(|c: char| !(c.is_ascii_alphanumeric() || "_()+:.-".contains(c))) {
        let w = w.trim_matches(|c: char| ".:-".contains(c));
        if w.is_empty() || w.len() > 24 { continue; }
        for v in [w.to_string(), w.to_ascii_lowercase(), w.to_ascii_uppercase()] { if !out.contains(&v) { out.push(v); } }
        if out.len() >= 90 { break; }
    }
    out
}

struct Uni {
    scope: Vec<String>,          // "cfg" (ConfigOptions / SessionConfig / SQL), "sql" (runtime), "table:<fmt>"
    desc: Vec<String>,
    keys: Vec<String>,
    kidx: HashMap<String, usize>,
    class: Vec<Class>,
    texts: Vec<String>,
    tidx: HashMap<String, usize>,
}

impl Uni {
    fn t(&mut self, s: &Option<String>) -> usize {
        match s {
            None => 0,
            Some(s) => {
                if let Some(i) = self.tidx.get(s) { return *i; }
                self.texts.push(s.clone());
                self.tidx.insert(s.clone(), self.texts.len());
                self.texts.len()
            }
        }
    }
}

type Snap = Vec<Option<String>>;

enum Fe {
    Opts(Box<ConfigOptions>),
    Sess(Box<SessionConfig>),
    Sql(Box<SessionContext>),
    Table(Box<TableOptions>, String),
}

struct Drv {
    rt: tokio::runtime::Runtime,
    uni: Uni,
    sql_errors: u64,
    sql_unusable: u64,
    show_skipped: u64,
    paths: std::collections::BTreeMap<String, u64>,
}

fn sql_quote(s: &str) -> String { format!("'{}'", s.replace('\'', "''")) }

impl Drv {
    fn run_sql(&self, ctx: &SessionContext, q: &str) -> Result<Vec<arrow::record_batch::RecordBatch>, String> {
        let fut = async {
            match tokio::time::timeout(std::time::Duration::from_secs(180), async {
                let df = ctx.sql(q).await.map_err(|e| e.to_string())?;
                df.collect().await.map_err(|e| e.to_string())
            }).await {
                Ok(r) => r,
                Err(_) => { eprintln!("machinery: SQL timed out: {q}"); std::process::exit(2) }
            }
        };
        match catch_unwind(AssertUnwindSafe(|| self.rt.block_on(fut))) {
            Ok(r) => r,
            Err(_) => Err("panic".into()),
        }
    }

    fn snapshot(&self, fe: &Fe) -> Snap {
        let mut s: Snap = vec![None; self.uni.keys.len()];
        let mut put = |k: &str, v: Option<String>| { if let Some(i) = self.uni.kidx.get(k) { s[*i] = v; } };
        match fe {
            Fe::Opts(o) => for e in o.entries() { put(&listed_key(&e.key), e.value) },
            Fe::Sess(c) => for e in c.options().entries() { put(&listed_key(&e.key), e.value) },
            Fe::Sql(ctx) => {
                let st = ctx.state();
                for e in st.config().options().entries() { put(&listed_key(&e.key), e.value) }
                let rt = ctx.runtime_env();
                // temp_directory shows the lazily created spill directories (a random path that appears when the
                // disk manager is first used): an observation of the environment, not a settable text form
                for e in rt.config_entries() { if e.key != "datafusion.runtime.temp_directory" { put(&e.key, e.value) } }
                put(RAW_MEM, Some(match rt.memory_pool.memory_limit() { MemoryLimit::Finite(n) => n.to_string(), MemoryLimit::Infinite => "infinite".into(), _ => "unknown".into() }));
                put(RAW_TMP, Some(rt.disk_manager.max_temp_directory_size().to_string()));
            }
            Fe::Table(t, fmt) => for e in t.entries() { put(&format!("table[{fmt}]:{}", e.key), e.value) },
        }
        s
    }

    /// Set(k, text) through the front end; returns ok (None: the front end could not even be asked)
    fn set(&mut self, fe: &mut Fe, ki: usize, text: &str, plain: bool, variant: u32) -> Option<bool> {
        let key = self.uni.keys[ki].clone();
        let class = self.uni.class[ki];
        Some(match fe {
            Fe::Opts(o) => { self.path("ConfigOptions::set"); o.set(&key, text).is_ok() }
            Fe::Table(t, _) => { self.path("TableOptions::set"); t.set(key.split_once(':').unwrap().1, text).is_ok() }
            Fe::Sess(cfg) => {
                // typed setters and named builders are only total on valid input (they unwrap): run them on a copy
                let copy = (**cfg).clone();
                let typed: Option<(&'static str, Box<dyn FnOnce(SessionConfig) -> SessionConfig>)> = match (variant % 4, class, plain) {
                    (1, Class::Bool, true) => { let b = text == "true"; let k = key.clone(); Some(("SessionConfig::set_bool", Box::new(move |c| c.set_bool(&k, b)))) }
                    (1, Class::UInt, true) => match text.parse::<u64>() { Ok(n) => { let k = key.clone(); Some(("SessionConfig::set_u64", Box::new(move |c| c.set_u64(&k, n)))) } Err(_) => None },
                    (2, Class::UInt, true) => match text.parse::<usize>() { Ok(n) => { let k = key.clone(); Some(("SessionConfig::set_usize", Box::new(move |c| c.set_usize(&k, n)))) } Err(_) => None },
                    (2, Class::Str, _) | (2, Class::Opt, _) => { let k = key.clone(); let v = ScalarValue::Utf8(Some(text.to_string())); Some(("SessionConfig::set(ScalarValue)", Box::new(move |c| c.set(&k, &v)))) }
                    (3, _, true) => {
                        let n = text.parse::<usize>().ok();
                        let b = text == "true";
                        match (key.as_str(), n) {
                            ("datafusion.execution.batch_size", Some(n)) if n > 0 => Some(("SessionConfig::with_batch_size", Box::new(move |c| c.with_batch_size(n)))),
                            ("datafusion.execution.target_partitions", Some(n)) if n > 0 => Some(("SessionConfig::with_target_partitions", Box::new(move |c| c.with_target_partitions(n)))),
                            ("datafusion.catalog.information_schema", None) => Some(("SessionConfig::with_information_schema", Box::new(move |c| c.with_information_schema(b)))),
                            ("datafusion.optimizer.repartition_joins", None) => Some(("SessionConfig::with_repartition_joins", Box::new(move |c| c.with_repartition_joins(b)))),
                            ("datafusion.execution.parquet.pruning", None) => Some(("SessionConfig::with_parquet_pruning", Box::new(move |c| c.with_parquet_pruning(b)))),
                            ("datafusion.execution.collect_statistics", None) => Some(("SessionConfig::with_collect_statistics", Box::new(move |c| c.with_collect_statistics(b)))),
                            _ => None,
                        }
                    }
                    (3, _, false) => { let (k, v) = (key.clone(), text.to_string()); Some(("SessionConfig::set_str", Box::new(move |c| c.set_str(&k, &v)))) }
                    _ => None,
                };
                match typed {
                    None => { self.path("SessionConfig::options_mut().set"); cfg.options_mut().set(&key, text).is_ok() }
                    Some((name, f)) => {
                        self.path(name);
                        match catch_unwind(AssertUnwindSafe(|| f(copy))) {
                            Ok(n) => { **cfg = n; true }
                            Err(_) => false,      // the setter unwrapped an error: rejected, cfg untouched
                        }
                    }
                }
            }
            Fe::Sql(ctx) => {
                self.path("SQL SET");
                let q = if variant % 3 == 0 && !text.is_empty() && (text.chars().all(|c| c.is_ascii_digit()) || text == "true" || text == "false") {
                    format!("SET {key} = {text}")
                } else if variant % 3 == 1 {
                    format!("SET {key} TO {}", sql_quote(text))
                } else {
                    format!("SET {key} = {}", sql_quote(text))
                };
                let ctx2 = (**ctx).clone();
                let r = self.run_sql(&ctx2, &q);
                if let Err(e) = &r {
                    if e.starts_with("SQL error") || e == "panic" {
                        // the statement itself could not be parsed (e.g. the session's own recursion limit was set
                        // to 1): the front end is unusable, no observation about the option
                        self.sql_unusable += 1;
                        return None;
                    }
                    self.sql_errors += 1;
                }
                r.is_ok()
            }
        })
    }

    /// RESET k through the front end; None when the front end has no reset
    fn reset(&mut self, fe: &mut Fe, ki: usize) -> Option<bool> {
        let key = self.uni.keys[ki].clone();
        match fe {
            Fe::Opts(o) => { self.path("ConfigOptions::reset"); Some(ConfigField::reset(&mut **o, &key).is_ok()) }
            Fe::Sess(cfg) => { self.path("SessionConfig::options_mut().reset"); Some(ConfigField::reset(cfg.options_mut(), &key).is_ok()) }
            Fe::Sql(ctx) => {
                self.path("SQL RESET");
                let ctx2 = (**ctx).clone();
                match self.run_sql(&ctx2, &format!("RESET {key}")) {
                    Ok(_) => Some(true),
                    Err(e) if e.starts_with("SQL error") || e == "panic" => { self.sql_unusable += 1; None }
                    Err(_) => Some(false),
                }
            }
            Fe::Table(..) => None,
        }
    }

    /// Show(k) through a *printing* front end (not the snapshot): Some(printed) or None when it cannot be asked
    fn show(&mut self, fe: &Fe, ki: usize, variant: u32) -> Option<Option<String>> {
        let key = self.uni.keys[ki].clone();
        match fe {
            Fe::Opts(o) => Some(o.entries().into_iter().find(|e| listed_key(&e.key) == key).and_then(|e| e.value)),
            Fe::Sess(cfg) => Some(cfg.options().entries().into_iter().find(|e| listed_key(&e.key) == key).and_then(|e| e.value)),
            Fe::Table(t, fmt) => Some(t.entries().into_iter().find(|e| format!("table[{fmt}]:{}", e.key) == key).and_then(|e| e.value)),
            Fe::Sql(ctx) => {
                let q = if variant % 2 == 0 { self.path("SQL SHOW"); format!("SHOW {key}") }
                        else { self.path("SQL df_settings"); format!("SELECT name, value FROM information_schema.df_settings WHERE name = '{key}'") };
                let ctx2 = (**ctx).clone();
                match self.run_sql(&ctx2, &q) {
                    Ok(b) => {
                        let rows: usize = b.iter().map(|x| x.num_rows()).sum();
                        if rows != 1 { self.show_skipped += 1; return None; }
                        let b = b.iter().find(|x| x.num_rows() == 1).unwrap();
                        let col = arrow::compute::cast(b.column(1), &arrow::datatypes::DataType::Utf8).ok()?;
                        let a = col.as_any().downcast_ref::<arrow::array::StringArray>()?;
                        use arrow::array::Array;
                        Some(if a.is_null(0) { None } else { Some(a.value(0).to_string()) })
                    }
                    Err(_) => { self.show_skipped += 1; None }
                }
            }
        }
    }

    fn path(&mut self, p: &str) { *self.paths.entry(p.to_string()).or_insert(0) += 1; }

    fn cands(&self, ki: usize, sql: bool) -> Vec<OC> {
        let class = self.uni.class[ki];
        let mut v: Vec<OC> = cands_static(class, sql).iter().map(|c| OC { text: c.text.to_string(), plain: c.plain, inval: c.inval }).collect();
        if matches!(class, Class::Str | Class::Opt) {
            for w in description_words(&self.uni.desc[ki]) { if !v.iter().any(|c| c.text == w) { v.push(OC { text: w, plain: false, inval: false }); } }
        }
        v
    }
}

fn table_options(fmt: &str) -> TableOptions {
    let mut t = TableOptions::new();
    t.set_config_format(match fmt { "csv" => ConfigFileType::CSV, "json" => ConfigFileType::JSON, _ => ConfigFileType::PARQUET });
    t
}

fn new_fe(kind: &str) -> Fe {
    match kind {
        "opts" => { let mut o = ConfigOptions::new(); o.extensions.insert(VerifExt::default()); Fe::Opts(Box::new(o)) }
        "sess" => Fe::Sess(Box::new(SessionConfig::new().with_option_extension(VerifExt::default()))),
        "sql" => Fe::Sql(Box::new(SessionContext::new_with_config(SessionConfig::new().with_information_schema(true).with_option_extension(VerifExt::default())))),
        k => { let fmt = k.strip_prefix("table:").unwrap(); Fe::Table(Box::new(table_options(fmt)), fmt.to_string()) }
    }
}

/// the same kind of front end with nothing but defaults (what RESET goes back to)
fn default_fe(kind: &str) -> Fe {
    match kind {
        "sql" => Fe::Sql(Box::new(SessionContext::new_with_config(SessionConfig::new().with_option_extension(VerifExt::default())))),
        k => new_fe(k),
    }
}

fn umbrella_consistent(entries: &[(String, Option<String>)]) -> bool {
    let v: Vec<&Option<String>> = entries.iter().filter(|(k, _)| k.contains("dynamic_filter_pushdown")).map(|(_, v)| v).collect();
    v.windows(2).all(|w| w[0] == w[1])
}

pub fn main() {
    let out = util::arg("--out").expect("--out");
    let meta = util::arg("--meta").expect("--meta");
    let seed = util::seed();
    let quick = util::tier_quick();
    std::panic::set_hook(Box::new(|_| {}));
    let mut rng = rand::rngs::StdRng::seed_from_u64(seed ^ 0xC43);

    // 0. ConfigOptions::from_env, before any other thread exists: a configuration reached by plain Sets is
    //    exported to the environment in its own text form and must be rebuilt exactly
    let env_result: Option<(Vec<(String, Option<String>)>, Vec<(String, Option<String>)>)>;
    {
        let mut o = ConfigOptions::new();
        let listing = o.entries();
        for e in &listing {
            if e.key.contains("dynamic_filter_pushdown") { continue; }
            let class = classify(&e.key, &e.value);
            let pool: Vec<&Cand> = cands_static(class, false).iter().filter(|c| c.plain).collect();
            if pool.is_empty() || rng.random_range(0..3) == 0 { continue; }
            let _ = o.set(&e.key, pool[rng.random_range(0..pool.len())].text);
        }
        let want: Vec<(String, Option<String>)> = o.entries().into_iter().map(|e| (e.key, e.value)).collect();
        let mut names = vec![];
        for (k, v) in &want {
            if let Some(v) = v {
                let name = k.to_uppercase().replace('.', "_");
                // SAFETY: no other thread has been started yet
                unsafe { std::env::set_var(&name, v); }
                names.push(name);
            }
        }
        let got = ConfigOptions::from_env();
        for n in names { unsafe { std::env::remove_var(&n); } }
        if let Ok(g) = got {
            env_result = Some((want, g.entries().into_iter().map(|e| (e.key, e.value)).collect()));
        } else {
            env_result = Some((want, vec![]));
        }
    }

    let rt = tokio::runtime::Builder::new_current_thread().enable_all().build().unwrap();
    // the universe, from the implementation's own listings
    let mut uni = Uni { scope: vec![], desc: vec![], keys: vec![], kidx: HashMap::new(), class: vec![], texts: vec![], tidx: HashMap::new() };
    let add = |uni: &mut Uni, k: String, v: &Option<String>, scope: &str, desc: &str, class: Option<Class>| {
        uni.kidx.insert(k.clone(), uni.keys.len());
        uni.class.push(class.unwrap_or_else(|| classify(&k, v)));
        uni.keys.push(k);
        uni.scope.push(scope.to_string());
        uni.desc.push(desc.to_string());
    };
    let base = match new_fe("opts") { Fe::Opts(o) => o, _ => unreachable!() };
    for e in base.entries() { add(&mut uni, listed_key(&e.key), &e.value, "cfg", e.description, None); }
    let n_options = uni.keys.len();
    {
        let ctx = SessionContext::new();
        for e in ctx.runtime_env().config_entries() { add(&mut uni, e.key.clone(), &e.value, "sql", e.description, None); }
    }
    add(&mut uni, RAW_MEM.into(), &None, "sql", "", Some(Class::NoSet));
    add(&mut uni, RAW_TMP.into(), &None, "sql", "", Some(Class::NoSet));
    let mut table_keys = 0usize;
    let mut column_keys = 0usize;
    for fmt in ["csv", "json", "parquet"] {
        let t = table_options(fmt);
        let listing = t.entries();
        for e in &listing { add(&mut uni, format!("table[{fmt}]:{}", e.key), &e.value, &format!("table:{fmt}"), e.description, None); table_keys += 1; }
        if fmt == "parquet" {
            // per-column options: discovered by asking the implementation which `<option>::<column>` keys it accepts
            for e in &listing {
                let ck = format!("{}::c1", e.key);
                let accepted = e.value.iter().cloned().chain(["true", "0.5", "64", "plain", "zstd(3)", "page"].iter().map(|s| s.to_string())).any(|v| {
                    let mut probe = table_options(fmt);
                    probe.set(&ck, &v).is_ok() && probe.entries().iter().any(|x| x.key == ck)
                });
                if accepted {
                    add(&mut uni, format!("table[{fmt}]:{ck}"), &None, &format!("table:{fmt}"), e.description, Some(Class::Opt));
                    column_keys += 1;
                }
            }
        }
    }
    let mut d = Drv { rt, uni, sql_errors: 0, sql_unusable: 0, show_skipped: 0, paths: Default::default() };
    let nkeys = d.uni.keys.len();
    let mut over: Vec<Value> = vec![];
    if let Some(&u) = d.uni.kidx.get(UMBRELLA) {
        let js: Vec<usize> = UMBRELLA_OVER.iter().filter_map(|k| d.uni.kidx.get(*k).copied()).collect();
        over.push(json!({"k": u + 1, "js": js.iter().map(|j| j + 1).collect::<Vec<_>>()}));
    }
    let mut raw: Vec<Value> = vec![];
    for (k, r) in [("datafusion.runtime.memory_limit", RAW_MEM), ("datafusion.runtime.max_temp_directory_size", RAW_TMP)] {
        if let (Some(&a), Some(&b)) = (d.uni.kidx.get(k), d.uni.kidx.get(r)) { raw.push(json!({"k": a + 1, "js": [b + 1]})); }
    }

    let mut runs: Vec<Value> = vec![];
    let mut n_set = 0u64; let mut n_show = 0u64; let mut n_ok = 0u64; let mut n_reset = 0u64; let mut n_rebuild = 0u64;
    let mut covered: Vec<[bool; 4]> = vec![[false; 4]; nkeys];   // per key: round trip at default, at a changed value, an invalid text, reset after a change

    // the from_env result as a run of its own
    if let Some((want, got)) = env_result {
        let mut init = vec![0usize; nkeys];
        for (k, v) in &want { if let Some(&i) = d.uni.kidx.get(k) { init[i] = d.uni.t(v); } }
        let mut diff = vec![];
        for (k, v) in &want {
            // an absent key and a key printed without a value are the same observation
            let g: Option<String> = got.iter().find(|(gk, _)| gk == k).and_then(|(_, v)| v.clone());
            if g != *v { if let Some(&i) = d.uni.kidx.get(k) { let t = d.uni.t(&g); diff.push(json!([i + 1, t])); } }
        }
        d.path("ConfigOptions::from_env");
        n_rebuild += 1;
        runs.push(json!({"keys": nkeys, "over": over, "raw": raw, "fe": "opts", "kind": "from_env",
                         "ev": [json!({"op": "init", "cfg": init, "dflt": init}), json!({"op": "rebuild", "via": "from_env", "ok": !got.is_empty(), "diff": diff})]}));
    }

    // one step helpers
    macro_rules! do_set {
        ($fe:expr, $ev:expr, $snap:expr, $ki:expr, $text:expr, $plain:expr, $inval:expr) => {{
            let text: String = $text;
            let Some(ok) = d.set(&mut $fe, $ki, &text, $plain, rng.random()) else { continue };
            let after = d.snapshot(&$fe);
            let mut ch = vec![];
            for j in 0..nkeys { if after[j] != $snap[j] { let t = d.uni.t(&after[j]); ch.push(json!([j + 1, t])); } }
            let t = d.uni.t(&Some(text));
            $ev.push(json!({"op": "set", "k": $ki + 1, "t": t, "ok": ok, "ch": ch, "plain": $plain, "inval": $inval}));
            $snap = after;
            n_set += 1; if ok { n_ok += 1; }
            ok
        }};
    }
    macro_rules! do_show {
        ($fe:expr, $ev:expr, $ki:expr) => {{
            if let Some(v) = d.show(&$fe, $ki, rng.random()) {
                let t = d.uni.t(&v);
                $ev.push(json!({"op": "show", "k": $ki + 1, "t": t}));
                n_show += 1;
            }
        }};
    }
    macro_rules! do_reset {
        ($fe:expr, $ev:expr, $snap:expr, $ki:expr) => {{
            if let Some(ok) = d.reset(&mut $fe, $ki) {
                let after = d.snapshot(&$fe);
                let mut ch = vec![];
                for j in 0..nkeys { if after[j] != $snap[j] { let t = d.uni.t(&after[j]); ch.push(json!([j + 1, t])); } }
                $ev.push(json!({"op": "reset", "k": $ki + 1, "ok": ok, "ch": ch}));
                $snap = after;
                n_reset += 1;
                ok
            } else { false }
        }};
    }
    // the whole configuration rebuilt from its own listing (from_string_hash_map) must be the same configuration
    macro_rules! do_rebuild {
        ($fe:expr, $ev:expr, $snap:expr) => {{
            let listing: Vec<(String, Option<String>)> = match &$fe {
                Fe::Opts(o) => o.entries().into_iter().map(|e| (e.key, e.value)).collect(),
                Fe::Sess(c) => c.options().entries().into_iter().map(|e| (e.key, e.value)).collect(),
                Fe::Sql(ctx) => ctx.state().config().options().entries().into_iter().map(|e| (e.key, e.value)).collect(),
                Fe::Table(t, _) => t.entries().into_iter().map(|e| (e.key, e.value)).collect(),
            };
            if umbrella_consistent(&listing) {
                let map: HashMap<String, String> = listing.iter().filter(|(k, _)| !EXT_FIELDS.contains(&k.as_str())).filter_map(|(k, v)| v.clone().map(|v| (k.clone(), v))).collect();
                let (via, rebuilt): (&str, Result<Vec<(String, Option<String>)>, String>) = match &$fe {
                    Fe::Table(_, fmt) => ("TableOptions::alter_with_string_hash_map", {
                        let mut t = table_options(fmt);
                        t.alter_with_string_hash_map(&map).map(|_| t.entries().into_iter().map(|e| (e.key, e.value)).collect()).map_err(|e| e.to_string())
                    }),
                    Fe::Sess(_) => ("SessionConfig::from_string_hash_map", SessionConfig::from_string_hash_map(&map).map(|c| c.options().entries().into_iter().map(|e| (e.key, e.value)).collect()).map_err(|e| e.to_string())),
                    _ => ("ConfigOptions::from_string_hash_map", ConfigOptions::from_string_hash_map(&map).map(|c| c.entries().into_iter().map(|e| (e.key, e.value)).collect()).map_err(|e| e.to_string())),
                };
                d.path(via);
                let prefix = match &$fe { Fe::Table(_, fmt) => format!("table[{fmt}]:"), _ => String::new() };
                let mut diff = vec![];
                let ok = rebuilt.is_ok();
                if let Ok(r) = rebuilt {
                    for (k, v) in &listing {
                        if EXT_FIELDS.contains(&k.as_str()) { continue; }
                        let g: Option<String> = r.iter().find(|(gk, _)| gk == k).and_then(|(_, v)| v.clone());
                        if g != *v { if let Some(&i) = d.uni.kidx.get(&format!("{prefix}{k}")) { let t = d.uni.t(&g); diff.push(json!([i + 1, t])); } }
                    }
                }
                $ev.push(json!({"op": "rebuild", "via": via, "ok": ok, "diff": diff}));
                n_rebuild += 1;
            }
        }};
    }

    // 1. coverage runs: every key, through every front end that has it
    let per_run = 8usize;
    let fe_kinds = ["opts", "sql", "sess", "table:csv", "table:json", "table:parquet"];
    for fe_kind in fe_kinds {
        let settable: Vec<usize> = (0..nkeys).filter(|&i| d.uni.class[i] != Class::NoSet
            && (d.uni.scope[i] == fe_kind || (d.uni.scope[i] == "cfg" && !fe_kind.starts_with("table")) || (d.uni.scope[i] == "sql" && fe_kind == "sql"))).collect();
        for chunk in settable.chunks(per_run) {
            let mut fe = new_fe(fe_kind);
            let mut snap = d.snapshot(&fe);
            let init: Vec<usize> = snap.clone().iter().map(|v| d.uni.t(v)).collect();
            let dflt: Vec<usize> = d.snapshot(&default_fe(fe_kind)).iter().map(|v| d.uni.t(v)).collect();
            let mut ev: Vec<Value> = vec![json!({"op": "init", "cfg": init, "dflt": dflt})];
            for &ki in chunk {
                do_show!(fe, ev, ki);
                // round trip of the default text
                if let Some(v) = snap[ki].clone() {
                    do_set!(fe, ev, snap, ki, v, false, false);
                    covered[ki][0] = true;
                }
                // static candidates of the class (all of them for unset options, whose type is unknown) + words of the
                // option's own description (enum variants)
                let all = d.cands(ki, fe_kind == "sql");
                let nstatic = cands_static(d.uni.class[ki], fe_kind == "sql").len();
                let (mut stat, mut words) = (all[..nstatic].to_vec(), all[nstatic..].to_vec());
                stat.shuffle(&mut rng);
                words.shuffle(&mut rng);
                let take = if fe_kind == "sess" { 5 } else if !quick || d.uni.class[ki] == Class::Opt { stat.len() } else { 10 };
                let take_w = if fe_kind == "sess" { 2 } else if quick { 8 } else { words.len() };
                let cs: Vec<OC> = stat.into_iter().take(take).chain(words.into_iter().take(take_w)).collect();
                let mut changed_once = false;
                for cand in cs.into_iter() {
                    let ok = do_set!(fe, ev, snap, ki, cand.text.clone(), cand.plain, cand.inval);
                    if cand.inval { covered[ki][2] = true; }
                    if ok {
                        do_show!(fe, ev, ki);
                        if let Some(v) = snap[ki].clone() {
                            // Set(k, Show(k)) on a non-default value
                            do_set!(fe, ev, snap, ki, v, false, false);
                            covered[ki][1] = true;
                        }
                        if !changed_once || rng.random_range(0..4) == 0 {
                            // SET then RESET shows the default again
                            if do_reset!(fe, ev, snap, ki) { covered[ki][3] = true; do_show!(fe, ev, ki); }
                            changed_once = true;
                        }
                    }
                }
            }
            do_rebuild!(fe, ev, snap);
            if fe_kind == "sql" {
                // the whole df_settings table agrees with the model
                if let Fe::Sql(ctx) = &fe {
                    let ctx2 = (**ctx).clone();
                    if let Ok(bs) = d.run_sql(&ctx2, "SELECT name, value FROM information_schema.df_settings") {
                        d.path("SQL df_settings (all rows)");
                        use arrow::array::Array;
                        for b in &bs {
                            let (n, v) = (arrow::compute::cast(b.column(0), &arrow::datatypes::DataType::Utf8).unwrap(), arrow::compute::cast(b.column(1), &arrow::datatypes::DataType::Utf8).unwrap());
                            let (n, v) = (n.as_any().downcast_ref::<arrow::array::StringArray>().unwrap().clone(), v.as_any().downcast_ref::<arrow::array::StringArray>().unwrap().clone());
                            for i in 0..b.num_rows() {
                                let key = listed_key(n.value(i));
                                if key == "datafusion.runtime.temp_directory" { continue; }
                                if let Some(&ki) = d.uni.kidx.get(&key) {
                                    let t = d.uni.t(&if v.is_null(i) { None } else { Some(v.value(i).to_string()) });
                                    ev.push(json!({"op": "show", "k": ki + 1, "t": t}));
                                    n_show += 1;
                                }
                            }
                        }
                    }
                }
            }
            runs.push(json!({"keys": nkeys, "over": over, "raw": raw, "fe": fe_kind, "kind": "coverage", "ev": ev}));
        }
    }
    // 2. seeded random histories mixing keys
    let nrand = if quick { 24 } else { 200 };
    for r in 0..nrand {
        let fe_kind = fe_kinds[r % fe_kinds.len()];
        let mut fe = new_fe(fe_kind);
        let mut snap = d.snapshot(&fe);
        let init: Vec<usize> = snap.clone().iter().map(|v| d.uni.t(v)).collect();
        let dflt: Vec<usize> = d.snapshot(&default_fe(fe_kind)).iter().map(|v| d.uni.t(v)).collect();
        let mut ev: Vec<Value> = vec![json!({"op": "init", "cfg": init, "dflt": dflt})];
        let settable: Vec<usize> = (0..nkeys).filter(|&i| d.uni.class[i] != Class::NoSet
            && (d.uni.scope[i] == fe_kind || (d.uni.scope[i] == "cfg" && !fe_kind.starts_with("table")) || (d.uni.scope[i] == "sql" && fe_kind == "sql"))).collect();
        let mut touched: Vec<usize> = vec![];
        for _ in 0..(if quick { 60 } else { 150 }) {
            let ki = if !touched.is_empty() && rng.random_range(0..3) > 0 { touched[rng.random_range(0..touched.len())] } else { settable[rng.random_range(0..settable.len())] };
            match rng.random_range(0..12) {
                0..=2 => do_show!(fe, ev, ki),
                3..=5 => { if let Some(v) = snap[ki].clone() { do_set!(fe, ev, snap, ki, v, false, false); } }
                6 => { do_reset!(fe, ev, snap, ki); }
                7 => do_rebuild!(fe, ev, snap),
                _ => {
                    let cs = d.cands(ki, fe_kind == "sql");
                    let cand = cs[rng.random_range(0..cs.len())].clone();
                    if do_set!(fe, ev, snap, ki, cand.text.clone(), cand.plain, cand.inval) { touched.push(ki); }
                }
            }
        }
        runs.push(json!({"keys": nkeys, "over": over, "raw": raw, "fe": fe_kind, "kind": "random", "ev": ev}));
    }
    // information: df_settings descriptions against the listing's
    let mut description_mismatches = 0u64;
    if let Fe::Sql(ctx) = new_fe("sql") {
        if let Ok(bs) = d.run_sql(&ctx, "SELECT name, description FROM information_schema.df_settings") {
            use arrow::array::Array;
            for b in &bs {
                let (n, v) = (arrow::compute::cast(b.column(0), &arrow::datatypes::DataType::Utf8).unwrap(), arrow::compute::cast(b.column(1), &arrow::datatypes::DataType::Utf8).unwrap());
                let (n, v) = (n.as_any().downcast_ref::<arrow::array::StringArray>().unwrap().clone(), v.as_any().downcast_ref::<arrow::array::StringArray>().unwrap().clone());
                for i in 0..b.num_rows() {
                    if let Some(&ki) = d.uni.kidx.get(&listed_key(n.value(i))) {
                        if !v.is_null(i) && v.value(i) != d.uni.desc[ki] { description_mismatches += 1; }
                    }
                }
            }
        }
    }
    util::write_ndjson(&out, &runs);
    let not_covered: Vec<&String> = (0..nkeys).filter(|&i| d.uni.class[i] != Class::NoSet && d.uni.class[i] != Class::Opt && !(covered[i][0] || covered[i][1])).map(|i| &d.uni.keys[i]).collect();
    let unset_never_accepting: Vec<&String> = (0..nkeys).filter(|&i| d.uni.class[i] == Class::Opt && !covered[i][1]).map(|i| &d.uni.keys[i]).collect();
    std::fs::write(&meta, serde_json::to_string(&json!({
        "keys": d.uni.keys, "classes": d.uni.class.iter().map(|c| format!("{c:?}")).collect::<Vec<_>>(), "texts": d.uni.texts,
        "n_options": n_options,
    })).unwrap()).unwrap();
    util::summary(json!({
        "runs": runs.len(), "set_events": n_set, "set_ok": n_ok, "show_events": n_show, "reset_events": n_reset, "rebuild_events": n_rebuild,
        "keys": nkeys, "option_keys": n_options, "table_option_keys": table_keys, "parquet_column_option_keys": column_keys,
        "keys_round_tripped_at_default": covered.iter().filter(|c| c[0]).count(),
        "keys_round_tripped_at_changed_value": covered.iter().filter(|c| c[1]).count(),
        "keys_given_invalid_text": covered.iter().filter(|c| c[2]).count(),
        "keys_reset_after_a_change": covered.iter().filter(|c| c[3]).count(),
        "keys_never_round_tripped": not_covered,
        "unset_options_that_accepted_no_candidate": unset_never_accepting,
        "sql_set_errors": d.sql_errors, "sql_front_end_unusable": d.sql_unusable, "sql_show_skipped": d.show_skipped,
        "df_settings_descriptions_differing_from_entries": description_mismatches,
        "paths": d.paths,
    }));
}
