//! C52 — qualified names round-trip through their quoted text form (B3 replay of QuoteIdent.tla cases).
//!
//! Input (`--in`): NDJSON cases `{"k":"T"|"C"|"S","p":[ident,...]}` printed by TLC (k = table reference with
//! 1..3 parts, column with 1..4 parts (relation parts + column name), schema reference with 1..2 parts).
//! Output (`--out`): NDJSON, one line per case: the text the engine rendered and every path whose
//! parse result differs from the reference the text was rendered from.
//! `--native K:N:L,...` additionally enumerates *all* references of kind K with N parts over identifiers of
//! 1..=L characters of `--alphabet` natively (same rule as the TLA+ scope) and checks the same paths.
use datafusion::prelude::SessionContext;
use datafusion_common::utils::quote_identifier;
use datafusion_common::{Column, DFSchema, SchemaReference, TableReference};
use datafusion_expr::{DdlStatement, Expr, LogicalPlan};
use serde_json::{Value, json};
use std::collections::BTreeMap;
use std::str::FromStr;
use std::sync::Arc;
use vcommon::util;

fn tref(p: &[String]) -> TableReference {
    match p.len() {
        1 => TableReference::bare(p[0].as_str()),
        2 => TableReference::partial(p[0].as_str(), p[1].as_str()),
        3 => TableReference::full(p[0].as_str(), p[1].as_str(), p[2].as_str()),
        n => panic!("table reference with {n} parts"),
    }
}

fn column(p: &[String]) -> Column {
    let n = p.len();
    let relation = if n == 1 { None } else { Some(tref(&p[..n - 1])) };
    Column { relation, name: p[n - 1].clone(), spans: Default::default() }
}

fn col_parts(c: &Column) -> Vec<String> {
    let mut v = c.relation.as_ref().map(|r| r.to_vec()).unwrap_or_default();
    v.push(c.name.clone());
    v
}

fn is_bare_safe(s: &str) -> bool {
    // what the engine itself decides: the identifier is rendered without quotes
    quote_identifier(s) == s
}

/// the identifier is a word of the SQL grammar ([letter|_][letter|digit|_]*): its unquoted spelling is one token
fn word_shaped(s: &str) -> bool {
    let mut c = s.chars();
    match c.next() {
        Some(f) if f.is_alphabetic() || f == '_' => c.all(|x| x.is_alphabetic() || x.is_ascii_digit() || x == '_'),
        _ => false,
    }
}

fn is_keyword(s: &str) -> bool {
    use datafusion::sql::sqlparser::keywords::ALL_KEYWORDS;
    let u = s.to_ascii_uppercase();
    ALL_KEYWORDS.binary_search(&u.as_str()).is_ok()
}

pub struct Fail {
    pub path: &'static str,
    pub text: String,
    pub got: Value,
}

struct Runner {
    rt: tokio::runtime::Runtime,
    ctx: SessionContext,
    ctx_nonorm: SessionContext,
    counts: BTreeMap<&'static str, u64>,
    sql_errors: BTreeMap<&'static str, u64>,
    sql_error_samples: Vec<Value>,
    in_kw: bool,
    sql_unexplained: Vec<Value>,
    kw_sql_rejected: u64,
}

impl Runner {
    fn new() -> Self {
        let rt = tokio::runtime::Builder::new_current_thread().enable_all().build().unwrap();
        Runner { rt, ctx: SessionContext::new(), ctx_nonorm: SessionContext::new_with_config(datafusion::prelude::SessionConfig::new().set_bool("datafusion.sql_parser.enable_ident_normalization", false)), counts: BTreeMap::new(), sql_errors: BTreeMap::new(), sql_error_samples: vec![], in_kw: false, sql_unexplained: vec![], kw_sql_rejected: 0 }
    }

    fn hit(&mut self, p: &'static str) {
        *self.counts.entry(p).or_insert(0) += 1;
    }

    fn sql_err(&mut self, p: &'static str, parts: &[String], text: &str, e: String) {
        if self.in_kw {
            // reserved words: the SQL grammar may refuse them unquoted; counted, never a verdict
            self.kw_sql_rejected += 1;
            return;
        }
        *self.sql_errors.entry(p).or_insert(0) += 1;
        let kw = parts.iter().any(|x| is_keyword(x));
        let v = json!({"path": p, "parts": parts, "text": text, "kw": kw, "error": e.chars().take(160).collect::<String>()});
        if !kw {
            // a rendered name without reserved words that the SQL front end cannot read back
            if self.sql_unexplained.len() < 20 {
                self.sql_unexplained.push(v);
            }
        } else if self.sql_error_samples.len() < 12 {
            self.sql_error_samples.push(v);
        }
    }

    /// table reference: returns (rendered text, failures)
    fn table(&mut self, p: &[String], sql: bool) -> (String, Vec<Fail>) {
        let r = tref(p);
        let text = r.to_quoted_string();
        let mut f = vec![];
        let chk = |me: &mut Self, f: &mut Vec<Fail>, path: &'static str, got: TableReference| {
            me.hit(path);
            if got != r {
                f.push(Fail { path, text: text.clone(), got: json!(got.to_vec()) });
            }
        };
        chk(self, &mut f, "TableReference::parse_str(to_quoted_string)", TableReference::parse_str(&text));
        chk(self, &mut f, "TableReference::from(&str)", TableReference::from(text.as_str()));
        chk(self, &mut f, "TableReference::from(&String)", TableReference::from(&text));
        chk(self, &mut f, "TableReference::from(String)", TableReference::from(text.clone()));
        // quoted text never needs case preservation to be switched on
        chk(self, &mut f, "TableReference::parse_str_normalized(ignore_case)", {
            let g = TableReference::parse_str_normalized(&text, true);
            // with ignore_case the bare parts are not folded; rendering only leaves lower-case parts bare
            g
        });
        // the text is the dot-join of the quoted identifiers
        self.hit("to_quoted_string = join(quote_identifier)");
        let joined = p.iter().map(|s| quote_identifier(s).to_string()).collect::<Vec<_>>().join(".");
        if joined != text {
            f.push(Fail { path: "to_quoted_string = join(quote_identifier)", text: text.clone(), got: json!(joined) });
        }
        self.hit("to_vec");
        if r.to_vec() != p {
            f.push(Fail { path: "to_vec", text: text.clone(), got: json!(r.to_vec()) });
        }
        // Display is the unquoted form; it parses back exactly when every part is left bare by the engine
        if p.iter().all(|s| is_bare_safe(s)) && p.iter().all(|s| !s.is_empty()) {
            let d = r.to_string();
            let g = TableReference::parse_str(&d);
            self.hit("TableReference::parse_str(Display) [all parts bare]");
            if g != r {
                f.push(Fail { path: "TableReference::parse_str(Display) [all parts bare]", text: d, got: json!(g.to_vec()) });
            }
        }
        // case-preserving parse of the UNQUOTED form (Display) when every part is a word of the grammar
        if p.iter().all(|s| word_shaped(s)) {
            let d = r.to_string();
            chk(self, &mut f, "TableReference::parse_str_normalized(Display, ignore_case) [all parts words]", TableReference::parse_str_normalized(&d, true));
            if sql && !p.iter().any(|x| is_keyword(x)) {
                let stmt = format!("DROP TABLE IF EXISTS {d}");
                match self.rt.block_on(self.ctx_nonorm.state().create_logical_plan(&stmt)) {
                    Ok(LogicalPlan::Ddl(DdlStatement::DropTable(dt))) => chk(self, &mut f, "SQL (ident normalization off) DROP TABLE <Display> -> DropTable.name", dt.name),
                    Ok(other) => self.sql_err("SQL (ident normalization off) DROP TABLE <Display> -> DropTable.name", p, &d, format!("unexpected plan {}", other.display())),
                    Err(e) => self.sql_err("SQL (ident normalization off) DROP TABLE <Display> -> DropTable.name", p, &d, e.to_string()),
                }
            }
        }
        // resolve: leading parts from the defaults; ResolvedTableReference -> Full; resolved_eq
        {
            let (dc, ds) = ("D c", "p.S");
            let want: Vec<String> = match p.len() { 3 => p.to_vec(), 2 => vec![dc.to_string(), p[0].clone(), p[1].clone()], _ => vec![dc.to_string(), ds.to_string(), p[0].clone()] };
            let res = r.clone().resolve(dc, ds);
            self.hit("TableReference::resolve");
            let got = vec![res.catalog.to_string(), res.schema.to_string(), res.table.to_string()];
            if got != want { f.push(Fail { path: "TableReference::resolve", text: text.clone(), got: json!(got) }); }
            self.hit("ResolvedTableReference Display");
            if res.to_string() != want.join(".") { f.push(Fail { path: "ResolvedTableReference Display", text: text.clone(), got: json!(res.to_string()) }); }
            let full = TableReference::from(res);
            self.hit("TableReference::from(ResolvedTableReference)");
            if full != tref(&want) { f.push(Fail { path: "TableReference::from(ResolvedTableReference)", text: text.clone(), got: json!(full.to_vec()) }); }
            self.hit("resolved_eq");
            if !r.resolved_eq(&full) || !full.resolved_eq(&r) { f.push(Fail { path: "resolved_eq", text: text.clone(), got: json!(false) }); }
            let qt = full.to_quoted_string();
            let back = TableReference::parse_str(&qt);
            self.hit("parse_str(to_quoted_string(resolved))");
            if back != full { f.push(Fail { path: "parse_str(to_quoted_string(resolved))", text: qt, got: json!(back.to_vec()) }); }
            // accessors
            self.hit("table()/schema()/catalog()");
            let acc = (r.table().to_string(), r.schema().map(|x| x.to_string()), r.catalog().map(|x| x.to_string()));
            let n = p.len();
            let wacc = (p[n - 1].clone(), if n >= 2 { Some(p[n - 2].clone()) } else { None }, if n == 3 { Some(p[0].clone()) } else { None });
            if acc != wacc { f.push(Fail { path: "table()/schema()/catalog()", text: text.clone(), got: json!([acc.0, acc.1, acc.2]) }); }
        }
        // Column::new parses a textual qualifier
        {
            let c = Column::new(Some(text.as_str()), "x");
            self.hit("Column::new(Some(text), _).relation");
            if c.relation.as_ref() != Some(&r) {
                f.push(Fail { path: "Column::new(Some(text), _).relation", text: text.clone(), got: json!(c.relation.map(|r| r.to_vec())) });
            }
        }
        if sql {
            // the SQL front end: sqlparser object name -> normalize_ident -> TableReference
            let stmt = format!("DROP TABLE IF EXISTS {text}");
            let plan = self.rt.block_on(self.ctx.state().create_logical_plan(&stmt));
            match plan {
                Ok(LogicalPlan::Ddl(DdlStatement::DropTable(d))) => {
                    self.hit("SQL DROP TABLE <text> -> DropTable.name");
                    if d.name != r {
                        f.push(Fail { path: "SQL DROP TABLE <text> -> DropTable.name", text: stmt, got: json!(d.name.to_vec()) });
                    }
                }
                Ok(other) => self.sql_err("SQL DROP TABLE <text> -> DropTable.name", p, &text, format!("unexpected plan {}", other.display())),
                Err(e) => self.sql_err("SQL DROP TABLE <text> -> DropTable.name", p, &text, e.to_string()),
            }
        }
        (text, f)
    }

    fn col(&mut self, p: &[String], sql: bool) -> (String, Vec<Fail>) {
        let c = column(p);
        let text = c.quoted_flat_name();
        let mut f = vec![];
        let chk = |me: &mut Self, f: &mut Vec<Fail>, path: &'static str, t: &str, got: Column| {
            me.hit(path);
            if got.relation != c.relation || got.name != c.name {
                f.push(Fail { path, text: t.to_string(), got: json!(col_parts(&got)) });
            }
        };
        chk(self, &mut f, "Column::from_qualified_name(quoted_flat_name)", &text, Column::from_qualified_name(text.as_str()));
        chk(self, &mut f, "Column::from(&str)", &text, Column::from(text.as_str()));
        chk(self, &mut f, "Column::from(&String)", &text, Column::from(&text));
        chk(self, &mut f, "Column::from(String)", &text, Column::from(text.clone()));
        chk(self, &mut f, "Column::from_str", &text, Column::from_str(&text).unwrap());
        chk(self, &mut f, "Column::from_qualified_name_ignore_case(quoted_flat_name)", &text, Column::from_qualified_name_ignore_case(text.as_str()));
        if let Expr::Column(g) = datafusion_expr::col(text.as_str()) {
            chk(self, &mut f, "datafusion_expr::col(quoted_flat_name)", &text, g);
        }
        if p.iter().all(|s| is_bare_safe(s)) && p.iter().all(|s| !s.is_empty()) {
            let flat = c.flat_name();
            chk(self, &mut f, "Column::from_qualified_name(flat_name) [all parts bare]", &flat, Column::from_qualified_name(flat.as_str()));
            let disp = c.to_string();
            chk(self, &mut f, "Column::from_qualified_name(Display) [all parts bare]", &disp, Column::from_qualified_name(disp.as_str()));
        }
        if p.iter().all(|s| word_shaped(s)) {
            let flat = c.flat_name();
            chk(self, &mut f, "Column::from_qualified_name_ignore_case(flat_name) [all parts words]", &flat, Column::from_qualified_name_ignore_case(flat.as_str()));
            if sql && !p.iter().any(|x| is_keyword(x)) {
                let field = arrow::datatypes::Field::new(c.name.clone(), arrow::datatypes::DataType::Int32, true);
                let schema = DFSchema::new_with_metadata(vec![(c.relation.clone(), Arc::new(field))], Default::default()).unwrap();
                match self.ctx_nonorm.state().create_logical_expr(&flat, &schema) {
                    Ok(Expr::Column(g)) => chk(self, &mut f, "SQL (ident normalization off) expression <flat_name> -> Expr::Column", &flat, g),
                    Ok(other) => self.sql_err("SQL (ident normalization off) expression <flat_name> -> Expr::Column", p, &flat, format!("unexpected expr {other}")),
                    Err(e) => self.sql_err("SQL (ident normalization off) expression <flat_name> -> Expr::Column", p, &flat, e.to_string()),
                }
            }
        }
        // with_relation / name()
        if p.len() >= 2 {
            let c2 = Column::new_unqualified(c.name.clone()).with_relation(c.relation.clone().unwrap());
            chk(self, &mut f, "Column::new_unqualified(name).with_relation(rel)", &text, c2);
        }
        self.hit("quoted_flat_name = join(quote_identifier)");
        let joined = p.iter().map(|s| quote_identifier(s).to_string()).collect::<Vec<_>>().join(".");
        if joined != text {
            f.push(Fail { path: "quoted_flat_name = join(quote_identifier)", text: text.clone(), got: json!(joined) });
        }
        if sql {
            // a SQL expression naming the column resolves to the same column of a schema that has it
            let field = arrow::datatypes::Field::new(c.name.clone(), arrow::datatypes::DataType::Int32, true);
            let schema = DFSchema::new_with_metadata(vec![(c.relation.clone(), Arc::new(field))], Default::default()).unwrap();
            match self.ctx.state().create_logical_expr(&text, &schema) {
                Ok(Expr::Column(g)) => chk(self, &mut f, "SQL expression <quoted_flat_name> -> Expr::Column", &text, g),
                Ok(other) => self.sql_err("SQL expression <quoted_flat_name> -> Expr::Column", p, &text, format!("unexpected expr {other}")),
                Err(e) => self.sql_err("SQL expression <quoted_flat_name> -> Expr::Column", p, &text, e.to_string()),
            }
        }
        (text, f)
    }

    fn schema(&mut self, p: &[String]) -> (String, Vec<Fail>) {
        let r = match p.len() {
            1 => SchemaReference::Bare { schema: p[0].as_str().into() },
            _ => SchemaReference::Full { catalog: p[0].as_str().into(), schema: p[1].as_str().into() },
        };
        let text = p.iter().map(|s| quote_identifier(s).to_string()).collect::<Vec<_>>().join(".");
        let mut f = vec![];
        let stmt = format!("DROP SCHEMA IF EXISTS {text}");
        match self.rt.block_on(self.ctx.state().create_logical_plan(&stmt)) {
            Ok(LogicalPlan::Ddl(DdlStatement::DropCatalogSchema(d))) => {
                self.hit("SQL DROP SCHEMA <text> -> SchemaReference");
                if d.name != r {
                    f.push(Fail { path: "SQL DROP SCHEMA <text> -> SchemaReference", text: stmt, got: json!(d.name.to_string()) });
                }
            }
            Ok(other) => self.sql_err("SQL DROP SCHEMA <text> -> SchemaReference", p, &text, format!("unexpected plan {}", other.display())),
            Err(e) => self.sql_err("SQL DROP SCHEMA <text> -> SchemaReference", p, &text, e.to_string()),
        }
        (text, f)
    }

    fn run(&mut self, k: &str, p: &[String], sql: bool) -> (String, Vec<Fail>) {
        match k {
            "T" => self.table(p, sql),
            "C" => self.col(p, sql),
            "S" => self.schema(p),
            _ => panic!("unknown kind {k}"),
        }
    }
}

fn idents(alphabet: &[char], maxlen: usize, with_empty: bool) -> Vec<String> {
    let mut all: Vec<String> = vec![];
    let mut layer: Vec<String> = vec![String::new()];
    if with_empty {
        all.push(String::new());
    }
    for _ in 0..maxlen {
        let mut next = Vec::with_capacity(layer.len() * alphabet.len());
        for s in &layer {
            for c in alphabet {
                let mut t = s.clone();
                t.push(*c);
                next.push(t);
            }
        }
        all.extend(next.iter().cloned());
        layer = next;
    }
    all
}

pub fn main() {
    let out = util::arg("--out").expect("--out");
    let sql_every: u64 = util::arg("--sql-every").and_then(|s| s.parse().ok()).unwrap_or(1);
    let with_empty = util::has_flag("--with-empty");
    let mut rn = Runner::new();
    let mut lines: Vec<Value> = vec![];
    let mut evaluations: u64 = 0;
    let mut failures: Vec<Value> = vec![];
    let mut nfail: u64 = 0;
    let mut rendered_quoted = 0u64;
    let mut rendered_bare = 0u64;
    // failures on references with an empty identifier part are kept apart (known finding) so that they can
    // never crowd out any other failure
    let mut nfail_empty: u64 = 0;
    let mut failures_empty: Vec<Value> = vec![];
    let mut push_fail = |failures: &mut Vec<Value>, nfail: &mut u64, k: &str, p: &[String], fs: Vec<Fail>, src: &str| {
        let empty = p.iter().any(|x| x.is_empty());
        for f in fs {
            let v = json!({"kind": k, "parts": p, "path": f.path, "text": f.text, "got": f.got, "src": src});
            if empty {
                nfail_empty += 1;
                if failures_empty.len() < 6 {
                    failures_empty.push(v);
                }
            } else {
                *nfail += 1;
                if failures.len() < 200 {
                    failures.push(v);
                }
            }
        }
    };
    if let Some(inp) = util::arg("--in") {
        for (i, c) in util::read_ndjson(&inp).into_iter().enumerate() {
            let k = c["k"].as_str().unwrap().to_string();
            let p: Vec<String> = c["p"].as_array().unwrap().iter().map(|x| x.as_str().unwrap().to_string()).collect();
            let res = std::panic::catch_unwind(std::panic::AssertUnwindSafe(|| rn.run(&k, &p, true)));
            evaluations += 1;
            match res {
                Ok((text, fs)) => {
                    if text.contains('"') { rendered_quoted += 1 } else { rendered_bare += 1 }
                    lines.push(json!({"i": i, "text": text, "fails": fs.iter().map(|f| f.path).collect::<Vec<_>>()}));
                    push_fail(&mut failures, &mut nfail, &k, &p, fs, "tlc");
                }
                Err(_) => {
                    lines.push(json!({"i": i, "text": null, "fails": ["panic"]}));
                    nfail += 1;
                    failures.push(json!({"kind": k, "parts": p, "path": "panic", "text": "", "got": null, "src": "tlc"}));
                }
            }
        }
    }
    // native enumeration of a larger scope with the same rule
    let mut native: Vec<Value> = vec![];
    if let Some(spec) = util::arg("--native") {
        let alphabet: Vec<char> = util::arg("--alphabet").expect("--alphabet").chars().collect();
        for item in spec.split(',').filter(|s| !s.is_empty()) {
            let f: Vec<&str> = item.split(':').collect();
            let (k, n, l): (&str, usize, usize) = (f[0], f[1].parse().unwrap(), f[2].parse().unwrap());
            let ids = idents(&alphabet, l, with_empty);
            let mut idx = vec![0usize; n];
            let mut count = 0u64;
            let mut fails_here = 0u64;
            let t0 = std::time::Instant::now();
            'outer: loop {
                let p: Vec<String> = idx.iter().map(|&j| ids[j].clone()).collect();
                let sql = sql_every > 0 && count % sql_every == 0;
                let (_text, fs) = rn.run(k, &p, sql);
                count += 1;
                fails_here += fs.len() as u64;
                push_fail(&mut failures, &mut nfail, k, &p, fs, "native");
                // next tuple
                let mut d = n;
                loop {
                    if d == 0 { break 'outer; }
                    d -= 1;
                    idx[d] += 1;
                    if idx[d] < ids.len() { break; }
                    idx[d] = 0;
                }
            }
            evaluations += count;
            native.push(json!({"kind": k, "parts": n, "max_ident_len": l, "identifiers": ids.len(), "references": count, "failures": fails_here, "wall_s": t0.elapsed().as_secs_f64()}));
        }
    }
    // a fixed list of whole identifiers (non-ASCII digits / letters in leading and non-leading position ...): every
    // reference of every kind and arity over the list
    let mut native_ids = json!(null);
    if let Some(list) = util::arg("--native-ids") {
        let ids: Vec<String> = list.split(',').map(|s| s.to_string()).collect();
        let mut refs = 0u64;
        let mut fails_here = 0u64;
        for (k, maxn) in [("T", 3usize), ("C", 4), ("S", 2)] {
            for n in 1..=maxn {
                let mut idx = vec![0usize; n];
                'outer: loop {
                    let p: Vec<String> = idx.iter().map(|&j| ids[j].clone()).collect();
                    let (_t, fs) = rn.run(k, &p, n <= 2 || refs % 11 == 0);
                    refs += 1;
                    fails_here += fs.len() as u64;
                    push_fail(&mut failures, &mut nfail, k, &p, fs, "native-ids");
                    let mut d = n;
                    loop {
                        if d == 0 { break 'outer; }
                        d -= 1;
                        idx[d] += 1;
                        if idx[d] < ids.len() { break; }
                        idx[d] = 0;
                    }
                }
            }
        }
        evaluations += refs;
        native_ids = json!({"identifiers": ids, "references": refs, "failures": fails_here});
    }
    // seeded random references over a wider alphabet and longer identifiers (beyond the model-checked scope)
    let mut random = json!(null);
    if let Some(n) = util::arg("--random").and_then(|s| s.parse::<u64>().ok()) {
        use rand::{Rng, SeedableRng};
        let mut rng = rand::rngs::StdRng::seed_from_u64(util::seed());
        // wider alphabet: other scripts, a combining mark (e + U+0301 must stay distinct from the precomposed letter),
        // capital I with dot (its full lower-casing is two characters), sharp s, a zero-width joiner, an emoji
        let wide: Vec<char> = "aabzAZ019__..\"\"  é\t'`\\-$É\n;e\u{301}İßя\u{200d}😀Ω₂²١①ñ".chars().collect();
        let maxlen: usize = util::arg("--random-maxlen").and_then(|s| s.parse().ok()).unwrap_or(8);
        let mut fails_here = 0u64;
        let mut long_idents = 0u64;
        for i in 0..n {
            let k = ["T", "C", "S"][rng.random_range(0..3)];
            let np = match k { "T" => rng.random_range(1..=3), "C" => rng.random_range(1..=4), _ => rng.random_range(1..=2) };
            let p: Vec<String> = (0..np).map(|_| {
                // mostly short; sometimes very long (256, 1000, 70000 characters)
                let l = match rng.random_range(0..400) { 0 => 70_000, 1 | 2 => 1000, 3..=6 => 256, _ => rng.random_range(0..=maxlen) };
                if l >= 256 { long_idents += 1; }
                (0..l).map(|_| wide[rng.random_range(0..wide.len())]).collect()
            }).collect();
            let (_t, fs) = rn.run(k, &p, i % sql_every.max(1) == 0);
            fails_here += fs.len() as u64;
            push_fail(&mut failures, &mut nfail, k, &p, fs, "random");
        }
        evaluations += n;
        random = json!({"references": n, "alphabet": wide.iter().collect::<String>(), "max_ident_len": maxlen, "identifiers_of_256_or_more_chars": long_idents, "failures": fails_here});
    }
    // every SQL keyword known to the parser, as an identifier (lower case = rendered bare, upper = quoted)
    let mut kw = json!(null);
    if util::has_flag("--keywords") {
        use datafusion::sql::sqlparser::keywords::ALL_KEYWORDS;
        rn.in_kw = true;
        let mut refs = 0u64;
        let mut fails_here = 0u64;
        for w in ALL_KEYWORDS.iter() {
            let lower = w.to_ascii_lowercase();
            let upper = w.to_ascii_uppercase();
            let mut cap = lower.clone();
            cap[..1].make_ascii_uppercase();
            for v in [lower, upper, cap] {
                let t = "t".to_string();
                for (k, p) in [("T", vec![v.clone()]), ("T", vec![v.clone(), t.clone()]), ("T", vec![t.clone(), v.clone()]), ("T", vec![v.clone(), v.clone(), v.clone()]),
                               ("T", vec![v.clone(), t.clone(), t.clone()]), ("T", vec![t.clone(), v.clone(), t.clone()]), ("T", vec![t.clone(), t.clone(), v.clone()]),
                               ("C", vec![v.clone()]), ("C", vec![t.clone(), v.clone()]), ("C", vec![v.clone(), t.clone()]),
                               ("C", vec![v.clone(), t.clone(), t.clone(), t.clone()]), ("C", vec![t.clone(), v.clone(), t.clone(), t.clone()]),
                               ("C", vec![t.clone(), t.clone(), v.clone(), t.clone()]), ("C", vec![t.clone(), t.clone(), t.clone(), v.clone()]),
                               ("S", vec![v.clone()]), ("S", vec![v.clone(), v.clone()])] {
                    let (_t, fs) = rn.run(k, &p, true);
                    refs += 1;
                    fails_here += fs.len() as u64;
                    push_fail(&mut failures, &mut nfail, k, &p, fs, "keywords");
                }
            }
        }
        rn.in_kw = false;
        evaluations += refs;
        kw = json!({"keywords": ALL_KEYWORDS.len(), "references": refs, "failures": fails_here, "sql_statements_rejected_by_parser": rn.kw_sql_rejected});
    }
    util::write_ndjson(&out, &lines);
    util::summary(json!({
        "evaluations": evaluations,
        "path_checks": rn.counts,
        "sql_rejected": rn.sql_errors,
        "sql_rejected_samples": rn.sql_error_samples,
        "sql_rejected_unexplained": rn.sql_unexplained,
        "failures": failures,
        "n_failures": nfail,
        "failures_empty_identifier": failures_empty,
        "n_failures_empty_identifier": nfail_empty,
        "native": native,
        "keywords": kw,
        "native_ids": native_ids,
        "random": random,
        "rendered_quoted": rendered_quoted,
        "rendered_bare": rendered_bare,
    }));
}
