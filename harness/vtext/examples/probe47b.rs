use datafusion::prelude::*;
#[tokio::main(flavor = "current_thread")]
async fn main() {
    let ctx = SessionContext::new();
    ctx.sql("CREATE TABLE t AS SELECT arrow_cast(arrow_cast(x, 'Int64'), 'Timestamp(s)') AS s, arrow_cast(arrow_cast(x * 1000 + 1, 'Int64'), 'Timestamp(ms)') AS ms, arrow_cast(arrow_cast(x * 1000000, 'Int64'), 'Timestamp(µs, \"+02:00\")') AS z FROM (VALUES (0), (7200)) AS v(x)").await.unwrap().collect().await.unwrap();
    for q in ["SELECT s, ms, s = ms AS col_col, s = arrow_cast(arrow_cast(1, 'Int64'), 'Timestamp(ms)') AS col_lit, s IN (arrow_cast(arrow_cast(1, 'Int64'), 'Timestamp(ms)'), arrow_cast(arrow_cast(5, 'Int64'), 'Timestamp(ms)'), arrow_cast(arrow_cast(6, 'Int64'), 'Timestamp(ms)'), arrow_cast(arrow_cast(8, 'Int64'), 'Timestamp(ms)')) AS in_list FROM t",
              "SELECT s, z, s = z AS col_col, s = arrow_cast(arrow_cast(0, 'Int64'), 'Timestamp(µs, \"+02:00\")') AS col_lit FROM t",
              "EXPLAIN SELECT s = z, s = arrow_cast(arrow_cast(0, 'Int64'), 'Timestamp(µs, \"+02:00\")'), s = arrow_cast(arrow_cast(1, 'Int64'), 'Timestamp(ms)'), s = ms FROM t"] {
        match ctx.sql(q).await { Ok(df) => match df.collect().await { Ok(b) => println!("{q}\n{}", arrow::util::pretty::pretty_format_batches(&b).unwrap()), Err(e) => println!("{q} -> ERR {e}") }, Err(e) => println!("{q} -> ERR {e}") }
    }
}
