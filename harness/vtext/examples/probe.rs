use datafusion_common::{TableReference, Column};
fn main() {
    for s in ["\"\".t", "\"\"", "t.\"\"", "a . b", " a", "a.", ".a", "a..b", "a\"b\"", "b\"x\"", "\"a\"\"\"", "É", "é.É", "a.1", "a.b.c.d", "1"] {
        println!("{:?} -> {:?} | col {:?}", s, TableReference::parse_str(s).to_vec(), Column::from_qualified_name(s));
    }
}
