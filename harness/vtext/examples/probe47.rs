use datafusion::prelude::*;
#[tokio::main(flavor = "current_thread")]
async fn main() {
    let ctx = SessionContext::new();
    ctx.sql("CREATE TABLE t AS SELECT arrow_cast(arrow_cast(x, 'Int64'), 'Date64') AS d, arrow_cast(x / 86400000, 'Int32') AS i FROM (VALUES (86400000), (0), (-86400000)) AS v(x)").await.unwrap().collect().await.unwrap();
    for q in ["SELECT d, d = arrow_cast('86400000', 'Int64') AS e FROM t",
              "SELECT d, d < arrow_cast('9223372036854775807', 'Int64') AS e FROM t",
              "SELECT d, d < arrow_cast('-9223372036854775808', 'Int64') AS e FROM t",
              "SELECT d, d IN (arrow_cast('86400000', 'Int64'), arrow_cast('9223372036854775807', 'Int64'), 5, 6) AS e FROM t",
              "SELECT i, a.d, i = a.d AS col_col, i = arrow_cast(arrow_cast('86400000','Int64'),'Date64') AS col_lit FROM t a"] {
        let r = std::panic::catch_unwind(std::panic::AssertUnwindSafe(|| futures::executor::block_on(async { ctx.sql(q).await?.collect().await })));
        match r { Ok(Ok(b)) => println!("{q}\n{}", arrow::util::pretty::pretty_format_batches(&b).unwrap()), Ok(Err(e)) => println!("{q} -> ERR {e}"), Err(_) => println!("{q} -> PANIC") }
    }
}
