use datafusion::prelude::*;
#[tokio::main(flavor = "current_thread")]
async fn main() {
    let ctx = SessionContext::new();
    ctx.sql("CREATE TABLE t(v DOUBLE) AS VALUES (arrow_cast('-0','Float64')), (0.0), (1.0)").await.unwrap().collect().await.unwrap();
    for q in ["SELECT v, v = 0.0 AS eq, v IN (0.0) AS in1, v IN (0.0, 5.0) AS in2, v IN (0.0, 5.0, 6.0, 7.0) AS in4, v = 0 AS eqi, v IN (0, 5) AS ini FROM t",
              "SELECT v FROM t WHERE v IN (0.0, 5.0)", "SELECT v FROM t WHERE v = 0.0", "EXPLAIN SELECT v FROM t WHERE v IN (0.0, 5.0)"] {
        let b = ctx.sql(q).await.unwrap().collect().await.unwrap();
        println!("{q}\n{}", arrow::util::pretty::pretty_format_batches(&b).unwrap());
    }
}
