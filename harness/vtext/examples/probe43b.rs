use datafusion_common::config::{ConfigFileType, TableOptions};
use std::collections::HashMap;
fn main() {
    let mut t = TableOptions::new();
    t.set_config_format(ConfigFileType::PARQUET);
    t.set("format.compression::c1", "zstd(3)").unwrap();
    t.set("format.bloom_filter_fpp::c1", "0.5").unwrap();
    let l: Vec<_> = t.entries().into_iter().filter(|e| e.key.contains("::")).map(|e| (e.key, e.value)).collect();
    println!("{l:?}");
    let map: HashMap<String, String> = t.entries().into_iter().filter_map(|e| e.value.map(|v| (e.key, v))).collect();
    let mut t2 = TableOptions::new();
    t2.set_config_format(ConfigFileType::PARQUET);
    let r = t2.alter_with_string_hash_map(&map);
    println!("{:?}", r.map_err(|e| e.to_string()));
    let l2: Vec<_> = t2.entries().into_iter().filter(|e| e.key.contains("::")).map(|e| (e.key, e.value)).collect();
    println!("{l2:?}");
    let mut t3 = TableOptions::new();
    t3.set_config_format(ConfigFileType::PARQUET);
    for (k, v) in &l { if let Some(v) = v { println!("{k}={v} -> {:?}", t3.set(k, v).map_err(|e| e.to_string())); } }
    println!("{:?}", t3.entries().into_iter().filter(|e| e.key.contains("::")).map(|e| (e.key, e.value)).collect::<Vec<_>>());
}
