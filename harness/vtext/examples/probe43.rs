use datafusion::prelude::*;
use datafusion_common::config::ConfigOptions;
#[tokio::main(flavor = "current_thread")]
async fn main() {
    let c = ConfigOptions::new();
    let es = c.entries();
    println!("n entries {}", es.len());
    for e in &es {
        // round trip
        let mut c2 = c.clone();
        let r = match &e.value { Some(v) => c2.set(&e.key, v).map_err(|x| x.to_string()), None => Err("none".into()) };
        let same = c2.entries() == es;
        println!("{} = {:?}  rt={:?} same={}", e.key, e.value, r.is_ok(), same);
    }
    let ctx = SessionContext::new_with_config(SessionConfig::new().with_information_schema(true));
    let b = ctx.sql("select name, value from information_schema.df_settings order by name").await.unwrap().collect().await.unwrap();
    let n: usize = b.iter().map(|x| x.num_rows()).sum();
    println!("df_settings rows {}", n);
    let b = ctx.sql("select name, value from information_schema.df_settings where name like 'datafusion.runtime%'").await.unwrap().collect().await.unwrap();
    println!("{}", arrow::util::pretty::pretty_format_batches(&b).unwrap());
    for q in ["SHOW datafusion.execution.batch_size", "SET datafusion.execution.batch_size = 17", "SHOW datafusion.execution.batch_size", "SET datafusion.execution.batch_size to '18'", "SHOW datafusion.execution.batch_size",
              "SET datafusion.execution.batch_size = abc", "SET datafusion.execution.batch_size = -1", "SET datafusion.execution.batch_size = 1.5", "SET datafusion.execution.batch_size = NULL", "SET datafusion.execution.batch_size = true",
              "SET datafusion.catalog.default_schema = 'A b'", "SHOW datafusion.catalog.default_schema",
              "SET datafusion.runtime.memory_limit = '1G'", "SHOW datafusion.runtime.memory_limit", "SET datafusion.runtime.memory_limit = '1024M'", "SHOW datafusion.runtime.memory_limit",
              "SET datafusion.execution.parquet.compression = 'ZSTD(3)'", "SHOW datafusion.execution.parquet.compression", "SET datafusion.execution.time_zone = NULL","SHOW datafusion.execution.time_zone",
              "RESET datafusion.execution.batch_size", "SHOW datafusion.execution.batch_size"] {
        match ctx.sql(q).await {
            Ok(df) => match df.collect().await { Ok(b) => println!("{q}\n{}", arrow::util::pretty::pretty_format_batches(&b).unwrap()), Err(e) => println!("{q} -> exec ERR {e}") },
            Err(e) => println!("{q} -> ERR {e}"),
        }
    }
}
