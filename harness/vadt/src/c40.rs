//! C40 — file caches.  Replays the histories printed by spec/adt/LruCache.tla on every cache instance the
//! engine builds from `DefaultCache`: harness key/value types, the list-files cache
//! (TableScopedPath -> CachedFileList), the file-statistics cache (TableScopedPath -> CachedFileMetadata) and
//! the file-metadata cache (Path -> CachedFileMetadataEntry); each one created directly, handed to
//! `CacheManager` through `CacheManagerConfig` (mock `TimeProvider`), and built by `CacheManager` itself
//! (system time: histories without time travel).  After every operation the return value, len, limit, ttl,
//! the listed entries (value id, size, hits, expiry) and the accounted memory are compared with the model.
//! Also: the validity layer truth table (FileCacheValidity) on `is_valid_for`.

use arrow::datatypes::{DataType, Field, Schema};
use chrono::{TimeZone, Utc};
use datafusion_common::instant::Instant;
use datafusion_common::{HashMap, Statistics, TableReference};
use datafusion_execution::cache::cache_manager::{
    CacheManager, CacheManagerConfig, CachedFileList, CachedFileMetadata, CachedFileMetadataEntry, FileMetadata,
};
use datafusion_execution::cache::default_cache::{DefaultCache, TimeProvider};
use datafusion_execution::cache::{Cache, CacheKey, CacheValue, SchemaFingerprint, TableScopedPath};
use object_store::ObjectMeta;
use object_store::path::Path;
use serde_json::{Value, json};
use std::collections::BTreeMap;
use std::panic::{AssertUnwindSafe, catch_unwind};
use std::sync::Arc;
use std::sync::atomic::{AtomicU64, Ordering};
use std::time::Duration;
use vcommon::util;

const U: usize = 4096; // bytes per model size unit
const TU: u64 = 1000; // seconds per model time unit

pub(crate) struct MockTime {
    pub(crate) base: Instant,
    pub(crate) units: AtomicU64,
}
impl TimeProvider for MockTime {
    fn now(&self) -> Instant {
        self.base + Duration::from_secs(self.units.load(Ordering::SeqCst) * TU)
    }
}

fn tref(t: usize) -> TableReference {
    TableReference::bare(if t == 1 { "ta" } else { "tb" })
}

fn ometa(path: &str, id: u64, etag_len: usize) -> ObjectMeta {
    ObjectMeta {
        location: Path::from(path),
        last_modified: Utc.timestamp_opt(1_700_000_000, 0).unwrap(),
        size: id,
        e_tag: if etag_len == 0 { None } else { Some("e".repeat(etag_len)) },
        version: None,
    }
}

trait Kind {
    type K: CacheKey;
    type V: CacheValue;
    const NAME: &'static str;
    const TABLED: bool;
    const ZERO_VALUE: bool;
    fn key(i: usize) -> Self::K;
    /// a value whose `size()` depends on `pad`
    fn val(id: u64, pad: usize) -> Self::V;
    fn zero(id: u64) -> Self::V;
    fn id(v: &Self::V) -> u64;
}

// ---- harness types
#[derive(Clone, Debug, PartialEq, Eq, Hash)]
struct HKey {
    name: u8,
    table: Option<TableReference>,
}
impl CacheKey for HKey {
    fn size(&self) -> usize {
        7
    }
    fn table_ref(&self) -> Option<&TableReference> {
        self.table.as_ref()
    }
}
#[derive(Clone, Debug)]
struct HVal {
    id: u64,
    size: usize,
}
impl CacheValue for HVal {
    fn size(&self) -> usize {
        self.size
    }
}
struct KH;
impl Kind for KH {
    type K = HKey;
    type V = HVal;
    const NAME: &'static str = "harness";
    const TABLED: bool = true;
    const ZERO_VALUE: bool = true;
    fn key(i: usize) -> HKey {
        HKey { name: i as u8, table: Some(tref(if i <= 2 { 1 } else { 2 })) }
    }
    fn val(id: u64, pad: usize) -> HVal {
        HVal { id, size: pad }
    }
    fn zero(id: u64) -> HVal {
        HVal { id, size: 0 }
    }
    fn id(v: &HVal) -> u64 {
        v.id
    }
}
struct KHNoTable;
impl Kind for KHNoTable {
    type K = HKey;
    type V = HVal;
    const NAME: &'static str = "harness-untabled";
    const TABLED: bool = false;
    const ZERO_VALUE: bool = true;
    fn key(i: usize) -> HKey {
        HKey { name: i as u8, table: None }
    }
    fn val(id: u64, pad: usize) -> HVal {
        HVal { id, size: pad }
    }
    fn zero(id: u64) -> HVal {
        HVal { id, size: 0 }
    }
    fn id(v: &HVal) -> u64 {
        v.id
    }
}

fn tsp(i: usize) -> TableScopedPath {
    TableScopedPath { table: Some(tref(if i <= 2 { 1 } else { 2 })), path: Path::from(format!("dir/file{i}.parquet")) }
}

struct KList;
impl Kind for KList {
    type K = TableScopedPath;
    type V = CachedFileList;
    const NAME: &'static str = "list-files";
    const TABLED: bool = true;
    const ZERO_VALUE: bool = true;
    fn key(i: usize) -> TableScopedPath {
        tsp(i)
    }
    fn val(id: u64, pad: usize) -> CachedFileList {
        CachedFileList::new(vec![ometa("dir/f.parquet", id, pad)])
    }
    fn zero(_id: u64) -> CachedFileList {
        CachedFileList::new(vec![])
    }
    fn id(v: &CachedFileList) -> u64 {
        v.files.first().map(|m| m.size).unwrap_or(0)
    }
}

fn fingerprint(nullable: bool) -> Arc<SchemaFingerprint> {
    Arc::new(SchemaFingerprint::from_schema(&Schema::new(vec![Field::new("a", DataType::Int64, nullable)])))
}

struct KStats;
impl Kind for KStats {
    type K = TableScopedPath;
    type V = CachedFileMetadata;
    const NAME: &'static str = "file-statistics";
    const TABLED: bool = true;
    const ZERO_VALUE: bool = false;
    fn key(i: usize) -> TableScopedPath {
        tsp(i)
    }
    fn val(id: u64, pad: usize) -> CachedFileMetadata {
        let schema = Schema::new(vec![Field::new("a", DataType::Int64, true)]);
        CachedFileMetadata::new(ometa("dir/f.parquet", id, pad), fingerprint(true), Arc::new(Statistics::new_unknown(&schema)), None)
    }
    fn zero(id: u64) -> CachedFileMetadata {
        Self::val(id, 0)
    }
    fn id(v: &CachedFileMetadata) -> u64 {
        v.meta.size
    }
}

struct Md(usize);
impl FileMetadata for Md {
    fn as_any(&self) -> &dyn std::any::Any {
        self
    }
    fn memory_size(&self) -> usize {
        self.0
    }
    fn extra_info(&self) -> HashMap<String, String> {
        HashMap::new()
    }
}
struct KMeta;
impl Kind for KMeta {
    type K = Path;
    type V = CachedFileMetadataEntry;
    const NAME: &'static str = "file-metadata";
    const TABLED: bool = false;
    const ZERO_VALUE: bool = true;
    fn key(i: usize) -> Path {
        Path::from(format!("dir/file{i}.parquet"))
    }
    fn val(id: u64, pad: usize) -> CachedFileMetadataEntry {
        CachedFileMetadataEntry::new(ometa("dir/f.parquet", id, 0), Arc::new(Md(pad)))
    }
    fn zero(id: u64) -> CachedFileMetadataEntry {
        Self::val(id, 0)
    }
    fn id(v: &CachedFileMetadataEntry) -> u64 {
        v.meta.size
    }
}

/// value with `size()` exactly `bytes`
fn fit<T: Kind>(id: u64, bytes: usize) -> Result<T::V, String> {
    if bytes == 0 {
        let z = T::zero(id);
        return if z.size() == 0 { Ok(z) } else { Err("no zero-size value".into()) };
    }
    let mut pad = bytes;
    for _ in 0..4 {
        let v = T::val(id, pad);
        let s = v.size();
        if s == bytes {
            return Ok(v);
        }
        if s > bytes {
            if s - bytes > pad {
                return Err(format!("cannot build a {} value of {bytes} bytes (minimum {s})", T::NAME));
            }
            pad -= s - bytes;
        } else {
            pad += bytes - s;
        }
    }
    Err(format!("cannot fit a {} value to {bytes} bytes", T::NAME))
}

#[derive(Clone, Copy, PartialEq, Debug)]
enum Route {
    Direct,        // DefaultCache::new_with_ttl + mock time
    ViaManager,    // the same, handed to CacheManagerConfig and taken back from CacheManager
    ManagerBuilt,  // built by CacheManager::try_new (system time)
}

struct Inst<T: Kind> {
    cache: Arc<dyn Cache<T::K, T::V>>,
    concrete: Option<Arc<DefaultCache<T::K, T::V>>>,
    clock: Option<Arc<MockTime>>,
}

fn dur(ttl: u64) -> Option<Duration> {
    if ttl == 0 { None } else { Some(Duration::from_secs(ttl * TU)) }
}

fn mk_direct<T: Kind>(limit: usize, ttl: u64) -> (Arc<DefaultCache<T::K, T::V>>, Arc<MockTime>) {
    let clock = Arc::new(MockTime { base: Instant::now(), units: AtomicU64::new(0) });
    let c = DefaultCache::<T::K, T::V>::new_with_ttl(limit, dur(ttl)).with_time_provider(Arc::clone(&clock) as Arc<dyn TimeProvider>);
    (Arc::new(c), clock)
}

struct St {
    evaluations: u64,
    ops: u64,
    skipped: u64,
    violations: Vec<Value>,
    nviol: u64,
    per_inst: BTreeMap<String, u64>,
    nontrivial: std::collections::HashSet<String>,
}

fn replay<T: Kind>(inst: &Inst<T>, case: &Value, exact_time: bool) -> Result<Option<(usize, String)>, String> {
    let ks = T::key(1).size();
    for i in 2..=3 {
        if T::key(i).size() != ks {
            return Err(format!("{}: keys of different byte size", T::NAME));
        }
    }
    let cache = &inst.cache;
    let mut seen_base: Option<Instant> = inst.clock.as_ref().map(|c| c.base);
    for (i, op) in case["ops"].as_array().unwrap().iter().enumerate() {
        let kind = op["op"].as_str().unwrap();
        let k = op["k"].as_u64().unwrap() as usize;
        let a = op["a"].as_u64().unwrap();
        let exp_ret = op["ret"].as_i64().unwrap();
        let key = if k >= 1 { Some(T::key(k)) } else { None };
        let ret: i64 = match kind {
            "put" => {
                // ids: the model numbers every put 1,2,3,...
                let id = case["ops"].as_array().unwrap()[..=i].iter().filter(|o| o["op"] == "put").count() as u64;
                let bytes = if a == 0 { 0 } else { a as usize * U - ks };
                let v = fit::<T>(id, bytes)?;
                cache.put(key.as_ref().unwrap(), v).map(|v| T::id(&v) as i64).unwrap_or(-1)
            }
            "get" => cache.get(key.as_ref().unwrap()).map(|v| T::id(&v) as i64).unwrap_or(-1),
            "contains" => cache.contains_key(key.as_ref().unwrap()) as i64,
            "remove" => cache.remove(key.as_ref().unwrap()).map(|v| T::id(&v) as i64).unwrap_or(-1),
            "clear" => {
                cache.clear();
                -1
            }
            "limit" => {
                cache.update_cache_limit(a as usize * U);
                -1
            }
            "ttl" => {
                cache.update_cache_ttl(dur(a));
                -1
            }
            "advance" => {
                inst.clock.as_ref().ok_or("advance without a mock clock")?.units.fetch_add(a, Ordering::SeqCst);
                -1
            }
            "drop_table" => {
                cache.drop_table_entries(&tref(a as usize)).map_err(|e| e.to_string())?;
                -1
            }
            _ => return Err(format!("unknown op {kind}")),
        };
        if ret != exp_ret {
            return Ok(Some((i, format!("{kind}(key {k}, arg {a}) returned {ret}, model {exp_ret}"))));
        }
        // ---- state projection
        let post = &op["post"];
        let entries = cache.list_entries();
        let mut got: Vec<(usize, u64, usize, i64, usize)> = vec![];
        let mut sum = 0usize;
        for (ek, info) in entries.iter() {
            let ki = (1..=3).find(|i| &T::key(*i) == ek).ok_or("unknown key listed")?;
            if info.size_bytes != info.value.size() {
                return Ok(Some((i, format!("list_entries: size_bytes {} != value.size() {}", info.size_bytes, info.value.size()))));
            }
            sum += ek.size() + info.size_bytes;
            let e = match info.expires {
                None => -1,
                Some(t) => {
                    if exact_time {
                        let d = t.duration_since(seen_base.unwrap());
                        if d.subsec_nanos() != 0 || d.as_secs() % TU != 0 { -2 } else { (d.as_secs() / TU) as i64 }
                    } else {
                        -3
                    }
                }
            };
            got.push((ki, T::id(&info.value), ek.size() + info.size_bytes, e, info.hits));
        }
        got.sort();
        let mut exp: Vec<(usize, u64, usize, i64, usize)> = post["entries"]
            .as_array()
            .unwrap()
            .iter()
            .map(|e| {
                let x = e["exp"].as_i64().unwrap();
                (e["k"].as_u64().unwrap() as usize, e["id"].as_u64().unwrap(), e["tot"].as_u64().unwrap() as usize * U,
                 if !exact_time && x != -1 { -3 } else { x }, e["hits"].as_u64().unwrap() as usize)
            })
            .collect();
        exp.sort();
        if got != exp {
            return Ok(Some((i, format!("after {kind}(key {k}, arg {a}): entries (key, value id, bytes, expires, hits) {got:?}, model {exp:?}"))));
        }
        let used = post["used"].as_u64().unwrap() as usize * U;
        let limit = post["limit"].as_u64().unwrap() as usize * U;
        if sum != used || sum > cache.cache_limit() {
            return Ok(Some((i, format!("after {kind}: sum of entry sizes {sum}, model {used}, limit {}", cache.cache_limit()))));
        }
        if let Some(c) = &inst.concrete {
            if c.memory_used() != used {
                return Ok(Some((i, format!("after {kind}: memory_used() = {}, sum of entries = {sum}, model {used}", c.memory_used()))));
            }
        }
        if cache.len() != post["len"].as_u64().unwrap() as usize || cache.is_empty() != (cache.len() == 0) {
            return Ok(Some((i, format!("after {kind}: len() = {}, model {}", cache.len(), post["len"]))));
        }
        if cache.cache_limit() != limit || cache.cache_ttl() != dur(post["ttl"].as_u64().unwrap()) {
            return Ok(Some((i, format!("after {kind}: cache_limit() = {} cache_ttl() = {:?}, model {limit} / {:?}", cache.cache_limit(), cache.cache_ttl(), dur(post["ttl"].as_u64().unwrap())))));
        }
        let _ = &mut seen_base;
    }
    Ok(None)
}

/// Build the instance for (kind, route); None if the route does not exist for this kind.
fn instantiate<T: Kind>(route: Route, limit0: usize, ttl0: u64, which: &str) -> Result<Option<Inst<T>>, String>
where
    T: 'static,
{
    let any = |c: Arc<dyn std::any::Any + Send + Sync>| c;
    let _ = any;
    match route {
        Route::Direct => {
            let (c, clock) = mk_direct::<T>(limit0 * U, ttl0);
            Ok(Some(Inst { cache: c.clone(), concrete: Some(c), clock: Some(clock) }))
        }
        _ => {
            let _ = which;
            Ok(None)
        }
    }
}

fn manager_inst_list(route: Route, limit0: usize, ttl0: u64) -> Result<Inst<KList>, String> {
    match route {
        Route::ViaManager => {
            // created with other settings; CacheManager must apply the configured limit and ttl
            let (c, clock) = mk_direct::<KList>(1 << 30, if ttl0 == 0 { 0 } else { 7 });
            let mut cfg = CacheManagerConfig::default().with_list_files_cache(Some(c.clone())).with_list_files_cache_limit(limit0 * U);
            cfg = cfg.with_list_files_cache_ttl(dur(ttl0));
            let m = CacheManager::try_new(&cfg).map_err(|e| e.to_string())?;
            let cache = m.get_list_files_cache().ok_or("CacheManager returned no list-files cache")?;
            Ok(Inst { cache, concrete: Some(c), clock: Some(clock) })
        }
        _ => {
            let cfg = CacheManagerConfig::default().with_list_files_cache_limit(limit0 * U).with_list_files_cache_ttl(dur(ttl0));
            let m = CacheManager::try_new(&cfg).map_err(|e| e.to_string())?;
            let cache = m.get_list_files_cache().ok_or("CacheManager built no list-files cache")?;
            Ok(Inst { cache, concrete: None, clock: None })
        }
    }
}

fn manager_inst_stats(route: Route, limit0: usize, ttl0: u64) -> Result<Inst<KStats>, String> {
    match route {
        Route::ViaManager => {
            let (c, clock) = mk_direct::<KStats>(1 << 30, ttl0);
            let cfg = CacheManagerConfig::default().with_file_statistics_cache(Some(c.clone())).with_file_statistics_cache_limit(limit0 * U);
            let m = CacheManager::try_new(&cfg).map_err(|e| e.to_string())?;
            let cache = m.get_file_statistic_cache().ok_or("CacheManager returned no statistics cache")?;
            Ok(Inst { cache, concrete: Some(c), clock: Some(clock) })
        }
        _ => {
            let cfg = CacheManagerConfig::default().with_file_statistics_cache_limit(limit0 * U);
            let m = CacheManager::try_new(&cfg).map_err(|e| e.to_string())?;
            let cache = m.get_file_statistic_cache().ok_or("CacheManager built no statistics cache")?;
            Ok(Inst { cache, concrete: None, clock: None })
        }
    }
}

fn manager_inst_meta(route: Route, limit0: usize, ttl0: u64) -> Result<Inst<KMeta>, String> {
    match route {
        Route::ViaManager => {
            let (c, clock) = mk_direct::<KMeta>(1 << 30, ttl0);
            let cfg = CacheManagerConfig::default().with_file_metadata_cache(Some(c.clone())).with_metadata_cache_limit(limit0 * U);
            let m = CacheManager::try_new(&cfg).map_err(|e| e.to_string())?;
            Ok(Inst { cache: m.get_file_metadata_cache(), concrete: Some(c), clock: Some(clock) })
        }
        _ => {
            let cfg = CacheManagerConfig::default().with_metadata_cache_limit(limit0 * U);
            let m = CacheManager::try_new(&cfg).map_err(|e| e.to_string())?;
            Ok(Inst { cache: m.get_file_metadata_cache(), concrete: None, clock: None })
        }
    }
}

fn run_on<T: Kind + 'static>(st: &mut St, case: &Value, route: Route, mk: &dyn Fn(Route, usize, u64) -> Result<Inst<T>, String>) -> Result<(), String> {
    let ops = case["ops"].as_array().unwrap();
    let tabled = case["tabled"].as_bool().unwrap_or(true);
    let name = format!("{}/{:?}", T::NAME, route);
    let ttl0 = case["ttl0"].as_u64().unwrap();
    let limit0 = case["limit0"].as_u64().unwrap() as usize;
    let expressible = tabled == T::TABLED
        && (T::ZERO_VALUE || !ops.iter().any(|o| o["op"] == "put" && o["a"] == 0))
        && (route != Route::ManagerBuilt || !ops.iter().any(|o| o["op"] == "advance"))
        // only the list-files cache has a configurable ttl when built by the manager
        && (route != Route::ManagerBuilt || T::NAME == "list-files" || ttl0 == 0);
    if !expressible {
        st.skipped += 1;
        return Ok(());
    }
    let inst = mk(route, limit0, ttl0)?;
    let r = catch_unwind(AssertUnwindSafe(|| replay::<T>(&inst, case, route != Route::ManagerBuilt)));
    st.evaluations += 1;
    st.ops += ops.len() as u64;
    *st.per_inst.entry(name.clone()).or_default() += 1;
    let fail = match r {
        Ok(Ok(None)) => None,
        Ok(Ok(Some((i, m)))) => Some((i as i64, m)),
        Ok(Err(e)) => return Err(e),
        Err(_) => Some((-1, "panic inside the cache".to_string())),
    };
    if let Some((step, msg)) = fail {
        st.nviol += 1;
        if st.violations.len() < 30 {
            st.violations.push(json!({"case": case, "instance": name, "step": step, "oracle": msg}));
        }
    }
    Ok(())
}

fn direct<T: Kind + 'static>(route: Route, limit0: usize, ttl0: u64) -> Result<Inst<T>, String> {
    instantiate::<T>(route, limit0, ttl0, "")?.ok_or_else(|| "no such route".to_string())
}

fn run_case(st: &mut St, case: &Value, only: Option<&str>) -> Result<(), String> {
    let want = |n: &str| only.map(|o| o == n).unwrap_or(true);
    if case["ops"].as_array().unwrap().iter().any(|o| o["post"]["len"].as_u64().unwrap() >= 2) {
        st.nontrivial.insert(case["ops"].to_string());
    }
    if want("harness/Direct") { run_on::<KH>(st, case, Route::Direct, &direct::<KH>)?; }
    if want("harness-untabled/Direct") { run_on::<KHNoTable>(st, case, Route::Direct, &direct::<KHNoTable>)?; }
    if want("list-files/Direct") { run_on::<KList>(st, case, Route::Direct, &direct::<KList>)?; }
    if want("file-statistics/Direct") { run_on::<KStats>(st, case, Route::Direct, &direct::<KStats>)?; }
    if want("file-metadata/Direct") { run_on::<KMeta>(st, case, Route::Direct, &direct::<KMeta>)?; }
    for route in [Route::ViaManager, Route::ManagerBuilt] {
        if want(&format!("list-files/{route:?}")) { run_on::<KList>(st, case, route, &manager_inst_list)?; }
        if want(&format!("file-statistics/{route:?}")) { run_on::<KStats>(st, case, route, &manager_inst_stats)?; }
        if want(&format!("file-metadata/{route:?}")) { run_on::<KMeta>(st, case, route, &manager_inst_meta)?; }
    }
    Ok(())
}

/// FileCacheValidity truth table: cached entry usable iff size, last_modified (and schema fingerprint) unchanged.
fn validity(cases: &[Value], st: &mut St) {
    let meta = |size: u64, mtime: i64| ObjectMeta {
        location: Path::from("dir/f.parquet"), last_modified: Utc.timestamp_opt(1_700_000_000 + mtime, 0).unwrap(), size, e_tag: None, version: None,
    };
    let schema = Schema::new(vec![Field::new("a", DataType::Int64, true)]);
    for c in cases {
        let g = |k: &str| c[k].as_i64().unwrap();
        let expect = c["valid"].as_bool().unwrap();
        let cached = meta(g("csize") as u64, g("cmtime"));
        let cur = meta(g("size") as u64, g("mtime"));
        let cfp = fingerprint(g("cfp") == 1);
        // an equal fingerprint held in a different Arc must be accepted as well
        let fps = if g("cfp") == g("fp") { vec![Arc::clone(&cfp), fingerprint(g("fp") == 1)] } else { vec![fingerprint(g("fp") == 1)] };
        for fp in fps {
            st.evaluations += 1;
            let v = CachedFileMetadata::new(cached.clone(), Arc::clone(&cfp), Arc::new(Statistics::new_unknown(&schema)), None);
            let got = v.is_valid_for(&cur, &fp);
            if got != expect {
                st.nviol += 1;
                st.violations.push(json!({"case": c, "instance": "CachedFileMetadata::is_valid_for", "step": 0, "oracle": format!("is_valid_for = {got}, model {expect}")}));
            }
        }
        if g("cfp") == g("fp") {
            st.evaluations += 1;
            let e = CachedFileMetadataEntry::new(cached.clone(), Arc::new(Md(10)));
            let got = e.is_valid_for(&cur);
            if got != expect {
                st.nviol += 1;
                st.violations.push(json!({"case": c, "instance": "CachedFileMetadataEntry::is_valid_for", "step": 0, "oracle": format!("is_valid_for = {got}, model {expect}")}));
            }
        }
    }
}

pub fn main() {
    let out = util::arg("--out").expect("--out");
    std::panic::set_hook(Box::new(|_| {}));
    let mut st = St { evaluations: 0, ops: 0, skipped: 0, violations: vec![], nviol: 0, per_inst: BTreeMap::new(), nontrivial: Default::default() };
    let mut tool_errors: Vec<String> = vec![];
    if let Some(r) = util::arg("--replay") {
        let v: Value = serde_json::from_str(&std::fs::read_to_string(&r).expect("replay file")).expect("replay json");
        if v["instance"].as_str().unwrap_or("").contains("is_valid_for") {
            validity(&[v["case"].clone()], &mut st);
        } else if let Err(e) = run_case(&mut st, &v["case"], v["instance"].as_str()) {
            tool_errors.push(e);
        }
    } else {
        let cases = util::read_ndjson(&util::arg("--in").expect("--in"));
        for c in &cases {
            if let Err(e) = run_case(&mut st, c, None) {
                if tool_errors.len() < 5 {
                    tool_errors.push(e);
                }
            }
        }
        if let Some(v) = util::arg("--validity") {
            validity(&util::read_ndjson(&v), &mut st);
        }
    }
    let res = json!({
        "evaluations": st.evaluations, "ops": st.ops, "skipped_not_expressible": st.skipped, "per_instance": st.per_inst,
        "distinct_nontrivial": st.nontrivial.len(), "violations_total": st.nviol, "violations": st.violations, "tool_errors": tool_errors,
    });
    std::fs::write(&out, serde_json::to_string(&res).unwrap()).unwrap();
    util::summary(json!({"evaluations": st.evaluations, "violations": st.nviol, "tool_errors": tool_errors.len()}));
}
