//! C40 end-to-end layer.  Replays the histories of spec/adt/FileCacheE2E.tla: a partitioned listing table
//! (parquet and csv) whose files are rewritten (same / different size, same / different mtime), added and deleted
//! between queries, with the list-files cache (off / infinite / TTL), the file-statistics cache and the
//! file-metadata cache enabled.  A query whose expectation is exact must return exactly the model's rows
//! (full scan, statistics-answerable aggregates, point lookups); "any" expectations are executed and ignored.

use arrow::array::{Array, Int64Array};
use arrow::datatypes::{DataType, Field, Schema};
use arrow::record_batch::RecordBatch;
use datafusion::execution::runtime_env::RuntimeEnvBuilder;
use datafusion::parquet::arrow::ArrowWriter;
use datafusion::parquet::basic::Compression;
use datafusion::parquet::file::properties::WriterProperties;
use datafusion::prelude::{SessionConfig, SessionContext};
use datafusion_execution::cache::cache_manager::CacheManagerConfig;
use serde_json::{Value, json};
use std::collections::BTreeMap;
use std::path::{Path, PathBuf};
use std::sync::Arc;
use std::time::{Duration, SystemTime};
use vcommon::util;

fn rows_of(f: u64, ver: u64, sz: u64) -> Vec<i64> {
    let n = if sz == 1 { 2 } else { 3 };
    (0..n).map(|i| 100_000 + (ver as i64) * 100 + (f as i64) * 10 + i).collect()
}

fn file_path(dir: &Path, fmt: &str, f: u64) -> PathBuf {
    dir.join(format!("p={}", if f == 2 { 2 } else { 1 })).join(format!("f{f}.{fmt}"))
}

fn write_file(path: &Path, fmt: &str, rows: &[i64], mtime: u64) -> Result<u64, String> {
    std::fs::create_dir_all(path.parent().unwrap()).map_err(|e| e.to_string())?;
    if fmt == "csv" {
        let mut s = String::from("a\n");
        for r in rows {
            s.push_str(&format!("{r}\n"));
        }
        std::fs::write(path, s).map_err(|e| e.to_string())?;
    } else {
        let schema = Arc::new(Schema::new(vec![Field::new("a", DataType::Int64, false)]));
        let batch = RecordBatch::try_new(Arc::clone(&schema), vec![Arc::new(Int64Array::from(rows.to_vec()))]).map_err(|e| e.to_string())?;
        let props = WriterProperties::builder().set_dictionary_enabled(false).set_compression(Compression::UNCOMPRESSED).build();
        let file = std::fs::File::create(path).map_err(|e| e.to_string())?;
        let mut w = ArrowWriter::try_new(file, schema, Some(props)).map_err(|e| e.to_string())?;
        w.write(&batch).map_err(|e| e.to_string())?;
        w.close().map_err(|e| e.to_string())?;
    }
    let t = SystemTime::UNIX_EPOCH + Duration::from_secs(1_700_000_000 + mtime * 10);
    let fh = std::fs::File::options().write(true).open(path).map_err(|e| e.to_string())?;
    fh.set_modified(t).map_err(|e| e.to_string())?;
    drop(fh);
    Ok(std::fs::metadata(path).map_err(|e| e.to_string())?.len())
}

async fn col_i64(ctx: &SessionContext, sql: &str) -> Result<Vec<Vec<Option<i64>>>, String> {
    let df = ctx.sql(sql).await.map_err(|e| e.to_string())?;
    let batches = df.collect().await.map_err(|e| e.to_string())?;
    let mut rows = vec![];
    for b in batches {
        for r in 0..b.num_rows() {
            let mut row = vec![];
            for c in 0..b.num_columns() {
                let a = arrow::compute::cast(b.column(c), &DataType::Int64).map_err(|e| e.to_string())?;
                let a = a.as_any().downcast_ref::<Int64Array>().unwrap();
                row.push(if a.is_null(r) { None } else { Some(a.value(r)) });
            }
            rows.push(row);
        }
    }
    rows.sort();
    Ok(rows)
}

#[derive(Default)]
struct Stats {
    queries_exact: u64,
    queries_any: u64,
    alt_listing: u64,
    unrealizable: u64,
    ops: u64,
    same_size_same_mtime_rewrites: u64,
    diff_only_mtime: u64,
    diff_only_size: u64,
    prefix_queries: u64,
}

async fn create_table(ctx: &SessionContext, dir: &Path, fmt: &str) -> Result<(), String> {
    let opts = if fmt == "csv" { "OPTIONS ('format.has_header' 'true')" } else { "" };
    let sql = format!(
        "CREATE EXTERNAL TABLE t (a BIGINT NOT NULL, p INT) STORED AS {} PARTITIONED BY (p) LOCATION '{}/' {}",
        fmt.to_uppercase(), dir.display(), opts
    );
    ctx.sql(&sql).await.map_err(|e| e.to_string())?.collect().await.map_err(|e| e.to_string())?;
    Ok(())
}

/// Ok(None): history followed to the end; Ok(Some(msg)): violation at (step, msg)
async fn replay(case: &Value, fmt: &str, st: &mut Stats) -> Result<Option<(usize, String)>, String> {
    let listmode = case["listmode"].as_str().unwrap();
    let tmp = tempfile::tempdir().map_err(|e| e.to_string())?;
    let dir = tmp.path().join("tbl");
    let mut cm = CacheManagerConfig::default();
    // TTL mode: a list-files cache with a mock clock (1000 s per unit, TTL = 1 unit), so that expiry happens exactly
    // at the model's Expire steps and never spontaneously
    let clock_mock = Arc::new(crate::c40::MockTime { base: datafusion_common::instant::Instant::now(), units: std::sync::atomic::AtomicU64::new(0) });
    cm = match listmode {
        "off" => cm.with_list_files_cache_limit(0),
        "ttl" => {
            let cache = datafusion_execution::cache::default_cache::DefaultCache::<
                datafusion_execution::cache::TableScopedPath,
                datafusion_execution::cache::cache_manager::CachedFileList,
            >::new_with_ttl(1 << 20, Some(Duration::from_secs(1000)))
            .with_time_provider(Arc::clone(&clock_mock) as Arc<dyn datafusion_execution::cache::default_cache::TimeProvider>);
            cm.with_list_files_cache(Some(Arc::new(cache))).with_list_files_cache_ttl(Some(Duration::from_secs(1000)))
        }
        _ => cm,
    };
    let rt = RuntimeEnvBuilder::new().with_cache_manager(cm).build_arc().map_err(|e| e.to_string())?;
    let cfg = SessionConfig::new().with_target_partitions(2).with_collect_statistics(true);
    let ctx = SessionContext::new_with_config_rt(cfg, rt);
    // model's initial state: files 1 and 2, version = file number, size class 1, mtime 1
    let mut cur: BTreeMap<u64, (u64, u64, u64, u64)> = BTreeMap::new(); // f -> (ver, sz, mt, bytes)
    for f in [1u64, 2] {
        let b = write_file(&file_path(&dir, fmt, f), fmt, &rows_of(f, f, 1), 1)?;
        cur.insert(f, (f, 1, 1, b));
    }
    let mut clock = 1u64;
    let mut nextver = 4u64;
    create_table(&ctx, &dir, fmt).await?;
    for (i, op) in case["ops"].as_array().unwrap().iter().enumerate() {
        let f = op["f"].as_u64().unwrap();
        let a = op["a"].as_u64().unwrap();
        let b = op["b"].as_u64().unwrap();
        st.ops += 1;
        match op["op"].as_str().unwrap() {
            "rewrite" => {
                let (_, sz, mt, bytes) = cur[&f];
                let (keep_size, keep_mt) = (a == 1, b == 1);
                let nsz = if keep_size { sz } else { 3 - sz };
                let nmt = if keep_mt { mt } else { clock + 1 };
                let nb = write_file(&file_path(&dir, fmt, f), fmt, &rows_of(f, nextver, nsz), nmt)?;
                if (nb == bytes) != keep_size {
                    // the byte size did not come out as the model's size class demands: history not realizable
                    st.unrealizable += 1;
                    return Ok(None);
                }
                match (keep_size, keep_mt) {
                    (true, true) => st.same_size_same_mtime_rewrites += 1,
                    (true, false) => st.diff_only_mtime += 1,
                    (false, true) => st.diff_only_size += 1,
                    _ => {}
                }
                cur.insert(f, (nextver, nsz, nmt, nb));
                clock += 1;
                nextver += 1;
            }
            "add" => {
                let nb = write_file(&file_path(&dir, fmt, f), fmt, &rows_of(f, nextver, a), clock + 1)?;
                cur.insert(f, (nextver, a, clock + 1, nb));
                clock += 1;
                nextver += 1;
            }
            "delete" => {
                std::fs::remove_file(file_path(&dir, fmt, f)).map_err(|e| e.to_string())?;
                cur.remove(&f);
            }
            "drop_create" => {
                ctx.sql("DROP TABLE t").await.map_err(|e| e.to_string())?.collect().await.map_err(|e| e.to_string())?;
                create_table(&ctx, &dir, fmt).await?;
            }
            "expire" => {
                clock_mock.units.fetch_add(2, std::sync::atomic::Ordering::SeqCst);
            }
            "query" => {
                let q = a;
                let exact = b == 1;
                let wh = if q == 0 { String::new() } else { format!(" WHERE p = {q}") };
                if q != 0 {
                    st.prefix_queries += 1;
                }
                let scan = col_i64(&ctx, &format!("SELECT a FROM t{wh}")).await;
                let agg = col_i64(&ctx, &format!("SELECT count(*), min(a), max(a) FROM t{wh}")).await;
                if !exact {
                    st.queries_any += 1;
                    continue;
                }
                st.queries_exact += 1;
                let rows_for = |set: &Vec<(u64, u64, u64)>| -> Vec<i64> {
                    let mut v: Vec<i64> = set.iter().flat_map(|(f, ver, sz)| rows_of(*f, *ver, *sz)).collect();
                    v.sort();
                    v
                };
                let exp_set: Vec<(u64, u64, u64)> = op["expect"].as_array().unwrap().iter().map(|t| (t[0].as_u64().unwrap(), t[1].as_u64().unwrap(), t[2].as_u64().unwrap())).collect();
                let exp = rows_for(&exp_set);
                // also acceptable: the engine did not use the (valid) cached listing and saw the current directory
                let alt_set: Vec<(u64, u64, u64)> = cur.iter().filter(|(f, _)| q == 0 || (if **f == 2 { 2 } else { 1 }) == q).map(|(f, (ver, sz, _, _))| (*f, *ver, *sz)).collect();
                let alt = rows_for(&alt_set);
                // every answer must be the model's; with a list cache the engine may legitimately have re-listed
                // (TTL ran out in real time): then the answer over the current directory is accepted and the
                // history is not followed any further
                let relist_ok = listmode != "off" && alt_set.iter().all(|(f, ver, _)| cur.get(f).map(|c| c.0 == *ver).unwrap_or(false));
                let mut relisted = false;
                let scan = match scan {
                    Ok(r) => r.into_iter().map(|r| r[0].unwrap_or(i64::MIN)).collect::<Vec<_>>(),
                    Err(e) => return Ok(Some((i, format!("scan query failed although every listed file is current: {e}")))),
                };
                if scan != exp {
                    if relist_ok && scan == alt {
                        relisted = true;
                    } else {
                        return Ok(Some((i, format!("SELECT a FROM t{wh} returned {scan:?}, model (files {exp_set:?}) {exp:?}"))));
                    }
                }
                let agg_of = |v: &Vec<i64>| vec![vec![Some(v.len() as i64), v.first().cloned(), v.last().cloned()]];
                match agg {
                    Ok(r) if r == agg_of(&exp) => {}
                    Ok(r) if relist_ok && r == agg_of(&alt) => relisted = true,
                    Ok(r) => return Ok(Some((i, format!("SELECT count(*), min(a), max(a) FROM t{wh} returned {r:?}, model {:?}", agg_of(&exp))))),
                    Err(e) => return Ok(Some((i, format!("aggregate query failed: {e}")))),
                }
                if relisted {
                    st.alt_listing += 1;
                    return Ok(None);
                }
                // point lookups: every expected value must be found (row-group statistics of a stale footer would prune it)
                for v in exp.iter().take(1).chain(exp.iter().rev().take(1)) {
                    let and = if q == 0 { String::new() } else { format!(" AND p = {q}") };
                    match col_i64(&ctx, &format!("SELECT a FROM t WHERE a = {v}{and}")).await {
                        Ok(r) if r == vec![vec![Some(*v)]] => {}
                        Ok(r) => {
                            if relist_ok && !alt.contains(v) && r.is_empty() {
                                st.alt_listing += 1;
                                return Ok(None);
                            }
                            return Ok(Some((i, format!("SELECT a FROM t WHERE a = {v}{and} returned {r:?}, model [[{v}]]"))));
                        }
                        Err(e) => return Ok(Some((i, format!("point query failed: {e}")))),
                    }
                }
            }
            o => return Err(format!("unknown op {o}")),
        }
    }
    Ok(None)
}

pub fn main() {
    let out = util::arg("--out").expect("--out");
    let cases: Vec<Value> = if let Some(r) = util::arg("--replay") {
        let v: Value = serde_json::from_str(&std::fs::read_to_string(&r).expect("replay file")).expect("replay json");
        vec![v["case"].clone()]
    } else {
        util::read_ndjson(&util::arg("--in").expect("--in"))
    };
    let only_fmt = util::arg("--format");
    let rt = tokio::runtime::Builder::new_multi_thread().worker_threads(2).enable_all().build().unwrap();
    let mut st = Stats::default();
    let mut violations: Vec<Value> = vec![];
    let mut tool_errors: Vec<String> = vec![];
    let mut evaluations = 0u64;
    let mut per_cfg: BTreeMap<String, u64> = BTreeMap::new();
    for case in &cases {
        for fmt in ["parquet", "csv"] {
            if only_fmt.as_deref().map(|f| f != fmt).unwrap_or(false) {
                continue;
            }
            evaluations += 1;
            *per_cfg.entry(format!("{fmt}/{}", case["listmode"].as_str().unwrap())).or_default() += 1;
            match rt.block_on(replay(case, fmt, &mut st)) {
                Ok(None) => {}
                Ok(Some((step, msg))) => violations.push(json!({"case": case, "instance": format!("e2e/{fmt}"), "format": fmt, "step": step, "oracle": msg})),
                Err(e) => {
                    if tool_errors.len() < 5 {
                        tool_errors.push(e)
                    }
                }
            }
        }
    }
    let nviol = violations.len();
    violations.truncate(20);
    let res = json!({
        "evaluations": evaluations, "ops": st.ops, "per_config": per_cfg, "queries_exact": st.queries_exact, "queries_any": st.queries_any,
        "histories_stopped_engine_relisted": st.alt_listing, "histories_unrealizable_size": st.unrealizable,
        "rewrites_same_size_same_mtime": st.same_size_same_mtime_rewrites, "rewrites_only_mtime_changed": st.diff_only_mtime,
        "rewrites_only_size_changed": st.diff_only_size, "prefix_scoped_queries": st.prefix_queries,
        "violations_total": nviol, "violations": violations, "tool_errors": tool_errors,
    });
    std::fs::write(&out, serde_json::to_string(&res).unwrap()).unwrap();
    util::summary(json!({"evaluations": evaluations, "violations": nviol, "tool_errors": res["tool_errors"].as_array().unwrap().len()}));
}
