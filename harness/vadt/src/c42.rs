//! C42 — TreeNode traversal contract.  Replays the cases of spec/adt/TreeWalk.tla (tree shape x callback
//! decisions x change flags x method) on real trees: `Expr` (Column / Alias / ScalarFunction nodes),
//! `LogicalPlan` (EmptyRelation / SubqueryAlias / Extension / Union nodes) and `Arc<dyn PhysicalExpr>` (DynTreeNode).
//! Model node n is a real node labelled "n<id>"; a reported replacement rebuilds the node with the same children
//! and a mark appended to its label.  Compared: callback log (phase, node, marks seen), marks of the result
//! tree, the transformed flag, the final TreeNodeRecursion.

use arrow::datatypes::{DataType, Field, Schema};
use datafusion_common::tree_node::{Transformed, TreeNode, TreeNodeRecursion, TreeNodeRewriter, TreeNodeVisitor};
use datafusion_common::{DFSchema, DFSchemaRef, Result};
use datafusion_expr::expr::{Alias, ScalarFunction};
use datafusion_expr::logical_plan::{EmptyRelation, Extension, SubqueryAlias, UserDefinedLogicalNodeCore};
use datafusion_expr::{ColumnarValue, Expr, LogicalPlan, Volatility, create_udf};
use datafusion_physical_expr_common::physical_expr::PhysicalExpr;
use serde_json::{Value, json};
use std::cell::RefCell;
use std::collections::BTreeSet;
use std::fmt;
use std::panic::{AssertUnwindSafe, catch_unwind};
use std::sync::Arc;
use vcommon::util;

/// label "n<id>" + marks ("d", "u")
fn lbl(id: usize, marks: &str) -> String {
    format!("n{id}x{marks}")
}
fn parse(label: &str) -> (usize, String) {
    let rest = &label[1..];
    let (a, b) = rest.split_once('x').unwrap_or((rest, ""));
    (a.parse().unwrap_or(0), b.to_string())
}

trait Rt {
    type N: TreeNode + Clone;
    const NAME: &'static str;
    fn make(label: &str, kids: Vec<Self::N>, variant: usize) -> Self::N;
    fn label(n: &Self::N) -> String;
    fn kids(n: &Self::N) -> Vec<Self::N>;
    fn variant(n: &Self::N) -> usize;
    fn remark(n: &Self::N, ph: &str) -> Self::N {
        let (id, m) = parse(&Self::label(n));
        Self::make(&lbl(id, &(m + ph)), Self::kids(n), Self::variant(n))
    }
}

// ------------------------------------------------------------------ Expr
struct RExpr;
impl Rt for RExpr {
    type N = Expr;
    const NAME: &'static str = "Expr";
    fn make(label: &str, kids: Vec<Expr>, variant: usize) -> Expr {
        if kids.is_empty() {
            Expr::Column(datafusion_common::Column::from_name(label))
        } else if kids.len() == 1 && variant % 2 == 0 {
            Expr::Alias(Alias::new(kids[0].clone(), None::<&str>, label))
        } else {
            let udf = create_udf(label, vec![], DataType::Int32, Volatility::Immutable, Arc::new(|_| Ok(ColumnarValue::Scalar(datafusion_common::ScalarValue::Int32(None)))));
            Expr::ScalarFunction(ScalarFunction::new_udf(Arc::new(udf), kids))
        }
    }
    fn label(n: &Expr) -> String {
        match n {
            Expr::Column(c) => c.name.clone(),
            Expr::Alias(a) => a.name.clone(),
            Expr::ScalarFunction(f) => f.func.name().to_string(),
            _ => "n0x".into(),
        }
    }
    fn kids(n: &Expr) -> Vec<Expr> {
        match n {
            Expr::Alias(a) => vec![(*a.expr).clone()],
            Expr::ScalarFunction(f) => f.args.clone(),
            _ => vec![],
        }
    }
    fn variant(n: &Expr) -> usize {
        matches!(n, Expr::ScalarFunction(_)) as usize
    }
}

// ------------------------------------------------------------------ LogicalPlan
#[derive(Debug, Clone, PartialEq, Eq, Hash, PartialOrd)]
struct ExtNode {
    label: String,
    inputs: Vec<LogicalPlan>,
    #[allow(dead_code)]
    schema_holder: (),
}
fn leaf_schema(label: &str) -> DFSchemaRef {
    Arc::new(DFSchema::try_from(Schema::new(vec![Field::new(label, DataType::Int32, true)])).unwrap())
}
impl UserDefinedLogicalNodeCore for ExtNode {
    fn name(&self) -> &str {
        "ExtNode"
    }
    fn inputs(&self) -> Vec<&LogicalPlan> {
        self.inputs.iter().collect()
    }
    fn schema(&self) -> &DFSchemaRef {
        self.inputs[0].schema()
    }
    fn expressions(&self) -> Vec<Expr> {
        vec![]
    }
    fn fmt_for_explain(&self, f: &mut fmt::Formatter) -> fmt::Result {
        write!(f, "ExtNode {}", self.label)
    }
    fn with_exprs_and_inputs(&self, _exprs: Vec<Expr>, inputs: Vec<LogicalPlan>) -> Result<Self> {
        Ok(ExtNode { label: self.label.clone(), inputs, schema_holder: () })
    }
}
struct RPlan;
impl Rt for RPlan {
    type N = LogicalPlan;
    const NAME: &'static str = "LogicalPlan";
    fn make(label: &str, kids: Vec<LogicalPlan>, variant: usize) -> LogicalPlan {
        if kids.is_empty() {
            LogicalPlan::EmptyRelation(EmptyRelation { produce_one_row: false, schema: leaf_schema(label) })
        } else if kids.len() == 1 && variant % 2 == 0 {
            LogicalPlan::SubqueryAlias(SubqueryAlias::try_new(Arc::new(kids[0].clone()), label).unwrap())
        } else {
            LogicalPlan::Extension(Extension { node: Arc::new(ExtNode { label: label.to_string(), inputs: kids, schema_holder: () }) })
        }
    }
    fn label(n: &LogicalPlan) -> String {
        match n {
            LogicalPlan::EmptyRelation(e) => e.schema.field(0).name().clone(),
            LogicalPlan::SubqueryAlias(a) => a.alias.table().to_string(),
            LogicalPlan::Extension(e) => e.node.as_any().downcast_ref::<ExtNode>().map(|x| x.label.clone()).unwrap_or("n0x".into()),
            _ => "n0x".into(),
        }
    }
    fn kids(n: &LogicalPlan) -> Vec<LogicalPlan> {
        match n {
            LogicalPlan::SubqueryAlias(a) => vec![(*a.input).clone()],
            LogicalPlan::Extension(e) => e.node.as_any().downcast_ref::<ExtNode>().map(|x| x.inputs.clone()).unwrap_or_default(),
            _ => vec![],
        }
    }
    fn variant(n: &LogicalPlan) -> usize {
        matches!(n, LogicalPlan::Extension(_)) as usize
    }
}

// ------------------------------------------------------------------ Arc<dyn PhysicalExpr>
#[derive(Debug, Clone, PartialEq, Eq, Hash)]
struct PNode {
    label: String,
    kids: Vec<Arc<dyn PhysicalExpr>>,
}
impl fmt::Display for PNode {
    fn fmt(&self, f: &mut fmt::Formatter<'_>) -> fmt::Result {
        write!(f, "{}", self.label)
    }
}
impl PhysicalExpr for PNode {
    fn evaluate(&self, _batch: &arrow::record_batch::RecordBatch) -> Result<ColumnarValue> {
        datafusion_common::internal_err!("not evaluated")
    }
    fn children(&self) -> Vec<&Arc<dyn PhysicalExpr>> {
        self.kids.iter().collect()
    }
    fn with_new_children(self: Arc<Self>, children: Vec<Arc<dyn PhysicalExpr>>) -> Result<Arc<dyn PhysicalExpr>> {
        Ok(Arc::new(PNode { label: self.label.clone(), kids: children }))
    }
    fn fmt_sql(&self, f: &mut fmt::Formatter<'_>) -> fmt::Result {
        write!(f, "{}", self.label)
    }
}
struct RPhys;
impl Rt for RPhys {
    type N = Arc<dyn PhysicalExpr>;
    const NAME: &'static str = "Arc<dyn PhysicalExpr>";
    fn make(label: &str, kids: Vec<Self::N>, _variant: usize) -> Self::N {
        Arc::new(PNode { label: label.to_string(), kids })
    }
    fn label(n: &Self::N) -> String {
        n.downcast_ref::<PNode>().map(|p| p.label.clone()).unwrap_or("n0x".into())
    }
    fn kids(n: &Self::N) -> Vec<Self::N> {
        n.downcast_ref::<PNode>().map(|p| p.kids.clone()).unwrap_or_default()
    }
    fn variant(_n: &Self::N) -> usize {
        0
    }
}

// ------------------------------------------------------------------ driver
struct Cb {
    dec: Vec<[TreeNodeRecursion; 2]>,
    chg: Vec<[bool; 2]>,
    log: RefCell<Vec<(String, usize, String)>>,
}
fn tnr_of(s: &str) -> TreeNodeRecursion {
    match s {
        "C" => TreeNodeRecursion::Continue,
        "J" => TreeNodeRecursion::Jump,
        _ => TreeNodeRecursion::Stop,
    }
}
fn tnr_s(t: TreeNodeRecursion) -> &'static str {
    match t {
        TreeNodeRecursion::Continue => "C",
        TreeNodeRecursion::Jump => "J",
        TreeNodeRecursion::Stop => "S",
    }
}
impl Cb {
    /// record the call; returns (changed?, decision)
    fn call<T: Rt>(&self, ph: usize, n: &T::N) -> (bool, TreeNodeRecursion) {
        let (id, marks) = parse(&T::label(n));
        self.log.borrow_mut().push(((if ph == 0 { "d" } else { "u" }).to_string(), id, marks));
        if id == 0 || id > self.dec.len() {
            return (false, TreeNodeRecursion::Stop);
        }
        (self.chg[id - 1][ph], self.dec[id - 1][ph])
    }
    fn rw<T: Rt>(&self, ph: usize, n: T::N) -> Result<Transformed<T::N>> {
        let (chg, dec) = self.call::<T>(ph, &n);
        let n2 = if chg { T::remark(&n, if ph == 0 { "d" } else { "u" }) } else { n };
        Ok(Transformed::new(n2, chg, dec))
    }
}

struct Vis<'a, T: Rt>(&'a Cb, std::marker::PhantomData<T>);
impl<'a, 'n, T: Rt> TreeNodeVisitor<'n> for Vis<'a, T>
where
    T::N: 'n,
{
    type Node = T::N;
    fn f_down(&mut self, node: &'n T::N) -> Result<TreeNodeRecursion> {
        Ok(self.0.call::<T>(0, node).1)
    }
    fn f_up(&mut self, node: &'n T::N) -> Result<TreeNodeRecursion> {
        Ok(self.0.call::<T>(1, node).1)
    }
}
struct Rw<'a, T: Rt>(&'a Cb, std::marker::PhantomData<T>);
impl<'a, T: Rt> TreeNodeRewriter for Rw<'a, T> {
    type Node = T::N;
    fn f_down(&mut self, node: T::N) -> Result<Transformed<T::N>> {
        self.0.rw::<T>(0, node)
    }
    fn f_up(&mut self, node: T::N) -> Result<Transformed<T::N>> {
        self.0.rw::<T>(1, node)
    }
}

fn build<T: Rt>(kids: &Value, n: usize, seed: usize) -> T::N {
    let ks: Vec<T::N> = kids[n - 1].as_array().unwrap().iter().map(|k| build::<T>(kids, k.as_u64().unwrap() as usize, seed)).collect();
    T::make(&lbl(n, ""), ks, n + seed)
}

/// pre-order (id, marks) of a real tree through the harness' own child accessor
fn flatten<T: Rt>(n: &T::N, out: &mut Vec<(usize, String)>) {
    out.push(parse(&T::label(n)));
    for k in T::kids(n) {
        flatten::<T>(&k, out);
    }
}

fn run_case<T: Rt>(case: &Value, seed: usize) -> Option<String> {
    let nn = case["size"].as_array().unwrap().len();
    let cb = Cb {
        dec: (0..nn).map(|i| [tnr_of(case["dec"][i][0].as_str().unwrap()), tnr_of(case["dec"][i][1].as_str().unwrap())]).collect(),
        chg: (0..nn).map(|i| [case["chg"][i][0] == 1, case["chg"][i][1] == 1]).collect(),
        log: RefCell::new(vec![]),
    };
    let root = build::<T>(&case["kids"], 1, seed);
    let method = case["method"].as_str().unwrap();
    // (result tree, transformed, tnr)
    let (tree, tr, tnr): (Option<T::N>, bool, Option<TreeNodeRecursion>) = match method {
        "apply" => (None, false, Some(root.apply(|n| Ok(cb.call::<T>(0, n).1)).unwrap())),
        "visit" => (None, false, Some(root.visit(&mut Vis::<T>(&cb, Default::default())).unwrap())),
        "exists" => {
            let found = root.exists(|n| Ok(cb.call::<T>(0, n).0)).unwrap();
            (None, found, None)
        }
        _ => {
            let r = match method {
                "transform_down" => root.clone().transform_down(|n| cb.rw::<T>(0, n)),
                "transform_up" => root.clone().transform_up(|n| cb.rw::<T>(1, n)),
                "transform_down_up" => root.clone().transform_down_up(|n| cb.rw::<T>(0, n), |n| cb.rw::<T>(1, n)),
                "rewrite" => root.clone().rewrite(&mut Rw::<T>(&cb, Default::default())),
                "map_children" => root.clone().map_children(|n| cb.rw::<T>(0, n)),
                _ => return Some(format!("unknown method {method}")),
            }
            .unwrap();
            (Some(r.data), r.transformed, Some(r.tnr))
        }
    };
    let log = cb.log.borrow();
    let exp_log: Vec<(String, usize, String)> = case["log"]
        .as_array()
        .unwrap()
        .iter()
        .map(|e| (e[0].as_str().unwrap().to_string(), e[1].as_u64().unwrap() as usize, e[2].as_str().unwrap().to_string()))
        .collect();
    if *log != exp_log {
        return Some(format!("callback log (phase, node, marks seen) {:?}, model {:?}", *log, exp_log));
    }
    if tr != (case["tr"] == 1) {
        return Some(format!("transformed/found flag {tr}, model {}", case["tr"]));
    }
    if let Some(t) = tnr {
        if method != "exists" && tnr_s(t) != case["tnr"].as_str().unwrap() {
            return Some(format!("final TreeNodeRecursion {}, model {}", tnr_s(t), case["tnr"]));
        }
    }
    let set = |k: &str| -> BTreeSet<usize> { case[k].as_array().unwrap().iter().map(|x| x.as_u64().unwrap() as usize).collect() };
    let (dm, um) = (set("dm"), set("um"));
    let mut flat = vec![];
    flatten::<T>(tree.as_ref().unwrap_or(&root), &mut flat);
    let exp_flat: Vec<(usize, String)> = (1..=nn)
        .map(|i| (i, format!("{}{}", if dm.contains(&i) { "d" } else { "" }, if um.contains(&i) { "u" } else { "" })))
        .collect();
    if flat != exp_flat {
        return Some(format!("result tree (pre-order node, marks) {flat:?}, model {exp_flat:?}"));
    }
    None
}

pub fn main() {
    let seed = util::seed() as usize;
    let out = util::arg("--out").expect("--out");
    std::panic::set_hook(Box::new(|_| {}));
    let (cases, only): (Vec<Value>, Option<String>) = if let Some(r) = util::arg("--replay") {
        let v: Value = serde_json::from_str(&std::fs::read_to_string(&r).expect("replay file")).expect("replay json");
        (vec![v["case"].clone()], v["tree_type"].as_str().map(|s| s.to_string()))
    } else {
        (util::read_ndjson(&util::arg("--in").expect("--in")), None)
    };
    let mut violations: Vec<Value> = vec![];
    let mut nviol = 0u64;
    let mut evaluations = 0u64;
    let mut callbacks = 0u64;
    let mut per_type = std::collections::BTreeMap::<String, u64>::new();
    let mut nontrivial = std::collections::HashSet::new();
    for case in &cases {
        callbacks += case["log"].as_array().unwrap().len() as u64;
        if case["dec"].to_string().contains('J') || case["dec"].to_string().contains('S') || case["tr"] == 1 {
            nontrivial.insert(case.to_string());
        }
        let mut one = |name: &str, r: std::thread::Result<Option<String>>| {
            evaluations += 1;
            *per_type.entry(name.to_string()).or_default() += 1;
            let msg = match r {
                Ok(None) => return,
                Ok(Some(m)) => m,
                Err(_) => "panic during the traversal".to_string(),
            };
            nviol += 1;
            if violations.len() < 30 {
                violations.push(json!({"case": case, "tree_type": name, "seed_variant": seed, "oracle": msg}));
            }
        };
        let want = |n: &str| only.as_deref().map(|o| o == n).unwrap_or(true);
        if want(RExpr::NAME) { one(RExpr::NAME, catch_unwind(AssertUnwindSafe(|| run_case::<RExpr>(case, seed)))); }
        if want(RPlan::NAME) { one(RPlan::NAME, catch_unwind(AssertUnwindSafe(|| run_case::<RPlan>(case, seed)))); }
        if want(RPhys::NAME) { one(RPhys::NAME, catch_unwind(AssertUnwindSafe(|| run_case::<RPhys>(case, seed)))); }
    }
    let res = json!({"cases": cases.len(), "evaluations": evaluations, "callbacks_compared": callbacks * per_type.len() as u64, "per_tree_type": per_type,
        "distinct_nontrivial": nontrivial.len(), "violations_total": nviol, "violations": violations});
    std::fs::write(&out, serde_json::to_string(&res).unwrap()).unwrap();
    util::summary(json!({"evaluations": evaluations, "violations": nviol}));
}
