//! C42 — TreeNode traversal contract.  Replays the cases of spec/adt/TreeWalk.tla (tree shape x callback
//! decisions x change flags x method) on real trees: `Expr` (Column / Alias / ScalarFunction nodes),
//! `LogicalPlan` (EmptyRelation / SubqueryAlias / Extension / Union nodes) and `Arc<dyn PhysicalExpr>` (DynTreeNode).
//! Model node n is a real node labelled "n<id>"; a reported replacement rebuilds the node with the same children
//! and a mark appended to its label.  Compared: callback log (phase, node, marks seen), marks of the result
//! tree, the transformed flag, the final TreeNodeRecursion.

use arrow::datatypes::{DataType, Field, Schema};
use datafusion_common::tree_node::{Transformed, TreeNode, TreeNodeRecursion, TreeNodeRewriter, TreeNodeVisitor};
use datafusion_common::{DFSchema, DFSchemaRef, Result};
use datafusion_expr::expr::{Alias, ScalarFunction};
use datafusion_expr::logical_plan::{EmptyRelation, Extension, SubqueryAlias, UserDefinedLogicalNodeCore};
use datafusion_expr::{ColumnarValue, Expr, LogicalPlan, Volatility, create_udf};
use datafusion_physical_expr::EquivalenceProperties;
use datafusion_physical_expr_common::physical_expr::PhysicalExpr;
use datafusion_physical_expr_common::tree_node::ExprContext;
use datafusion_physical_plan::execution_plan::{Boundedness, EmissionType};
use datafusion_physical_plan::tree_node::PlanContext;
use datafusion_physical_plan::{ChildrenPropertiesMode, DisplayAs, DisplayFormatType, ExecutionPlan, Partitioning, PlanProperties, ReplaceChildrenOptions};
use serde_json::{Value, json};
use std::cell::RefCell;
use std::collections::BTreeSet;
use std::fmt;
use std::panic::{AssertUnwindSafe, catch_unwind};
use std::sync::Arc;
use vcommon::util;

/// label "n<id>" + marks ("d", "u")
fn lbl(id: usize, marks: &str) -> String {
    format!("n{id}x{marks}")
}
fn parse(label: &str) -> (usize, String) {
    let rest = &label[1..];
    let (a, b) = rest.split_once('x').unwrap_or((rest, ""));
    (a.parse().unwrap_or(0), b.to_string())
}

trait Rt {
    type N: TreeNode;
    const NAME: &'static str;
    fn make(label: &str, kids: Vec<Self::N>, variant: usize) -> Self::N;
    fn label(n: &Self::N) -> String;
    /// children through the harness' own accessor (not the TreeNode API)
    fn take_kids(n: Self::N) -> Vec<Self::N>;
    fn variant(n: &Self::N) -> usize;
    /// pre-order (id, marks) of the tree through the harness' own accessor
    fn flat(n: &Self::N, out: &mut Vec<(usize, String)>);
    /// extra structural self-consistency of a result tree (context nodes: payload in sync with children)
    fn consistent(_n: &Self::N) -> Option<String> {
        None
    }
    fn remark(n: Self::N, ph: &str) -> Self::N {
        let (id, m) = parse(&Self::label(&n));
        let v = Self::variant(&n);
        Self::make(&lbl(id, &(m + ph)), Self::take_kids(n), v)
    }
}

// ------------------------------------------------------------------ Expr
thread_local! {
    static UDFS: RefCell<std::collections::HashMap<String, Arc<datafusion_expr::ScalarUDF>>> = RefCell::new(Default::default());
}
/// one ScalarUDF per name (two separately created UDFs of the same name do not compare equal)
fn udf_named(label: &str) -> Arc<datafusion_expr::ScalarUDF> {
    UDFS.with(|m| {
        Arc::clone(m.borrow_mut().entry(label.to_string()).or_insert_with(|| {
            Arc::new(create_udf(label, vec![], DataType::Int32, Volatility::Immutable, Arc::new(|_| Ok(ColumnarValue::Scalar(datafusion_common::ScalarValue::Int32(None))))))
        }))
    })
}
struct RExpr;
impl Rt for RExpr {
    type N = Expr;
    const NAME: &'static str = "Expr";
    fn make(label: &str, kids: Vec<Expr>, variant: usize) -> Expr {
        if kids.is_empty() {
            Expr::Column(datafusion_common::Column::from_name(label))
        } else if kids.len() == 1 && variant % 2 == 0 {
            Expr::Alias(Alias::new(kids[0].clone(), None::<&str>, label))
        } else {
            Expr::ScalarFunction(ScalarFunction::new_udf(udf_named(label), kids))
        }
    }
    fn label(n: &Expr) -> String {
        match n {
            Expr::Column(c) => c.name.clone(),
            Expr::Alias(a) => a.name.clone(),
            Expr::ScalarFunction(f) => f.func.name().to_string(),
            _ => "n0x".into(),
        }
    }
    fn take_kids(n: Expr) -> Vec<Expr> {
        match n {
            Expr::Alias(a) => vec![*a.expr],
            Expr::ScalarFunction(f) => f.args,
            _ => vec![],
        }
    }
    fn flat(n: &Expr, out: &mut Vec<(usize, String)>) {
        out.push(parse(&Self::label(n)));
        match n {
            Expr::Alias(a) => Self::flat(&a.expr, out),
            Expr::ScalarFunction(f) => f.args.iter().for_each(|k| Self::flat(k, out)),
            _ => {}
        }
    }
    fn variant(n: &Expr) -> usize {
        matches!(n, Expr::ScalarFunction(_)) as usize
    }
}

// ------------------------------------------------------------------ LogicalPlan
#[derive(Debug, Clone, PartialEq, Eq, Hash)]
struct ExtNode {
    label: String,
    /// expressions of the node (they embed the subquery children of the *_with_subqueries walks)
    subs: Vec<Expr>,
    inputs: Vec<LogicalPlan>,
    schema: DFSchemaRef,
}
impl PartialOrd for ExtNode {
    fn partial_cmp(&self, other: &Self) -> Option<std::cmp::Ordering> {
        self.label.partial_cmp(&other.label)
    }
}
fn leaf_schema(label: &str) -> DFSchemaRef {
    Arc::new(DFSchema::try_from(Schema::new(vec![Field::new(label, DataType::Int32, true)])).unwrap())
}
impl UserDefinedLogicalNodeCore for ExtNode {
    fn name(&self) -> &str {
        "ExtNode"
    }
    fn inputs(&self) -> Vec<&LogicalPlan> {
        self.inputs.iter().collect()
    }
    fn schema(&self) -> &DFSchemaRef {
        &self.schema
    }
    fn expressions(&self) -> Vec<Expr> {
        self.subs.clone()
    }
    fn fmt_for_explain(&self, f: &mut fmt::Formatter) -> fmt::Result {
        write!(f, "ExtNode {}", self.label)
    }
    fn with_exprs_and_inputs(&self, exprs: Vec<Expr>, inputs: Vec<LogicalPlan>) -> Result<Self> {
        Ok(ExtNode { label: self.label.clone(), subs: exprs, inputs, schema: Arc::clone(&self.schema) })
    }
}
fn ext(label: &str, subs: Vec<Expr>, inputs: Vec<LogicalPlan>) -> LogicalPlan {
    LogicalPlan::Extension(Extension { node: Arc::new(ExtNode { label: label.to_string(), subs, inputs, schema: leaf_schema("x") }) })
}
struct RPlan;
impl Rt for RPlan {
    type N = LogicalPlan;
    const NAME: &'static str = "LogicalPlan";
    fn make(label: &str, kids: Vec<LogicalPlan>, variant: usize) -> LogicalPlan {
        if kids.is_empty() {
            LogicalPlan::EmptyRelation(EmptyRelation { produce_one_row: false, schema: leaf_schema(label) })
        } else if kids.len() == 1 && variant % 2 == 0 {
            LogicalPlan::SubqueryAlias(SubqueryAlias::try_new(Arc::new(kids[0].clone()), label).unwrap())
        } else {
            ext(label, vec![], kids)
        }
    }
    fn label(n: &LogicalPlan) -> String {
        match n {
            LogicalPlan::EmptyRelation(e) => e.schema.field(0).name().clone(),
            LogicalPlan::SubqueryAlias(a) => a.alias.table().to_string(),
            LogicalPlan::Extension(e) => e.node.as_any().downcast_ref::<ExtNode>().map(|x| x.label.clone()).unwrap_or("n0x".into()),
            _ => "n0x".into(),
        }
    }
    fn take_kids(n: LogicalPlan) -> Vec<LogicalPlan> {
        match &n {
            LogicalPlan::SubqueryAlias(a) => vec![(*a.input).clone()],
            LogicalPlan::Extension(e) => e.node.as_any().downcast_ref::<ExtNode>().map(|x| x.inputs.clone()).unwrap_or_default(),
            _ => vec![],
        }
    }
    fn flat(n: &LogicalPlan, out: &mut Vec<(usize, String)>) {
        out.push(parse(&Self::label(n)));
        for k in Self::take_kids(n.clone()) {
            Self::flat(&k, out);
        }
    }
    fn variant(n: &LogicalPlan) -> usize {
        matches!(n, LogicalPlan::Extension(_)) as usize
    }
}

// ------------------------------------------------------------------ Arc<dyn PhysicalExpr>
#[derive(Debug, Clone, PartialEq, Eq, Hash)]
struct PNode {
    label: String,
    kids: Vec<Arc<dyn PhysicalExpr>>,
}
impl fmt::Display for PNode {
    fn fmt(&self, f: &mut fmt::Formatter<'_>) -> fmt::Result {
        write!(f, "{}", self.label)
    }
}
impl PhysicalExpr for PNode {
    fn evaluate(&self, _batch: &arrow::record_batch::RecordBatch) -> Result<ColumnarValue> {
        datafusion_common::internal_err!("not evaluated")
    }
    fn children(&self) -> Vec<&Arc<dyn PhysicalExpr>> {
        self.kids.iter().collect()
    }
    fn with_new_children(self: Arc<Self>, children: Vec<Arc<dyn PhysicalExpr>>) -> Result<Arc<dyn PhysicalExpr>> {
        Ok(Arc::new(PNode { label: self.label.clone(), kids: children }))
    }
    fn fmt_sql(&self, f: &mut fmt::Formatter<'_>) -> fmt::Result {
        write!(f, "{}", self.label)
    }
}
struct RPhys;
impl Rt for RPhys {
    type N = Arc<dyn PhysicalExpr>;
    const NAME: &'static str = "Arc<dyn PhysicalExpr>";
    fn make(label: &str, kids: Vec<Self::N>, _variant: usize) -> Self::N {
        Arc::new(PNode { label: label.to_string(), kids })
    }
    fn label(n: &Self::N) -> String {
        n.downcast_ref::<PNode>().map(|p| p.label.clone()).unwrap_or("n0x".into())
    }
    fn take_kids(n: Self::N) -> Vec<Self::N> {
        n.downcast_ref::<PNode>().map(|p| p.kids.clone()).unwrap_or_default()
    }
    fn flat(n: &Self::N, out: &mut Vec<(usize, String)>) {
        out.push(parse(&Self::label(n)));
        for k in Self::take_kids(Arc::clone(n)) {
            Self::flat(&k, out);
        }
    }
    fn variant(_n: &Self::N) -> usize {
        0
    }
}

// ------------------------------------------------------------------ LogicalPlan with embedded subqueries
/// One-child model nodes are `LogicalPlan::Subquery` nodes (label = outer reference column); a parent embeds its
/// leading subquery children (`case.subs`) in its expressions (Exists / InSubquery / ScalarSubquery), the remaining
/// children are inputs.  Parents are Extension nodes, or a Filter when the shape is [subqueries.., one input].
struct RPlanSub;
thread_local! {
    static SUBS: RefCell<BTreeSet<usize>> = RefCell::new(BTreeSet::new());
}
const FILTER_V: usize = usize::MAX;
fn sub_expr(i: usize, sq: &LogicalPlan) -> Expr {
    let LogicalPlan::Subquery(sq) = sq else { panic!("subquery child is not a Subquery node") };
    match i % 3 {
        0 => Expr::Exists(datafusion_expr::expr::Exists { subquery: sq.clone(), negated: false }),
        1 => Expr::InSubquery(datafusion_expr::expr::InSubquery::new(Box::new(datafusion_expr::lit(1)), sq.clone(), true)),
        _ => Expr::ScalarSubquery(sq.clone()),
    }
}
/// subquery plans of an expression in pre-order, by the harness' own recursion
fn subqueries_of(e: &Expr, out: &mut Vec<LogicalPlan>) {
    match e {
        Expr::BinaryExpr(b) => {
            subqueries_of(&b.left, out);
            subqueries_of(&b.right, out);
        }
        Expr::Exists(x) => out.push(LogicalPlan::Subquery(x.subquery.clone())),
        Expr::InSubquery(x) => out.push(LogicalPlan::Subquery(x.subquery.clone())),
        Expr::ScalarSubquery(x) => out.push(LogicalPlan::Subquery(x.clone())),
        _ => {}
    }
}
fn first_column(e: &Expr) -> Option<String> {
    match e {
        Expr::Column(c) => Some(c.name.clone()),
        Expr::BinaryExpr(b) => first_column(&b.left).or_else(|| first_column(&b.right)),
        _ => None,
    }
}
impl Rt for RPlanSub {
    type N = LogicalPlan;
    const NAME: &'static str = "LogicalPlan+subqueries";
    fn make(label: &str, kids: Vec<LogicalPlan>, variant: usize) -> LogicalPlan {
        let (id, _) = parse(label);
        if kids.is_empty() {
            return LogicalPlan::EmptyRelation(EmptyRelation { produce_one_row: false, schema: leaf_schema(label) });
        }
        if kids.len() == 1 && SUBS.with(|s| s.borrow().contains(&id)) {
            return LogicalPlan::Subquery(datafusion_expr::logical_plan::Subquery {
                subquery: Arc::new(kids.into_iter().next().unwrap()),
                outer_ref_columns: vec![Expr::Column(datafusion_common::Column::from_name(label))],
                spans: Default::default(),
            });
        }
        // number of leading children that are embedded subqueries: those listed in the case
        let j = kids.iter().take_while(|k| matches!(k, LogicalPlan::Subquery(_)) && SUBS.with(|s| s.borrow().contains(&parse(&Self::label(k)).0))).count();
        let subs: Vec<Expr> = kids[..j].iter().enumerate().map(|(i, k)| sub_expr(i + variant % 3, k)).collect();
        let inputs: Vec<LogicalPlan> = kids[j..].to_vec();
        if variant == FILTER_V || (inputs.len() == 1 && j >= 1 && variant % 2 == 0) {
            let mut pred = Expr::Column(datafusion_common::Column::from_name(label));
            for e in subs {
                pred = datafusion_expr::and(pred, e);
            }
            LogicalPlan::Filter(datafusion_expr::logical_plan::Filter::new(pred, Arc::new(inputs.into_iter().next().unwrap())))
        } else {
            ext(label, subs, inputs)
        }
    }
    fn label(n: &LogicalPlan) -> String {
        match n {
            LogicalPlan::Subquery(s) => first_column(&s.outer_ref_columns[0]).unwrap_or("n0x".into()),
            LogicalPlan::Filter(f) => first_column(&f.predicate).unwrap_or("n0x".into()),
            _ => RPlan::label(n),
        }
    }
    fn take_kids(n: LogicalPlan) -> Vec<LogicalPlan> {
        match &n {
            LogicalPlan::Subquery(s) => vec![(*s.subquery).clone()],
            LogicalPlan::Filter(f) => {
                let mut v = vec![];
                subqueries_of(&f.predicate, &mut v);
                v.push((*f.input).clone());
                v
            }
            LogicalPlan::Extension(e) => {
                let x = e.node.as_any().downcast_ref::<ExtNode>().unwrap();
                let mut v = vec![];
                x.subs.iter().for_each(|e| subqueries_of(e, &mut v));
                v.extend(x.inputs.iter().cloned());
                v
            }
            _ => vec![],
        }
    }
    fn variant(n: &LogicalPlan) -> usize {
        match n {
            LogicalPlan::Filter(_) => FILTER_V,
            // keep the expression kinds stable: Extension nodes are rebuilt with the kind offset 0 and the
            // comparison only looks at labels
            LogicalPlan::Subquery(_) => 1,
            _ => 1,
        }
    }
    fn flat(n: &LogicalPlan, out: &mut Vec<(usize, String)>) {
        out.push(parse(&Self::label(n)));
        for k in Self::take_kids(n.clone()) {
            Self::flat(&k, out);
        }
    }
}

fn walk_subq(root: LogicalPlan, method: &str, cb: &Cb) -> std::result::Result<Walked<LogicalPlan>, String> {
    type T = RPlanSub;
    let e = |e: datafusion_common::DataFusionError| format!("traversal returned an error: {e}");
    Ok(match method {
        "apply" => {
            let t = root.apply_with_subqueries(|n| Ok(cb.call::<T>(0, n).1)).map_err(e)?;
            (root, false, Some(t))
        }
        "visit" => {
            let t = root.visit_with_subqueries(&mut Vis::<T>(cb, Default::default())).map_err(e)?;
            (root, false, Some(t))
        }
        _ => {
            let r = match method {
                "transform_down" => root.transform_down_with_subqueries(|n| cb.rw::<T>(0, n)),
                "transform_up" => root.transform_up_with_subqueries(|n| cb.rw::<T>(1, n)),
                "transform_down_up" => root.transform_down_up_with_subqueries(|n| cb.rw::<T>(0, n), |n| cb.rw::<T>(1, n)),
                "rewrite" => root.rewrite_with_subqueries(&mut Rw::<T>(cb, Default::default())),
                _ => return Err(format!("no subquery form of {method}")),
            }
            .map_err(e)?;
            (r.data, r.transformed, Some(r.tnr))
        }
    })
}

fn run_case_subq(case: &Value, seed: usize) -> Option<String> {
    let subs: BTreeSet<usize> = case["subs"].as_array().map(|a| a.iter().map(|x| x.as_u64().unwrap() as usize).collect()).unwrap_or_default();
    SUBS.with(|s| *s.borrow_mut() = subs);
    let cb = mk_cb(case);
    let root = build::<RPlanSub>(&case["kids"], 1, seed);
    let (tree, tr, tnr) = match walk_subq(root, case["method"].as_str().unwrap(), &cb) {
        Ok(x) => x,
        Err(e) => return Some(e),
    };
    let mut flat = vec![];
    RPlanSub::flat(&tree, &mut flat);
    verdict(case, &cb, tr, tnr, Some(flat))
}

// ------------------------------------------------------------------ Arc<dyn ExecutionPlan>
#[derive(Debug)]
struct XNode {
    label: String,
    kids: Vec<Arc<dyn ExecutionPlan>>,
    cache: Arc<PlanProperties>,
}
impl XNode {
    fn new(label: &str, kids: Vec<Arc<dyn ExecutionPlan>>) -> Self {
        let schema = Arc::new(Schema::empty());
        let cache = Arc::new(PlanProperties::new(
            EquivalenceProperties::new(schema),
            Partitioning::UnknownPartitioning(1),
            EmissionType::Incremental,
            Boundedness::Bounded,
        ));
        XNode { label: label.to_string(), kids, cache }
    }
}
impl DisplayAs for XNode {
    fn fmt_as(&self, _t: DisplayFormatType, f: &mut fmt::Formatter) -> fmt::Result {
        write!(f, "XNode {}", self.label)
    }
}
impl ExecutionPlan for XNode {
    fn name(&self) -> &'static str {
        "XNode"
    }
    fn properties(&self) -> &Arc<PlanProperties> {
        &self.cache
    }
    fn children(&self) -> Vec<&Arc<dyn ExecutionPlan>> {
        self.kids.iter().collect()
    }
    fn apply_expressions(&self, _f: &mut dyn FnMut(&Arc<dyn PhysicalExpr>) -> Result<TreeNodeRecursion>) -> Result<TreeNodeRecursion> {
        Ok(TreeNodeRecursion::Continue)
    }
    fn replace_children(self: Arc<Self>, children: Vec<Arc<dyn ExecutionPlan>>, _: ReplaceChildrenOptions) -> Result<Arc<dyn ExecutionPlan>> {
        Ok(Arc::new(XNode::new(&self.label, children)))
    }
    fn with_new_children(self: Arc<Self>, children: Vec<Arc<dyn ExecutionPlan>>) -> Result<Arc<dyn ExecutionPlan>> {
        self.replace_children(children, ReplaceChildrenOptions::new(ChildrenPropertiesMode::Recompute))
    }
    fn execute(&self, _partition: usize, _context: Arc<datafusion_execution::TaskContext>) -> Result<datafusion_execution::SendableRecordBatchStream> {
        datafusion_common::internal_err!("not executed")
    }
}
struct RExec;
impl Rt for RExec {
    type N = Arc<dyn ExecutionPlan>;
    const NAME: &'static str = "Arc<dyn ExecutionPlan>";
    fn make(label: &str, kids: Vec<Self::N>, _variant: usize) -> Self::N {
        Arc::new(XNode::new(label, kids))
    }
    fn label(n: &Self::N) -> String {
        n.downcast_ref::<XNode>().map(|p| p.label.clone()).unwrap_or("n0x".into())
    }
    fn take_kids(n: Self::N) -> Vec<Self::N> {
        n.downcast_ref::<XNode>().map(|p| p.kids.clone()).unwrap_or_default()
    }
    fn variant(_n: &Self::N) -> usize {
        0
    }
    fn flat(n: &Self::N, out: &mut Vec<(usize, String)>) {
        out.push(parse(&Self::label(n)));
        for k in Self::take_kids(Arc::clone(n)) {
            Self::flat(&k, out);
        }
    }
}

// ------------------------------------------------------------------ ConcreteTreeNode: ExprContext / PlanContext
struct RExprCtx;
impl Rt for RExprCtx {
    type N = ExprContext<String>;
    const NAME: &'static str = "ExprContext<String>";
    fn make(label: &str, kids: Vec<Self::N>, _variant: usize) -> Self::N {
        let expr: Arc<dyn PhysicalExpr> = Arc::new(PNode { label: label.to_string(), kids: kids.iter().map(|k| Arc::clone(&k.expr)).collect() });
        ExprContext::new(expr, label.to_string(), kids)
    }
    fn label(n: &Self::N) -> String {
        n.data.clone()
    }
    fn take_kids(n: Self::N) -> Vec<Self::N> {
        n.children
    }
    fn variant(_n: &Self::N) -> usize {
        0
    }
    fn flat(n: &Self::N, out: &mut Vec<(usize, String)>) {
        out.push(parse(&n.data));
        n.children.iter().for_each(|k| Self::flat(k, out));
    }
    /// payload expression in sync with the child contexts (with_new_children -> update_expr_from_children)
    fn consistent(n: &Self::N) -> Option<String> {
        let ek = n.expr.children();
        if RPhys::label(&n.expr) != n.data {
            return Some(format!("ExprContext {}: expr label {} differs from the payload", n.data, RPhys::label(&n.expr)));
        }
        if ek.len() != n.children.len() || !ek.iter().zip(n.children.iter()).all(|(a, b)| Arc::ptr_eq(a, &b.expr)) {
            return Some(format!("ExprContext {}: expr.children() out of sync with the child contexts", n.data));
        }
        n.children.iter().find_map(Self::consistent)
    }
}
struct RPlanCtx;
impl Rt for RPlanCtx {
    type N = PlanContext<String>;
    const NAME: &'static str = "PlanContext<String>";
    fn make(label: &str, kids: Vec<Self::N>, _variant: usize) -> Self::N {
        let plan: Arc<dyn ExecutionPlan> = Arc::new(XNode::new(label, kids.iter().map(|k| Arc::clone(&k.plan)).collect()));
        PlanContext::new(plan, label.to_string(), kids)
    }
    fn label(n: &Self::N) -> String {
        n.data.clone()
    }
    fn take_kids(n: Self::N) -> Vec<Self::N> {
        n.children
    }
    fn variant(_n: &Self::N) -> usize {
        0
    }
    fn flat(n: &Self::N, out: &mut Vec<(usize, String)>) {
        out.push(parse(&n.data));
        n.children.iter().for_each(|k| Self::flat(k, out));
    }
    fn consistent(n: &Self::N) -> Option<String> {
        let ek = n.plan.children();
        if RExec::label(&n.plan) != n.data {
            return Some(format!("PlanContext {}: plan label {} differs from the payload", n.data, RExec::label(&n.plan)));
        }
        if ek.len() != n.children.len() || !ek.iter().zip(n.children.iter()).all(|(a, b)| Arc::ptr_eq(a, &b.plan)) {
            return Some(format!("PlanContext {}: plan.children() out of sync with the child contexts", n.data));
        }
        n.children.iter().find_map(Self::consistent)
    }
}

// ------------------------------------------------------------------ variant sweeps (STAR cases)
// A STAR case (root + k leaves) is mapped onto every real node variant with k children, the leaves taking the
// child slots in the documented field order.  The root is "the node that is not a leaf"; expected result =
// the same variant rebuilt with the marked leaves (checks slot order and that every other attribute survives).
struct RExprVar;
impl Rt for RExprVar {
    type N = Expr;
    const NAME: &'static str = "Expr variants";
    fn make(label: &str, _kids: Vec<Expr>, _variant: usize) -> Expr {
        Expr::Column(datafusion_common::Column::from_name(label))
    }
    fn label(n: &Expr) -> String {
        match n {
            Expr::Column(c) => c.name.clone(),
            _ => lbl(1, ""),
        }
    }
    fn take_kids(_n: Expr) -> Vec<Expr> {
        vec![]
    }
    fn variant(_n: &Expr) -> usize {
        0
    }
    fn flat(_n: &Expr, _out: &mut Vec<(usize, String)>) {}
}
struct RPlanVar;
impl Rt for RPlanVar {
    type N = LogicalPlan;
    const NAME: &'static str = "LogicalPlan variants (inputs)";
    fn make(label: &str, _kids: Vec<LogicalPlan>, _variant: usize) -> LogicalPlan {
        LogicalPlan::EmptyRelation(EmptyRelation { produce_one_row: false, schema: leaf_schema(label) })
    }
    fn label(n: &LogicalPlan) -> String {
        match n {
            LogicalPlan::EmptyRelation(e) => e.schema.field(0).name().clone(),
            _ => lbl(1, ""),
        }
    }
    fn take_kids(_n: LogicalPlan) -> Vec<LogicalPlan> {
        vec![]
    }
    fn variant(_n: &LogicalPlan) -> usize {
        0
    }
    fn flat(_n: &LogicalPlan, _out: &mut Vec<(usize, String)>) {}
}

fn bx(e: &Expr) -> Box<Expr> {
    Box::new(e.clone())
}
fn a_subquery() -> datafusion_expr::logical_plan::Subquery {
    datafusion_expr::logical_plan::Subquery {
        subquery: Arc::new(LogicalPlan::EmptyRelation(EmptyRelation { produce_one_row: true, schema: leaf_schema("sq") })),
        outer_ref_columns: vec![],
        spans: Default::default(),
    }
}
fn sort_of(e: &Expr, asc: bool) -> datafusion_expr::expr::Sort {
    datafusion_expr::expr::Sort { expr: e.clone(), asc, nulls_first: !asc }
}

const EXPR_VARIANTS: &[&str] = &[
    "Alias", "Unnest", "Not", "IsNotNull", "IsTrue", "IsFalse", "IsUnknown", "IsNotTrue", "IsNotFalse", "IsNotUnknown", "IsNull", "Negative",
    "Cast", "TryCast", "InSubquery", "SetComparison", "Lambda", "ScalarFunction", "Rollup", "Cube", "GroupingSets", "BinaryExpr", "Like",
    "SimilarTo", "InList", "Between", "Case(expr,when,then..)", "Case(when,then..,else)", "Case(expr,..,else)", "AggregateFunction",
    "WindowFunction",
];

/// Expr variant `name` over the leaves `l` (children in documented field order); None if the arity does not fit
fn expr_variant(name: &str, l: &[Expr]) -> Option<Expr> {
    use datafusion_expr::expr::*;
    let k = l.len();
    let one = |f: fn(Box<Expr>) -> Expr| if k == 1 { Some(f(bx(&l[0]))) } else { None };
    let whens = |xs: &[Expr]| -> Vec<(Box<Expr>, Box<Expr>)> { xs.chunks(2).map(|c| (bx(&c[0]), bx(&c[1]))).collect() };
    Some(match name {
        "Alias" if k == 1 => Expr::Alias(Alias::new(l[0].clone(), Some("t"), "al")),
        "Unnest" if k == 1 => Expr::Unnest(Unnest { expr: bx(&l[0]), outer: true }),
        "Not" => return one(Expr::Not),
        "IsNotNull" => return one(Expr::IsNotNull),
        "IsTrue" => return one(Expr::IsTrue),
        "IsFalse" => return one(Expr::IsFalse),
        "IsUnknown" => return one(Expr::IsUnknown),
        "IsNotTrue" => return one(Expr::IsNotTrue),
        "IsNotFalse" => return one(Expr::IsNotFalse),
        "IsNotUnknown" => return one(Expr::IsNotUnknown),
        "IsNull" => return one(Expr::IsNull),
        "Negative" => return one(Expr::Negative),
        "Cast" if k == 1 => Expr::Cast(Cast::new(bx(&l[0]), DataType::Int64)),
        "TryCast" if k == 1 => Expr::TryCast(TryCast::new(bx(&l[0]), DataType::Utf8)),
        "InSubquery" if k == 1 => Expr::InSubquery(InSubquery::new(bx(&l[0]), a_subquery(), true)),
        "SetComparison" if k == 1 => Expr::SetComparison(SetComparison {
            expr: bx(&l[0]), subquery: a_subquery(), op: datafusion_expr::Operator::Gt, quantifier: SetQuantifier::All,
        }),
        "Lambda" if k == 1 => Expr::Lambda(Lambda { params: vec!["p".into()], body: bx(&l[0]) }),
        "ScalarFunction" if k >= 1 => RExpr::make("fn_sweep", l.to_vec(), 1),
        "Rollup" if k >= 1 => Expr::GroupingSet(GroupingSet::Rollup(l.to_vec())),
        "Cube" if k >= 1 => Expr::GroupingSet(GroupingSet::Cube(l.to_vec())),
        "GroupingSets" if k >= 2 => Expr::GroupingSet(GroupingSet::GroupingSets(vec![l[..1].to_vec(), l[1..].to_vec()])),
        "BinaryExpr" if k == 2 => Expr::BinaryExpr(BinaryExpr::new(bx(&l[0]), datafusion_expr::Operator::Minus, bx(&l[1]))),
        "Like" if k == 2 => Expr::Like(Like::new(true, bx(&l[0]), bx(&l[1]), Some('#'), true)),
        "SimilarTo" if k == 2 => Expr::SimilarTo(Like::new(false, bx(&l[0]), bx(&l[1]), None, false)),
        "InList" if k >= 2 => Expr::InList(InList::new(bx(&l[0]), l[1..].to_vec(), true)),
        "Between" if k == 3 => Expr::Between(Between::new(bx(&l[0]), true, bx(&l[1]), bx(&l[2]))),
        "Case(expr,when,then..)" if k >= 3 && k % 2 == 1 => Expr::Case(Case::new(Some(bx(&l[0])), whens(&l[1..]), None)),
        "Case(when,then..,else)" if k >= 3 && k % 2 == 1 => Expr::Case(Case::new(None, whens(&l[..k - 1]), Some(bx(&l[k - 1])))),
        "Case(expr,..,else)" if k >= 4 && k % 2 == 0 => Expr::Case(Case::new(Some(bx(&l[0])), whens(&l[1..k - 1]), Some(bx(&l[k - 1])))),
        "AggregateFunction" if k >= 1 => {
            // args, filter, order_by
            let (args, filter, order): (Vec<Expr>, Option<Box<Expr>>, Vec<Sort>) = match k {
                1 => (l.to_vec(), None, vec![]),
                2 => (l[..1].to_vec(), Some(bx(&l[1])), vec![]),
                3 => (l[..1].to_vec(), Some(bx(&l[1])), vec![sort_of(&l[2], false)]),
                _ => (l[..2].to_vec(), Some(bx(&l[2])), l[3..].iter().map(|e| sort_of(e, true)).collect()),
            };
            Expr::AggregateFunction(AggregateFunction::new_udf(datafusion::functions_aggregate::count::count_udaf(), args, true, filter, order, None))
        }
        "WindowFunction" if k >= 2 => {
            // args, partition_by, order_by, filter
            let (args, part, order, filter): (Vec<Expr>, Vec<Expr>, Vec<Sort>, Option<Box<Expr>>) = match k {
                2 => (l[..1].to_vec(), l[1..].to_vec(), vec![], None),
                3 => (l[..1].to_vec(), l[1..2].to_vec(), vec![sort_of(&l[2], false)], None),
                4 => (l[..1].to_vec(), l[1..2].to_vec(), vec![sort_of(&l[2], true)], Some(bx(&l[3]))),
                _ => (l[..2].to_vec(), l[2..3].to_vec(), l[3..k - 1].iter().map(|e| sort_of(e, true)).collect(), Some(bx(&l[k - 1]))),
            };
            let mut w = WindowFunction::new(datafusion_expr::WindowFunctionDefinition::AggregateUDF(datafusion::functions_aggregate::count::count_udaf()), args);
            w.params.partition_by = part;
            w.params.order_by = order;
            w.params.filter = filter;
            w.params.distinct = true;
            Expr::from(w)
        }
        _ => return None,
    })
}

const PLAN_INPUT_VARIANTS: &[&str] = &[
    "Filter", "Sort", "Limit", "Repartition", "Distinct::All", "Distinct::On", "Window", "SubqueryAlias", "Subquery", "Analyze", "Projection",
    "Aggregate", "Extension", "Join", "RecursiveQuery", "Union",
];
fn c(name: &str) -> Expr {
    Expr::Column(datafusion_common::Column::from_name(name))
}
fn plan_input_variant(name: &str, l: &[LogicalPlan]) -> Option<LogicalPlan> {
    use datafusion_expr::logical_plan::*;
    let k = l.len();
    let a = |i: usize| Arc::new(l[i].clone());
    // node schemas are not recomputed by map_children: keep them independent of the (re-labelled) inputs
    let sch = |_i: usize| wide_schema(1);
    Some(match name {
        "Filter" if k == 1 => LogicalPlan::Filter(Filter::new(c("p"), a(0))),
        "Sort" if k == 1 => LogicalPlan::Sort(Sort { expr: vec![sort_of(&c("s"), false)], input: a(0), fetch: Some(7) }),
        "Limit" if k == 1 => LogicalPlan::Limit(Limit { skip: Some(Box::new(datafusion_expr::lit(3i64))), fetch: Some(Box::new(datafusion_expr::lit(5i64))), input: a(0) }),
        "Repartition" if k == 1 => LogicalPlan::Repartition(Repartition { input: a(0), partitioning_scheme: Partitioning::Hash(vec![c("h")], 3) }),
        "Distinct::All" if k == 1 => LogicalPlan::Distinct(Distinct::All(a(0))),
        "Distinct::On" if k == 1 => LogicalPlan::Distinct(Distinct::On(DistinctOn {
            on_expr: vec![c("o")], select_expr: vec![c("s")], sort_expr: Some(vec![sort_of(&c("o"), true)]), input: a(0), schema: sch(0),
        })),
        "Window" if k == 1 => LogicalPlan::Window(Window { input: a(0), window_expr: vec![c("w")], schema: sch(0) }),
        "SubqueryAlias" if k == 1 => {
            // the schema is derived at construction and not recomputed by map_children: derive it from a fixed plan
            let mut sa = SubqueryAlias::try_new(Arc::new(RPlanVar::make("fixed", vec![], 0)), "al").ok()?;
            sa.input = a(0);
            LogicalPlan::SubqueryAlias(sa)
        }
        "Subquery" if k == 1 => LogicalPlan::Subquery(Subquery { subquery: a(0), outer_ref_columns: vec![c("outer")], spans: Default::default() }),
        "Analyze" if k == 1 => LogicalPlan::Analyze(Analyze { verbose: true, format: ExplainFormat::Indent, input: a(0), schema: sch(0), analyze_level: None, analyze_categories: None }),
        "Projection" if k == 1 => LogicalPlan::Projection(Projection::try_new_with_schema(vec![c("pr")], a(0), sch(0)).ok()?),
        "Aggregate" if k == 1 => LogicalPlan::Aggregate(Aggregate::try_new_with_schema(a(0), vec![c("g")], vec![], sch(0)).ok()?),
        "Extension" if k >= 1 => ext("ext_sweep", vec![c("e")], l.to_vec()),
        "Join" if k == 2 => LogicalPlan::Join(Join {
            left: a(0), right: a(1), on: vec![(c("l"), c("r"))], filter: Some(c("f")), join_type: datafusion_common::JoinType::LeftSemi,
            join_constraint: datafusion_common::JoinConstraint::Using, schema: sch(0), null_equality: datafusion_common::NullEquality::NullEqualsNull, null_aware: false,
        }),
        "RecursiveQuery" if k == 2 => LogicalPlan::RecursiveQuery(RecursiveQuery { name: "rq".into(), static_term: a(0), recursive_term: a(1), is_distinct: true, schema: sch(0) }),
        "Union" if k >= 2 => LogicalPlan::Union(Union { inputs: (0..k).map(a).collect(), schema: sch(0) }),
        _ => return None,
    })
}

const PLAN_EXPR_VARIANTS: &[&str] = &[
    "Projection", "Values", "Filter", "Repartition::Hash", "Repartition::DistributeBy", "Window", "Aggregate", "Join(on..)", "Join(on..,filter)", "Sort",
    "Extension", "Distinct::On", "Limit(skip)", "Limit(fetch)", "Limit(skip,fetch)",
];
fn wide_schema(n: usize) -> DFSchemaRef {
    Arc::new(DFSchema::try_from(Schema::new((0..n).map(|i| Field::new(format!("c{i}"), DataType::Int32, true)).collect::<Vec<_>>())).unwrap())
}
/// plan variant `name` whose expressions (in apply_expressions order) are exactly the leaves `l`
fn plan_expr_variant(name: &str, l: &[Expr]) -> Option<LogicalPlan> {
    use datafusion_expr::logical_plan::*;
    let k = l.len();
    let input = Arc::new(LogicalPlan::EmptyRelation(EmptyRelation { produce_one_row: false, schema: leaf_schema("in") }));
    let other = Arc::new(LogicalPlan::EmptyRelation(EmptyRelation { produce_one_row: false, schema: leaf_schema("in2") }));
    Some(match name {
        "Projection" if k >= 1 => LogicalPlan::Projection(Projection::try_new_with_schema(l.to_vec(), input, wide_schema(k)).ok()?),
        "Values" if k >= 2 && k % 2 == 0 => LogicalPlan::Values(Values { schema: wide_schema(2), values: l.chunks(2).map(|r| r.to_vec()).collect() }),
        "Filter" if k == 1 => LogicalPlan::Filter(Filter::new(l[0].clone(), input)),
        "Repartition::Hash" if k >= 1 => LogicalPlan::Repartition(Repartition { input, partitioning_scheme: Partitioning::Hash(l.to_vec(), 4) }),
        "Repartition::DistributeBy" if k >= 1 => LogicalPlan::Repartition(Repartition { input, partitioning_scheme: Partitioning::DistributeBy(l.to_vec()) }),
        "Window" if k >= 1 => LogicalPlan::Window(Window { input, window_expr: l.to_vec(), schema: wide_schema(k) }),
        "Aggregate" if k >= 2 => LogicalPlan::Aggregate(Aggregate::try_new_with_schema(input, l[..k / 2].to_vec(), l[k / 2..].to_vec(), wide_schema(k)).ok()?),
        "Join(on..)" | "Join(on..,filter)" => {
            let with_filter = name.ends_with("filter)");
            if (with_filter && (k < 3 || k % 2 == 0)) || (!with_filter && (k < 2 || k % 2 == 1)) {
                return None;
            }
            let npairs = k / 2;
            LogicalPlan::Join(Join {
                left: input, right: other, on: (0..npairs).map(|i| (l[2 * i].clone(), l[2 * i + 1].clone())).collect(),
                filter: if with_filter { Some(l[k - 1].clone()) } else { None }, join_type: datafusion_common::JoinType::Full,
                join_constraint: datafusion_common::JoinConstraint::On, schema: wide_schema(2), null_equality: datafusion_common::NullEquality::NullEqualsNothing, null_aware: false,
            })
        }
        "Sort" if k >= 1 => LogicalPlan::Sort(Sort { expr: l.iter().enumerate().map(|(i, e)| sort_of(e, i % 2 == 0)).collect(), input, fetch: Some(2) }),
        "Extension" if k >= 1 => ext("ext_sweep", l.to_vec(), vec![(*input).clone()]),
        "Distinct::On" if k >= 3 => LogicalPlan::Distinct(Distinct::On(DistinctOn {
            on_expr: l[..1].to_vec(), select_expr: l[1..k - 1].to_vec(), sort_expr: Some(vec![sort_of(&l[k - 1], false)]), input, schema: wide_schema(k - 2),
        })),
        "Limit(skip)" if k == 1 => LogicalPlan::Limit(Limit { skip: Some(bx(&l[0])), fetch: None, input }),
        "Limit(fetch)" if k == 1 => LogicalPlan::Limit(Limit { skip: None, fetch: Some(bx(&l[0])), input }),
        "Limit(skip,fetch)" if k == 2 => LogicalPlan::Limit(Limit { skip: Some(bx(&l[0])), fetch: Some(bx(&l[1])), input }),
        _ => return None,
    })
}

/// variants whose child containers end with an empty slot for this arity (known finding: a Jump answered for
/// the last child is then not passed on)
fn trailing_empty(name: &str, k: usize) -> bool {
    match name {
        "AggregateFunction" => k <= 2,
        "WindowFunction" => k <= 3,
        "Case(expr,when,then..)" => true,
        "Join(on..)" | "Limit(skip)" => true,
        _ => false,
    }
}
const KNOWN_JUMP: &str = "Jump answered for the last child is dropped when the node's child containers end with an empty slot";

fn marked_labels(case: &Value, k: usize) -> Vec<String> {
    expected_flat(case, k + 1).into_iter().skip(1).map(|(id, m)| lbl(id, &m)).collect()
}

/// prefix the failure message with the known-finding key when the failure is the documented one
fn tag_known(case: &Value, name: &str, k: usize, r: Option<String>) -> Option<String> {
    let r = r?;
    let last_jumps = case["dec"][k].to_string().contains('J');
    let kind_ok = r.starts_with("callback log") || r.starts_with("final TreeNodeRecursion");
    if trailing_empty(name, k) && last_jumps && kind_ok { Some(format!("[{KNOWN_JUMP}] {r}")) } else { Some(r) }
}

/// STAR case on every variant of the three sweeps; returns (variant name, failure) list and the number of runs
fn run_star(case: &Value, out: &mut Vec<(String, Option<String>)>) {
    let k = case["size"].as_array().unwrap().len() - 1;
    let method = case["method"].as_str().unwrap();
    let plain: Vec<String> = (2..=k + 1).map(|i| lbl(i, "")).collect();
    let marked = marked_labels(case, k);
    let rewriting = matches!(method, "transform_down" | "transform_up" | "transform_down_up" | "rewrite" | "map_children");
    // 1. Expr variants
    for name in EXPR_VARIANTS {
        let leaves: Vec<Expr> = plain.iter().map(|s| c(s)).collect();
        let Some(root) = expr_variant(name, &leaves) else { continue };
        let cb = mk_cb(case);
        let r = catch_unwind(AssertUnwindSafe(|| match walk::<RExprVar>(root, method, &cb) {
            Err(e) => Some(e),
            Ok((tree, tr, tnr)) => verdict(case, &cb, tr, tnr, None).or_else(|| {
                let exp = expr_variant(name, &(if rewriting { &marked } else { &plain }).iter().map(|s| c(s)).collect::<Vec<_>>()).unwrap();
                if tree != exp { Some(format!("result node {tree:?} differs from the expected {exp:?}")) } else { None }
            }),
        }));
        let r = r.unwrap_or_else(|_| Some("panic during the traversal".into()));
        out.push((format!("Expr::{name}/{k}"), tag_known(case, name, k, r)));
    }
    // 2. LogicalPlan variants: inputs
    let leaf_plan = |s: &String| RPlanVar::make(s, vec![], 0);
    for name in PLAN_INPUT_VARIANTS {
        let leaves: Vec<LogicalPlan> = plain.iter().map(leaf_plan).collect();
        let Some(root) = plan_input_variant(name, &leaves) else { continue };
        let cb = mk_cb(case);
        let r = catch_unwind(AssertUnwindSafe(|| match walk::<RPlanVar>(root, method, &cb) {
            Err(e) => Some(e),
            Ok((tree, tr, tnr)) => verdict(case, &cb, tr, tnr, None).or_else(|| {
                let exp = plan_input_variant(name, &(if rewriting { &marked } else { &plain }).iter().map(leaf_plan).collect::<Vec<_>>()).unwrap();
                if tree != exp { Some(format!("result plan {tree:?} differs from the expected {exp:?}")) } else { None }
            }),
        }));
        out.push((format!("LogicalPlan::{name}/{k} inputs"), r.unwrap_or_else(|_| Some("panic during the traversal".into()))));
    }
    // 3. LogicalPlan variants: expressions (apply_expressions = apply_children, map_expressions = map_children)
    if matches!(method, "apply_children" | "map_children") {
        for name in PLAN_EXPR_VARIANTS {
            let leaves: Vec<Expr> = plain.iter().map(|s| c(s)).collect();
            let Some(root) = plan_expr_variant(name, &leaves) else { continue };
            let cb = mk_cb(case);
            let r = catch_unwind(AssertUnwindSafe(|| {
                let (tree, tr, tnr) = if method == "apply_children" {
                    match root.apply_expressions(|e| Ok(cb.call::<RExprVar>(0, e).1)) {
                        Ok(t) => (root, false, t),
                        Err(e) => return Some(format!("apply_expressions returned an error: {e}")),
                    }
                } else {
                    match root.map_expressions(|e| cb.rw::<RExprVar>(0, e)) {
                        Ok(t) => (t.data, t.transformed, t.tnr),
                        Err(e) => return Some(format!("map_expressions returned an error: {e}")),
                    }
                };
                verdict(case, &cb, tr, Some(tnr), None).or_else(|| {
                    let exp = plan_expr_variant(name, &(if rewriting { &marked } else { &plain }).iter().map(|s| c(s)).collect::<Vec<_>>()).unwrap();
                    if tree != exp { Some(format!("result plan {tree:?} differs from the expected {exp:?}")) } else { None }
                })
            }));
            let r = r.unwrap_or_else(|_| Some("panic during the traversal".into()));
            out.push((format!("LogicalPlan::{name}/{k} expressions"), tag_known(case, name, k, r)));
        }
    }
}

// ------------------------------------------------------------------ driver
struct Cb {
    dec: Vec<[TreeNodeRecursion; 2]>,
    chg: Vec<[bool; 2]>,
    log: RefCell<Vec<(String, usize, String)>>,
}
fn tnr_of(s: &str) -> TreeNodeRecursion {
    match s {
        "C" => TreeNodeRecursion::Continue,
        "J" => TreeNodeRecursion::Jump,
        _ => TreeNodeRecursion::Stop,
    }
}
fn tnr_s(t: TreeNodeRecursion) -> &'static str {
    match t {
        TreeNodeRecursion::Continue => "C",
        TreeNodeRecursion::Jump => "J",
        TreeNodeRecursion::Stop => "S",
    }
}
impl Cb {
    /// record the call; returns (changed?, decision)
    fn call<T: Rt>(&self, ph: usize, n: &T::N) -> (bool, TreeNodeRecursion) {
        let (id, marks) = parse(&T::label(n));
        self.log.borrow_mut().push(((if ph == 0 { "d" } else { "u" }).to_string(), id, marks));
        if id == 0 || id > self.dec.len() {
            return (false, TreeNodeRecursion::Stop);
        }
        (self.chg[id - 1][ph], self.dec[id - 1][ph])
    }
    fn rw<T: Rt>(&self, ph: usize, n: T::N) -> Result<Transformed<T::N>> {
        let (chg, dec) = self.call::<T>(ph, &n);
        let n2 = if chg { T::remark(n, if ph == 0 { "d" } else { "u" }) } else { n };
        Ok(Transformed::new(n2, chg, dec))
    }
}

struct Vis<'a, T: Rt>(&'a Cb, std::marker::PhantomData<T>);
impl<'a, 'n, T: Rt> TreeNodeVisitor<'n> for Vis<'a, T>
where
    T::N: 'n,
{
    type Node = T::N;
    fn f_down(&mut self, node: &'n T::N) -> Result<TreeNodeRecursion> {
        Ok(self.0.call::<T>(0, node).1)
    }
    fn f_up(&mut self, node: &'n T::N) -> Result<TreeNodeRecursion> {
        Ok(self.0.call::<T>(1, node).1)
    }
}
struct Rw<'a, T: Rt>(&'a Cb, std::marker::PhantomData<T>);
impl<'a, T: Rt> TreeNodeRewriter for Rw<'a, T> {
    type Node = T::N;
    fn f_down(&mut self, node: T::N) -> Result<Transformed<T::N>> {
        self.0.rw::<T>(0, node)
    }
    fn f_up(&mut self, node: T::N) -> Result<Transformed<T::N>> {
        self.0.rw::<T>(1, node)
    }
}

fn build<T: Rt>(kids: &Value, n: usize, seed: usize) -> T::N {
    let ks: Vec<T::N> = kids[n - 1].as_array().unwrap().iter().map(|k| build::<T>(kids, k.as_u64().unwrap() as usize, seed)).collect();
    T::make(&lbl(n, ""), ks, n + seed)
}

fn mk_cb(case: &Value) -> Cb {
    let nn = case["size"].as_array().unwrap().len();
    Cb {
        dec: (0..nn).map(|i| [tnr_of(case["dec"][i][0].as_str().unwrap()), tnr_of(case["dec"][i][1].as_str().unwrap())]).collect(),
        chg: (0..nn).map(|i| [case["chg"][i][0] == 1, case["chg"][i][1] == 1]).collect(),
        log: RefCell::new(vec![]),
    }
}

type Walked<N> = (N, bool, Option<TreeNodeRecursion>);

/// run one TreeNode method; returns the resulting (or untouched) tree, the flag and the final recursion state
fn walk<T: Rt>(root: T::N, method: &str, cb: &Cb) -> std::result::Result<Walked<T::N>, String> {
    let e = |e: datafusion_common::DataFusionError| format!("traversal returned an error: {e}");
    Ok(match method {
        "apply" => {
            let t = root.apply(|n| Ok(cb.call::<T>(0, n).1)).map_err(e)?;
            (root, false, Some(t))
        }
        "apply_children" => {
            let t = root.apply_children(|n| Ok(cb.call::<T>(0, n).1)).map_err(e)?;
            (root, false, Some(t))
        }
        "visit" => {
            let t = root.visit(&mut Vis::<T>(cb, Default::default())).map_err(e)?;
            (root, false, Some(t))
        }
        "exists" => {
            let found = root.exists(|n| Ok(cb.call::<T>(0, n).0)).map_err(e)?;
            (root, found, None)
        }
        _ => {
            let r = match method {
                "transform_down" => root.transform_down(|n| cb.rw::<T>(0, n)),
                "transform_up" => root.transform_up(|n| cb.rw::<T>(1, n)),
                "transform_down_up" => root.transform_down_up(|n| cb.rw::<T>(0, n), |n| cb.rw::<T>(1, n)),
                "rewrite" => root.rewrite(&mut Rw::<T>(cb, Default::default())),
                "map_children" => root.map_children(|n| cb.rw::<T>(0, n)),
                _ => return Err(format!("unknown method {method}")),
            }
            .map_err(e)?;
            (r.data, r.transformed, Some(r.tnr))
        }
    })
}

/// compare log, flag, final recursion state and (optionally) the flattened result tree with the model
fn verdict(case: &Value, cb: &Cb, tr: bool, tnr: Option<TreeNodeRecursion>, flat: Option<Vec<(usize, String)>>) -> Option<String> {
    let nn = case["size"].as_array().unwrap().len();
    let method = case["method"].as_str().unwrap();
    let log = cb.log.borrow();
    let exp_log: Vec<(String, usize, String)> = case["log"]
        .as_array()
        .unwrap()
        .iter()
        .map(|e| (e[0].as_str().unwrap().to_string(), e[1].as_u64().unwrap() as usize, e[2].as_str().unwrap().to_string()))
        .collect();
    if *log != exp_log {
        return Some(format!("callback log (phase, node, marks seen) {:?}, model {:?}", *log, exp_log));
    }
    if tr != (case["tr"] == 1) {
        return Some(format!("transformed/found flag {tr}, model {}", case["tr"]));
    }
    if let Some(t) = tnr {
        if method != "exists" && tnr_s(t) != case["tnr"].as_str().unwrap() {
            return Some(format!("final TreeNodeRecursion {}, model {}", tnr_s(t), case["tnr"]));
        }
    }
    if let Some(flat) = flat {
        let exp_flat = expected_flat(case, nn);
        if flat != exp_flat {
            return Some(format!("result tree (pre-order node, marks) {flat:?}, model {exp_flat:?}"));
        }
    }
    None
}

fn expected_flat(case: &Value, nn: usize) -> Vec<(usize, String)> {
    let set = |k: &str| -> BTreeSet<usize> { case[k].as_array().unwrap().iter().map(|x| x.as_u64().unwrap() as usize).collect() };
    let (dm, um) = (set("dm"), set("um"));
    (1..=nn).map(|i| (i, format!("{}{}", if dm.contains(&i) { "d" } else { "" }, if um.contains(&i) { "u" } else { "" }))).collect()
}

fn run_case<T: Rt>(case: &Value, seed: usize) -> Option<String> {
    let cb = mk_cb(case);
    let root = build::<T>(&case["kids"], 1, seed);
    let (tree, tr, tnr) = match walk::<T>(root, case["method"].as_str().unwrap(), &cb) {
        Ok(x) => x,
        Err(e) => return Some(e),
    };
    let mut flat = vec![];
    T::flat(&tree, &mut flat);
    verdict(case, &cb, tr, tnr, Some(flat)).or_else(|| T::consistent(&tree))
}

pub fn main() {
    let seed = util::seed() as usize;
    let out = util::arg("--out").expect("--out");
    std::panic::set_hook(Box::new(|_| {}));
    let (cases, only): (Vec<Value>, Option<String>) = if let Some(r) = util::arg("--replay") {
        let v: Value = serde_json::from_str(&std::fs::read_to_string(&r).expect("replay file")).expect("replay json");
        (vec![v["case"].clone()], v["tree_type"].as_str().map(|s| s.to_string()))
    } else {
        (util::read_ndjson(&util::arg("--in").expect("--in")), None)
    };
    let mut violations: Vec<Value> = vec![];
    let mut nviol = 0u64;
    let mut evaluations = 0u64;
    let mut callbacks = 0u64;
    let mut per_type = std::collections::BTreeMap::<String, u64>::new();
    let mut nontrivial = std::collections::HashSet::new();
    for case in &cases {
        callbacks += case["log"].as_array().unwrap().len() as u64;
        if case["dec"].to_string().contains('J') || case["dec"].to_string().contains('S') || case["tr"] == 1 {
            nontrivial.insert(case.to_string());
        }
        let mut one = |name: &str, r: std::thread::Result<Option<String>>| {
            evaluations += 1;
            *per_type.entry(name.to_string()).or_default() += 1;
            let msg = match r {
                Ok(None) => return,
                Ok(Some(m)) => m,
                Err(_) => "panic during the traversal".to_string(),
            };
            nviol += 1;
            if violations.len() < 400 {
                let known = if msg.starts_with(&format!("[{KNOWN_JUMP}]")) { Value::from(KNOWN_JUMP) } else { Value::Null };
                violations.push(json!({"case": case, "tree_type": name, "seed_variant": seed, "oracle": msg, "known_key": known}));
            }
        };
        let want = |n: &str| only.as_deref().map(|o| o == n).unwrap_or(true);
        match case["mode"].as_str().unwrap_or("tree") {
            "star" => {
                let mut outv = vec![];
                run_star(case, &mut outv);
                for (name, r) in outv {
                    if want(&name) {
                        one(&name, Ok(r));
                    }
                }
            }
            "subq" => {
                if want(RPlanSub::NAME) { one(RPlanSub::NAME, catch_unwind(AssertUnwindSafe(|| run_case_subq(case, seed)))); }
            }
            _ => {
                if want(RExpr::NAME) { one(RExpr::NAME, catch_unwind(AssertUnwindSafe(|| run_case::<RExpr>(case, seed)))); }
                if want(RPlan::NAME) { one(RPlan::NAME, catch_unwind(AssertUnwindSafe(|| run_case::<RPlan>(case, seed)))); }
                if want(RPhys::NAME) { one(RPhys::NAME, catch_unwind(AssertUnwindSafe(|| run_case::<RPhys>(case, seed)))); }
                if want(RExec::NAME) { one(RExec::NAME, catch_unwind(AssertUnwindSafe(|| run_case::<RExec>(case, seed)))); }
                if want(RExprCtx::NAME) { one(RExprCtx::NAME, catch_unwind(AssertUnwindSafe(|| run_case::<RExprCtx>(case, seed)))); }
                if want(RPlanCtx::NAME) { one(RPlanCtx::NAME, catch_unwind(AssertUnwindSafe(|| run_case::<RPlanCtx>(case, seed)))); }
            }
        }
    }
    let expected_variants: Vec<(String, &str)> = EXPR_VARIANTS.iter().map(|v| (format!("Expr::{v}"), ""))
        .chain(PLAN_INPUT_VARIANTS.iter().map(|v| (format!("LogicalPlan::{v}"), " inputs")))
        .chain(PLAN_EXPR_VARIANTS.iter().map(|v| (format!("LogicalPlan::{v}"), " expressions")))
        .collect();
    let res = json!({"cases": cases.len(), "evaluations": evaluations, "expected_variants": expected_variants, "callbacks_in_cases": callbacks, "per_tree_type": per_type,
        "distinct_nontrivial": nontrivial.len(), "violations_total": nviol, "violations": violations});
    std::fs::write(&out, serde_json::to_string(&res).unwrap()).unwrap();
    util::summary(json!({"evaluations": evaluations, "violations": nviol}));
}
