//! C14 — join hash table lookups.  Replays the cases printed by spec/adt/JoinHashMap.tla (one case
//! = insertion history + expected result of every query in the reached state) on the real
//! `JoinHashMapU32` / `JoinHashMapU64` through the public `JoinHashMapType` trait.
//!
//! Oracle (property level -> violation): len/is_empty, contain_hashes, get_matched_indices (forward
//! and reversed probe iteration, deleted offset), and for the paged lookup: the concatenation of the
//! pages for EVERY page size 1..n+1 and for seeded varying page sizes equals the model's Lookup,
//! every page holds at most `limit` pairs, the page sequence terminates.
//! Conformance (implementation grain -> drift only): page boundaries and returned offsets equal the
//! model's Page() for the page sizes TLC printed.

use arrow::array::Array;
use arrow::buffer::NullBuffer;
use datafusion_physical_plan::joins::join_hash_map::{JoinHashMapType, JoinHashMapU32, JoinHashMapU64};
use rand::rngs::StdRng;
use rand::{Rng, SeedableRng};
use serde_json::{Value, json};
use std::panic::{AssertUnwindSafe, catch_unwind};
use vcommon::util;

type Off = (usize, Option<u64>);

/// hash palettes: model hash h (1-based) -> real u64.  Collision-prone for hashbrown (same low bits /
/// same top-7-bit tag / extremes).
const PALETTES: [[u64; 5]; 5] = [
    [10, 20, 30, 40, 50],
    [0, u64::MAX, 1 << 63, 1, (1 << 63) - 1],
    [0x0100_0000_0000_0000, 0x0100_0000_0000_0001, 0x0100_0000_0000_0002, 0x0100_0000_0000_0003, 0x0100_0000_0000_0004],
    [8, 16, 24, 32, 40],
    [0xdead_beef_0000_0000, 0xdead_beef_0000_0100, 0xdead_beef_0001_0000, 0x0000_0000_dead_beef, 0xdead_beef_dead_beef],
];

fn pairs_of(v: &Value) -> Vec<(u32, u64)> {
    v.as_array()
        .map(|a| a.iter().map(|p| (p[0].as_u64().unwrap() as u32, p[1].as_u64().unwrap())).collect())
        .unwrap_or_default()
}

fn zip(a: &[u32], b: &[u64]) -> Vec<(u32, u64)> {
    a.iter().cloned().zip(b.iter().cloned()).collect()
}

fn build(width: u32, case: &Value, pal: &[u64; 5]) -> Box<dyn JoinHashMapType> {
    let cap = case["cap"].as_u64().unwrap() as usize;
    let d = case["d"].as_u64().unwrap() as usize;
    let mut m: Box<dyn JoinHashMapType> =
        if width == 32 { Box::new(JoinHashMapU32::with_capacity(cap)) } else { Box::new(JoinHashMapU64::with_capacity(cap)) };
    for batch in case["hist"].as_array().unwrap() {
        let items: Vec<(usize, u64)> = batch
            .as_array()
            .map(|a| a.iter().map(|it| (it[0].as_u64().unwrap() as usize, pal[it[1].as_u64().unwrap() as usize - 1])).collect())
            .unwrap_or_default();
        let n = items.len();
        m.extend_zero(n);
        m.update_from_iter(Box::new(items.iter().map(|(r, h)| (*r, h))), d);
    }
    m
}

struct Ctx {
    violations: Vec<Value>,
    drift: u64,
    drift_samples: Vec<Value>,
    evaluations: u64,
    pages: u64,
    page_sizes: std::collections::BTreeSet<usize>,
    nontrivial: std::collections::HashSet<String>,
    fastpath: u64,
    resume_mid_chain: u64,
    rng: StdRng,
}

/// Run the paged lookup to completion with the page sizes produced by `limit_at(page_no)`.
fn paged(
    m: &dyn JoinHashMapType,
    hashes: &[u64],
    valid: Option<&NullBuffer>,
    mut limit_at: impl FnMut(usize) -> usize,
    max_pages: usize,
) -> Result<Vec<(usize, Vec<(u32, u64)>, Option<Off>)>, String> {
    let mut res = vec![];
    let mut off: Off = (0, None);
    // stale buffer content must be cleared by the callee
    let mut a: Vec<u32> = vec![77, 78];
    let mut b: Vec<u64> = vec![99, 98];
    for k in 0.. {
        if k >= max_pages {
            return Err(format!("paged lookup did not finish within {max_pages} pages"));
        }
        let limit = limit_at(k);
        let r = m.get_matched_indices_with_limit_offset(hashes, valid, limit, off, &mut a, &mut b);
        if a.len() != b.len() {
            return Err(format!("page {k}: index vectors of different length {} vs {}", a.len(), b.len()));
        }
        res.push((limit, zip(&a, &b), r));
        match r {
            None => break,
            Some(o) => off = o,
        }
    }
    Ok(res)
}

fn run_case(cx: &mut Ctx, idx: usize, case: &Value, seed: u64) {
    let d = case["d"].as_u64().unwrap() as usize;
    let cap = case["cap"].as_u64().unwrap() as usize;
    let pal_i = ((seed as usize) + idx) % PALETTES.len();
    let pal = &PALETTES[pal_i];
    for width in [32u32, 64u32] {
        let fail = |cx: &mut Ctx, what: String, detail: Value| {
            cx.violations.push(json!({"case": case, "width": width, "palette": pal_i, "oracle": what, "observed": detail}));
        };
        let m = match catch_unwind(AssertUnwindSafe(|| build(width, case, pal))) {
            Ok(m) => m,
            Err(_) => {
                fail(cx, "update_from_iter panicked on a legal insertion history".into(), json!(null));
                continue;
            }
        };
        cx.evaluations += 1;
        let exp_len = case["len"].as_u64().unwrap() as usize;
        if m.len() != exp_len || m.is_empty() != (exp_len == 0) {
            fail(cx, format!("len()/is_empty(): expected {exp_len}"), json!({"len": m.len(), "is_empty": m.is_empty()}));
        }
        for pc in case["probes"].as_array().unwrap() {
            let p: Vec<(usize, bool)> =
                pc["p"].as_array().unwrap().iter().map(|x| (x[0].as_u64().unwrap() as usize, x[1].as_u64().unwrap() == 1)).collect();
            let hashes: Vec<u64> = p.iter().map(|(h, _)| pal[h - 1]).collect();
            let validv: Vec<bool> = p.iter().map(|(_, v)| *v).collect();
            let all_valid = validv.iter().all(|v| *v);
            let fwd = pairs_of(&pc["fwd"]);
            let rev = pairs_of(&pc["rev"]);
            if !fwd.is_empty() {
                cx.nontrivial.insert(format!("{}|{}|{}", case["hist"], d, pc["p"]));
            }
            // --- contain_hashes
            cx.evaluations += 1;
            match catch_unwind(AssertUnwindSafe(|| m.contain_hashes(&hashes))) {
                Ok(arr) => {
                    let got: Vec<u64> = (0..arr.len()).map(|i| (arr.is_valid(i) && arr.value(i)) as u64).collect();
                    let exp: Vec<u64> = pc["contains"].as_array().unwrap().iter().map(|x| x.as_u64().unwrap()).collect();
                    if got != exp {
                        fail(cx, "contain_hashes differs from Contains".into(), json!({"probe": pc["p"], "got": got, "expected": exp}));
                    }
                }
                Err(_) => fail(cx, "contain_hashes panicked".into(), json!({"probe": pc["p"]})),
            }
            // --- get_matched_indices, forward and reversed iteration (NULL-key rows filtered by the caller)
            let mut offs: Vec<Option<usize>> = vec![Some(d)];
            if d == 0 {
                offs.push(None);
            }
            for doff in offs {
                for (reversed, exp) in [(false, &fwd), (true, &rev)] {
                    cx.evaluations += 1;
                    let r = catch_unwind(AssertUnwindSafe(|| {
                        let it = hashes.iter().enumerate().filter(|(i, _)| validv[*i]);
                        if reversed { m.get_matched_indices(Box::new(it.rev()), doff) } else { m.get_matched_indices(Box::new(it), doff) }
                    }));
                    match r {
                        Ok((a, b)) => {
                            if a.len() != b.len() || &zip(&a, &b) != exp {
                                fail(
                                    cx,
                                    format!("get_matched_indices(reversed={reversed}, deleted_offset={doff:?}) differs from Lookup"),
                                    json!({"probe": pc["p"], "got_probe_idx": a, "got_build_idx": b, "expected_pairs": exp}),
                                );
                            }
                        }
                        Err(_) => fail(cx, format!("get_matched_indices(reversed={reversed}, deleted_offset={doff:?}) panicked"), json!({"probe": pc["p"]})),
                    }
                }
            }
            if d != 0 {
                continue;
            }
            // --- paged lookup
            let nb = NullBuffer::from(validv.clone());
            let max_pages = hashes.len() * (cap + 1) + 4;
            let maxl = fwd.len().max(hashes.len()) + 2;
            // (a) every uniform page size, (b) seeded varying page sizes
            let mut plans: Vec<(String, Vec<usize>)> = (1..=maxl).map(|l| (format!("uniform limit {l}"), vec![l])).collect();
            plans.push(("uniform limit 8192".into(), vec![8192]));
            for _ in 0..2 {
                let v: Vec<usize> = (0..6).map(|_| cx.rng.random_range(1..=maxl)).collect();
                plans.push((format!("varying limits {v:?}"), v));
            }
            for (name, lims) in plans {
                for use_none in if all_valid { vec![true, false] } else { vec![false] } {
                    cx.evaluations += 1;
                    let valid = if use_none { None } else { Some(&nb) };
                    let r = catch_unwind(AssertUnwindSafe(|| paged(&*m, &hashes, valid, |k| lims[k % lims.len()], max_pages)));
                    let pages = match r {
                        Ok(Ok(p)) => p,
                        Ok(Err(e)) => {
                            fail(cx, format!("paged lookup ({name}): {e}"), json!({"probe": pc["p"]}));
                            continue;
                        }
                        Err(_) => {
                            fail(cx, format!("paged lookup ({name}) panicked"), json!({"probe": pc["p"]}));
                            continue;
                        }
                    };
                    cx.pages += pages.len() as u64;
                    let mut cat = vec![];
                    let mut over = None;
                    for (k, (limit, prs, ret)) in pages.iter().enumerate() {
                        cx.page_sizes.insert(*limit);
                        if prs.len() > *limit {
                            over = Some((k, *limit, prs.len()));
                        }
                        if let Some((_, Some(nx))) = ret {
                            if *nx > 0 {
                                cx.resume_mid_chain += 1;
                            }
                        }
                        cat.extend(prs.iter().cloned());
                    }
                    if cat != fwd {
                        fail(
                            cx,
                            format!("concatenation of pages ({name}, valid_keys={}) differs from Lookup", if use_none { "None" } else { "Some" }),
                            json!({"probe": pc["p"], "pages": pages.iter().map(|(l, p, r)| json!({"limit": l, "pairs": p, "ret": format!("{r:?}")})).collect::<Vec<_>>(), "expected_pairs": fwd}),
                        );
                    } else if let Some((k, l, n)) = over {
                        fail(cx, format!("page {k} holds {n} pairs > limit {l} ({name})"), json!({"probe": pc["p"]}));
                    }
                }
            }
            // (c) implementation-grain conformance with the model's Page(): boundaries and offsets
            if case["unique"].as_u64() == Some(1) {
                cx.fastpath += 1;
            }
            for pl in pc["pages"].as_array().unwrap() {
                let limit = pl["limit"].as_u64().unwrap() as usize;
                let r = catch_unwind(AssertUnwindSafe(|| paged(&*m, &hashes, Some(&nb), |_| limit, max_pages)));
                if let Ok(Ok(pages)) = r {
                    let exp = pl["pgs"].as_array().unwrap();
                    let same = pages.len() == exp.len()
                        && pages.iter().zip(exp.iter()).all(|((_, prs, ret), e)| {
                            let eret = (e["ret"][0].as_i64().unwrap(), e["ret"][1].as_i64().unwrap());
                            let gret = match ret {
                                None => (-1, -1),
                                Some((i, None)) => (*i as i64, -1),
                                Some((i, Some(n))) => (*i as i64, *n as i64),
                            };
                            prs == &pairs_of(&e["pairs"]) && eret == gret
                        });
                    if !same {
                        cx.drift += 1;
                        if cx.drift_samples.len() < 3 {
                            cx.drift_samples.push(json!({"case_hist": case["hist"], "probe": pc["p"], "limit": limit,
                                "got": pages.iter().map(|(_, p, r)| json!({"pairs": p, "ret": format!("{r:?}")})).collect::<Vec<_>>(), "model": exp}));
                        }
                    }
                }
            }
        }
    }
}

pub fn main() {
    let seed = util::seed();
    let out = util::arg("--out").expect("--out");
    let cases: Vec<Value> = if let Some(r) = util::arg("--replay") {
        let v: Value = serde_json::from_str(&std::fs::read_to_string(&r).expect("replay file")).expect("replay json");
        vec![v["case"].clone()]
    } else {
        util::read_ndjson(&util::arg("--in").expect("--in"))
    };
    // silence panic messages of caught panics
    std::panic::set_hook(Box::new(|_| {}));
    let mut cx = Ctx {
        violations: vec![], drift: 0, drift_samples: vec![], evaluations: 0, pages: 0,
        page_sizes: Default::default(), nontrivial: Default::default(), fastpath: 0, resume_mid_chain: 0,
        rng: StdRng::seed_from_u64(seed),
    };
    let replay_pal = util::arg("--palette").and_then(|s| s.parse::<usize>().ok());
    for (i, c) in cases.iter().enumerate() {
        match replay_pal {
            // choose idx so that (seed + idx) % n == palette
            Some(p) => {
                let n = PALETTES.len();
                let idx = (p + n - (seed as usize % n)) % n;
                run_case(&mut cx, idx, c, seed)
            }
            None => run_case(&mut cx, i, c, seed),
        }
    }
    // keep at most 20 violations in the result (all are counted)
    let nviol = cx.violations.len();
    cx.violations.truncate(20);
    let res = json!({
        "cases": cases.len(), "evaluations": cx.evaluations, "pages": cx.pages,
        "page_sizes_used": cx.page_sizes.len(), "distinct_nontrivial": cx.nontrivial.len(),
        "fastpath_probe_cases": cx.fastpath, "resume_mid_chain": cx.resume_mid_chain,
        "drift_page_boundaries": cx.drift, "drift_samples": cx.drift_samples,
        "violations_total": nviol, "violations": cx.violations,
        "samples": cases.iter().take(2).collect::<Vec<_>>(),
    });
    std::fs::write(&out, serde_json::to_string(&res).unwrap()).unwrap();
    util::summary(json!({"cases": cases.len(), "evaluations": cx.evaluations, "violations": nviol, "drift": cx.drift}));
}
