//! C14 operator-level layer: the build/probe tables of a JoinHashMap.tla case are joined by the real
//! HashJoinExec (through SQL over MemTables) with small batch sizes, so that the paged lookup
//! (limit = batch_size, resume offsets) runs inside the operator; integer keys in a dense range select the
//! ArrayMap ("perfect hash join") path, string keys and sparse integer keys the JoinHashMapU32 path.
//! Oracle: the bag of (build row, probe row) pairs equals the model's Lookup (as a bag).

use arrow::array::{ArrayRef, Int32Array, Int64Array, StringArray};
use arrow::datatypes::{DataType, Field, Schema};
use arrow::record_batch::RecordBatch;
use datafusion::datasource::MemTable;
use datafusion::prelude::{SessionConfig, SessionContext};
use serde_json::{Value, json};
use std::collections::BTreeMap;
use std::sync::Arc;
use vcommon::util;

#[derive(Clone, Copy, Debug)]
enum Key {
    DenseI32,  // ArrayMap
    DenseI64,  // ArrayMap
    SparseI64, // regular hash map
    Utf8,      // regular hash map
}

fn key_array(kind: Key, ks: &[Option<usize>]) -> (DataType, ArrayRef) {
    match kind {
        Key::DenseI32 => (DataType::Int32, Arc::new(Int32Array::from(ks.iter().map(|k| k.map(|v| v as i32 - 2)).collect::<Vec<_>>()))),
        Key::DenseI64 => (DataType::Int64, Arc::new(Int64Array::from(ks.iter().map(|k| k.map(|v| v as i64 + 7)).collect::<Vec<_>>()))),
        Key::SparseI64 => (DataType::Int64, Arc::new(Int64Array::from(ks.iter().map(|k| k.map(|v| v as i64 * 1_000_000_007)).collect::<Vec<_>>()))),
        Key::Utf8 => (DataType::Utf8, Arc::new(StringArray::from(ks.iter().map(|k| k.map(|v| format!("key{v}"))).collect::<Vec<_>>()))),
    }
}

fn table(kind: Key, keys: &[Option<usize>], split: &[usize]) -> Result<MemTable, String> {
    let (dt, _) = key_array(kind, &[]);
    let schema = Arc::new(Schema::new(vec![Field::new("id", DataType::Int32, false), Field::new("k", dt, true)]));
    let mut batches = vec![];
    let mut start = 0;
    let mut cuts: Vec<usize> = split.to_vec();
    cuts.push(keys.len());
    for end in cuts {
        if end <= start || end > keys.len() {
            continue;
        }
        let ids: ArrayRef = Arc::new(Int32Array::from((start..end).map(|i| i as i32).collect::<Vec<_>>()));
        let (_, ka) = key_array(kind, &keys[start..end]);
        batches.push(RecordBatch::try_new(Arc::clone(&schema), vec![ids, ka]).map_err(|e| e.to_string())?);
        start = end;
    }
    if batches.is_empty() {
        batches.push(RecordBatch::new_empty(Arc::clone(&schema)));
    }
    MemTable::try_new(schema, vec![batches]).map_err(|e| e.to_string())
}

fn array_maps(plan: &Arc<dyn datafusion::physical_plan::ExecutionPlan>) -> usize {
    let own = plan.metrics().and_then(|m| m.sum_by_name("array_map_created_count")).map(|v| v.as_usize()).unwrap_or(0);
    own + plan.children().into_iter().map(array_maps).sum::<usize>()
}

async fn run(kind: Key, batch_size: usize, build: &[Option<usize>], split: &[usize], probe: &[Option<usize>]) -> Result<(Vec<(i32, i32)>, String, usize), String> {
    let cfg = SessionConfig::new().with_target_partitions(1).with_batch_size(batch_size);
    let ctx = SessionContext::new_with_config(cfg);
    ctx.register_table("b", Arc::new(table(kind, build, split)?)).map_err(|e| e.to_string())?;
    ctx.register_table("p", Arc::new(table(kind, probe, &[])?)).map_err(|e| e.to_string())?;
    let df = ctx.sql("SELECT b.id, p.id FROM b JOIN p ON b.k = p.k").await.map_err(|e| e.to_string())?;
    let plan = df.create_physical_plan().await.map_err(|e| e.to_string())?;
    let shown = datafusion::physical_plan::displayable(plan.as_ref()).indent(false).to_string();
    let batches = datafusion::physical_plan::collect(Arc::clone(&plan), ctx.task_ctx()).await.map_err(|e| e.to_string())?;
    let n_array_maps = array_maps(&plan);
    let mut out = vec![];
    for b in batches {
        let x = b.column(0).as_any().downcast_ref::<Int32Array>().unwrap();
        let y = b.column(1).as_any().downcast_ref::<Int32Array>().unwrap();
        for i in 0..b.num_rows() {
            out.push((x.value(i), y.value(i)));
        }
    }
    out.sort();
    Ok((out, shown, n_array_maps))
}

pub fn main() {
    let out = util::arg("--out").expect("--out");
    let cases: Vec<Value> = if let Some(r) = util::arg("--replay") {
        let v: Value = serde_json::from_str(&std::fs::read_to_string(&r).expect("replay file")).expect("replay json");
        vec![v["case"].clone()]
    } else {
        util::read_ndjson(&util::arg("--in").expect("--in"))
    };
    let rt = tokio::runtime::Builder::new_current_thread().enable_all().build().unwrap();
    let mut violations: Vec<Value> = vec![];
    let mut tool_errors: Vec<String> = vec![];
    let mut evaluations = 0u64;
    let mut per_cfg: BTreeMap<String, u64> = BTreeMap::new();
    let mut hash_join_plans = 0u64;
    let mut array_map_runs: BTreeMap<String, u64> = BTreeMap::new();
    let mut nontrivial = 0u64;
    for (ci, case) in cases.iter().enumerate() {
        if case["d"].as_u64() != Some(0) {
            continue;
        }
        // build table: row r has the key it was inserted with; rows never inserted have a NULL key
        let mut keys: BTreeMap<usize, usize> = BTreeMap::new();
        let mut split = vec![];
        let mut top = 0usize;
        for batch in case["hist"].as_array().unwrap() {
            for it in batch.as_array().unwrap() {
                keys.insert(it[0].as_u64().unwrap() as usize, it[1].as_u64().unwrap() as usize);
                top = top.max(it[0].as_u64().unwrap() as usize + 1);
            }
            split.push(top);
        }
        let build: Vec<Option<usize>> = (0..top).map(|r| keys.get(&r).cloned()).collect();
        for (pi, pc) in case["probes"].as_array().unwrap().iter().enumerate() {
            let probe: Vec<Option<usize>> = pc["p"].as_array().unwrap().iter().map(|x| if x[1] == 1 { Some(x[0].as_u64().unwrap() as usize) } else { None }).collect();
            let mut exp: Vec<(i32, i32)> = pc["fwd"].as_array().unwrap().iter().map(|p| (p[1].as_u64().unwrap() as i32, p[0].as_u64().unwrap() as i32)).collect();
            exp.sort();
            if exp.len() >= 2 {
                nontrivial += 1;
            }
            // one key kind and batch size per (case, probe), rotating
            let kind = [Key::DenseI32, Key::Utf8, Key::DenseI64, Key::SparseI64][(ci + pi) % 4];
            let bs = [1usize, 2, 3, 8192][(ci / 4 + pi) % 4];
            evaluations += 1;
            *per_cfg.entry(format!("{kind:?}/batch_size={bs}")).or_default() += 1;
            match rt.block_on(run(kind, bs, &build, &split, &probe)) {
                Ok((got, shown, nam)) => {
                    if nam > 0 {
                        *array_map_runs.entry(format!("{kind:?}")).or_default() += 1;
                    }
                    if shown.contains("HashJoinExec") {
                        hash_join_plans += 1;
                    }
                    if got != exp {
                        violations.push(json!({"case": case, "probe": pc["p"], "key_kind": format!("{kind:?}"), "batch_size": bs,
                            "oracle": format!("join returned (build id, probe id) pairs {got:?}, model {exp:?}"), "plan": shown}));
                    }
                }
                Err(e) => {
                    if tool_errors.len() < 5 {
                        tool_errors.push(e)
                    }
                }
            }
        }
    }
    let nviol = violations.len();
    violations.truncate(20);
    let res = json!({"evaluations": evaluations, "per_config": per_cfg, "hash_join_plans": hash_join_plans, "runs_that_built_an_array_map": array_map_runs, "distinct_nontrivial": nontrivial,
        "violations_total": nviol, "violations": violations, "tool_errors": tool_errors});
    std::fs::write(&out, serde_json::to_string(&res).unwrap()).unwrap();
    util::summary(json!({"evaluations": evaluations, "violations": nviol}));
}
