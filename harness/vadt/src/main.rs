//! Sequential ADT drivers (B3 behaviour replay) — DESIGN.md §7.3.
mod c13;
mod c14;
mod c14e;
mod c40;
mod c40e;
mod c42;

fn main() {
    let a: Vec<String> = std::env::args().collect();
    let cmd = a.get(1).map(|s| s.as_str()).unwrap_or("");
    match cmd {
        "c14" => c14::main(),
        "c14e2e" => c14e::main(),
        "c40" => c40::main(),
        "c40e2e" => c40e::main(),
        "c42" => c42::main(),
        "c13" => c13::main(),
        _ => {
            eprintln!("usage: vadt <c14|c13|c40|c42> [options]");
            std::process::exit(2);
        }
    }
}
