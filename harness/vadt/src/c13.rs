//! C13 — group key interning.  Replays the histories printed by spec/adt/GroupValues.tla on every
//! `GroupValues` implementation reachable from the public API:
//!   new_group_values(schema, None | Full ordering)  (GroupValuesPrimitive / Bytes / BytesView / Boolean,
//!   GroupValuesColumn<false|true> with every GroupColumn builder incl. dictionary and row-backed nested
//!   columns, GroupValuesRows fallback), GroupValuesColumn::<false|true>::try_new, GroupValuesRows::try_new.
//! Model key value j of a column is mapped to a type-appropriate, collision-prone real value; after every
//! operation the returned group ids, len()/is_empty() and the emitted arrays are compared with the model.

use arrow::array::*;
use arrow::compute::{cast, concat, take};
use arrow::datatypes::*;
use datafusion_expr::EmitTo;
use datafusion_physical_plan::InputOrderMode;
use datafusion_physical_plan::aggregates::group_values::multi_group_by::{GroupValuesColumn, supported_schema};
use datafusion_physical_plan::aggregates::group_values::{GroupValues, GroupValuesRows, new_group_values};
use datafusion_physical_plan::aggregates::order::GroupOrdering;
use serde_json::{Value, json};
use std::collections::{BTreeMap, HashSet};
use std::panic::{AssertUnwindSafe, catch_unwind};
use std::sync::Arc;
use vcommon::util;

#[derive(Clone, Copy, Debug, PartialEq)]
enum Ctor {
    New,      // new_group_values(schema, &GroupOrdering::None)
    NewFull,  // new_group_values(schema, &GroupOrdering::Full)
    NewPartial, // new_group_values(schema, &GroupOrdering::Partial(first column))
    ColF,     // GroupValuesColumn::<false>::try_new
    ColT,     // GroupValuesColumn::<true>::try_new
    Rows,     // GroupValuesRows::try_new
}

struct Target {
    name: String,
    ctor: Ctor,
    schema: SchemaRef,
    /// per column: pool array (index 0 = NULL when the field is nullable) and number of non-null values
    pools: Vec<(ArrayRef, usize, bool)>,
    /// implemented by GroupValuesColumn (known finding: emit(All) leaves the hash table populated; the
    /// driver calls clear_shrink after emit(All) on these, as the aggregation operators do)
    column_impl: bool,
    /// "column" | "primitive" | "bytes" | "boolean" | "rows"
    family: &'static str,
}

const STRS: [&str; 7] = ["", "a", "ab", "abcdefghijkl", "abcdefghijklm", "abcdefghijklX", "abcdefghijklmnopqrstuvwxyz0123456789"];

fn i64s(bits: u32, signed: bool) -> Vec<i64> {
    if signed {
        let max = if bits == 64 { i64::MAX } else { (1i64 << (bits - 1)) - 1 };
        let min = if bits == 64 { i64::MIN } else { -(1i64 << (bits - 1)) };
        vec![0, 1, -1, max, min]
    } else {
        let max = if bits >= 63 { i64::MAX } else { (1i64 << bits) - 1 };
        vec![0, 1, max, max - 1, 2]
    }
}

fn from_i64(vals: Vec<i64>, dt: &DataType) -> ArrayRef {
    cast(&Int64Array::from(vals), dt).unwrap_or_else(|e| panic!("pool cast Int64 -> {dt}: {e}"))
}

fn from_i32(vals: Vec<i32>, dt: &DataType) -> ArrayRef {
    cast(&Int32Array::from(vals), dt).unwrap_or_else(|e| panic!("pool cast Int32 -> {dt}: {e}"))
}

/// Non-null pool values for a type (pairwise distinct, collision-prone).
fn pool_values(dt: &DataType) -> ArrayRef {
    use DataType::*;
    match dt {
        Int8 => from_i64(i64s(8, true), dt),
        Int16 => from_i64(i64s(16, true), dt),
        Int32 => from_i64(i64s(32, true), dt),
        Int64 => from_i64(i64s(64, true), dt),
        UInt8 => from_i64(i64s(8, false), dt),
        UInt16 => from_i64(i64s(16, false), dt),
        UInt32 => from_i64(i64s(32, false), dt),
        UInt64 => Arc::new(UInt64Array::from(vec![0, 1, u64::MAX, u64::MAX - 1, 1u64 << 63])),
        // NaN is one key (one bit pattern is used); -0.0 is left out: the engine folds it into +0.0 (canonicalize), and
        // the nested row-backed columns document a different treatment, so the property text does not fix the answer
        Float16 | Float32 | Float64 => cast(&Float64Array::from(vec![0.0, f64::NAN, 1.0, -1.5, 65504.0, 2.5]), dt).unwrap(),
        Decimal32(_, _) | Decimal64(_, _) | Decimal128(_, _) | Decimal256(_, _) => from_i64(vec![0, 1, -1, 12345, -12345], dt),
        Date32 => from_i32(vec![0, 1, -1, i32::MAX, i32::MIN], dt),
        Date64 => from_i64(vec![0, 86_400_000, -86_400_000, 864_000_000_000, 1], dt),
        Time32(_) => from_i32(vec![0, 1, 2, 86_399, 3600], dt),
        Time64(_) => from_i64(vec![0, 1, 2, 86_399_999_999, 3600], dt),
        Timestamp(_, _) | Duration(_) => from_i64(i64s(64, true), dt),
        Interval(IntervalUnit::YearMonth) => Arc::new(IntervalYearMonthArray::from(vec![0, 1, -1, i32::MAX, i32::MIN])),
        Interval(IntervalUnit::DayTime) => Arc::new(IntervalDayTimeArray::from(vec![
            IntervalDayTime::new(0, 0), IntervalDayTime::new(0, 1), IntervalDayTime::new(1, 0),
            IntervalDayTime::new(-1, -1), IntervalDayTime::new(i32::MAX, i32::MIN),
        ])),
        Interval(IntervalUnit::MonthDayNano) => Arc::new(IntervalMonthDayNanoArray::from(vec![
            IntervalMonthDayNano::new(0, 0, 0), IntervalMonthDayNano::new(0, 0, 1), IntervalMonthDayNano::new(0, 1, 0),
            IntervalMonthDayNano::new(1, 0, 0), IntervalMonthDayNano::new(-1, -1, -1),
        ])),
        Utf8 => Arc::new(StringArray::from(STRS.to_vec())),
        LargeUtf8 => Arc::new(LargeStringArray::from(STRS.to_vec())),
        Utf8View => Arc::new(StringViewArray::from(STRS.to_vec())),
        Binary => Arc::new(BinaryArray::from(STRS.iter().map(|s| s.as_bytes()).collect::<Vec<_>>())),
        LargeBinary => Arc::new(LargeBinaryArray::from(STRS.iter().map(|s| s.as_bytes()).collect::<Vec<_>>())),
        BinaryView => Arc::new(BinaryViewArray::from(STRS.iter().map(|s| s.as_bytes()).collect::<Vec<_>>())),
        FixedSizeBinary(n) => {
            let n = *n as usize;
            let mk = |f: &dyn Fn(usize) -> u8| (0..n).map(f).collect::<Vec<u8>>();
            let vals = vec![mk(&|_| 0), mk(&|i| (i == n - 1) as u8), mk(&|i| (i == 0) as u8), mk(&|_| 0xff), mk(&|i| (i == n / 2) as u8 * 2)];
            Arc::new(FixedSizeBinaryArray::try_from_iter(vals.into_iter()).unwrap())
        }
        Boolean => Arc::new(BooleanArray::from(vec![false, true])),
        Dictionary(_, v) => {
            let vals = pool_values(v);
            cast(&vals, dt).unwrap_or_else(|e| panic!("pool cast to {dt}: {e}"))
        }
        List(f) if f.data_type() == &Int32 => Arc::new(ListArray::from_iter_primitive::<Int32Type, _, _>(vec![
            Some(vec![]), Some(vec![Some(1)]), Some(vec![None]), Some(vec![Some(1), Some(2)]), Some(vec![Some(1), None]),
        ])),
        FixedSizeList(f, 2) if f.data_type() == &Int64 => Arc::new(FixedSizeListArray::from_iter_primitive::<Int64Type, _, _>(
            vec![Some(vec![Some(0), Some(0)]), Some(vec![Some(0), None]), Some(vec![None, Some(0)]), Some(vec![None, None]), Some(vec![Some(1), Some(0)])], 2)),
        Struct(fields) => {
            let a: ArrayRef = Arc::new(Int32Array::from(vec![Some(0), None, Some(0), Some(1), None]));
            let b: ArrayRef = Arc::new(StringArray::from(vec![Some(""), Some(""), None, Some("a"), None]));
            Arc::new(StructArray::new(fields.clone(), vec![a, b], None))
        }
        _ => panic!("no pool for {dt}"),
    }
}

fn make_pool(dt: &DataType, nullable: bool) -> (ArrayRef, usize, bool) {
    let vals = pool_values(dt);
    assert_eq!(vals.null_count(), 0, "pool for {dt} contains nulls");
    let n = vals.len();
    if nullable {
        let null = new_null_array(dt, 1);
        let all = concat(&[null.as_ref(), vals.as_ref()]).unwrap_or_else(|e| panic!("concat pool {dt}: {e}"));
        assert_eq!(all.data_type(), dt);
        (all, n, true)
    } else {
        (vals, n, false)
    }
}

fn single_types() -> Vec<DataType> {
    use DataType::*;
    let mut v = vec![
        Int8, Int16, Int32, Int64, UInt8, UInt16, UInt32, UInt64, Float16, Float32, Float64,
        Decimal32(9, 2), Decimal64(18, 2), Decimal128(20, 3), Decimal256(40, 2), Date32, Date64,
        Time32(TimeUnit::Second), Time32(TimeUnit::Millisecond), Time64(TimeUnit::Microsecond), Time64(TimeUnit::Nanosecond),
        Timestamp(TimeUnit::Second, None), Timestamp(TimeUnit::Millisecond, None), Timestamp(TimeUnit::Microsecond, Some("UTC".into())),
        Timestamp(TimeUnit::Nanosecond, None),
        Duration(TimeUnit::Second), Duration(TimeUnit::Millisecond), Duration(TimeUnit::Microsecond), Duration(TimeUnit::Nanosecond),
        Interval(IntervalUnit::YearMonth), Interval(IntervalUnit::DayTime), Interval(IntervalUnit::MonthDayNano),
        Utf8, LargeUtf8, Utf8View, Binary, LargeBinary, BinaryView, FixedSizeBinary(3), FixedSizeBinary(16), Boolean,
        Dictionary(Box::new(Int8), Box::new(Utf8)), Dictionary(Box::new(Int32), Box::new(Int64)),
        Dictionary(Box::new(UInt16), Box::new(LargeUtf8)), Dictionary(Box::new(Int16), Box::new(Utf8View)),
        Dictionary(Box::new(UInt8), Box::new(Binary)),
        List(Arc::new(Field::new("item", Int32, true))),
        FixedSizeList(Arc::new(Field::new("item", Int64, true)), 2),
        Struct(vec![Field::new("a", Int32, true), Field::new("b", Utf8, true)].into()),
    ];
    v.dedup();
    v
}

fn pair_types() -> Vec<(DataType, DataType)> {
    use DataType::*;
    vec![
        (Int32, Utf8), (Utf8View, Int64), (Boolean, Binary), (Dictionary(Box::new(Int32), Box::new(Utf8)), Date32),
        (FixedSizeBinary(3), Decimal128(20, 3)), (LargeUtf8, BinaryView), (Float64, Timestamp(TimeUnit::Nanosecond, None)),
        (UInt8, Boolean), (Utf8, Utf8), (Int64, Int64), (Utf8View, Utf8View), (Boolean, Boolean),
        (List(Arc::new(Field::new("item", Int32, true))), Int32),
        (Int16, Struct(vec![Field::new("a", Int32, true), Field::new("b", Utf8, true)].into())),
        (Decimal64(18, 2), Int32), (Decimal32(9, 2), Utf8), (Interval(IntervalUnit::MonthDayNano), LargeBinary),
        (Dictionary(Box::new(Int8), Box::new(Int64)), Dictionary(Box::new(Int16), Box::new(Utf8))),
        (Time32(TimeUnit::Second), Duration(TimeUnit::Millisecond)), (UInt64, Float32),
    ]
}

fn instantiate(t: &Target) -> datafusion_common::Result<Box<dyn GroupValues>> {
    let s = Arc::clone(&t.schema);
    Ok(match t.ctor {
        Ctor::New => new_group_values(s, &GroupOrdering::None)?,
        Ctor::NewFull => new_group_values(s, &GroupOrdering::try_new(&InputOrderMode::Sorted)?)?,
        Ctor::NewPartial => new_group_values(s, &GroupOrdering::try_new(&InputOrderMode::PartiallySorted(vec![0]))?)?,
        Ctor::ColF => Box::new(GroupValuesColumn::<false>::try_new(s)?),
        Ctor::ColT => Box::new(GroupValuesColumn::<true>::try_new(s)?),
        Ctor::Rows => Box::new(GroupValuesRows::try_new(s)?),
    })
}

fn targets(ncol: usize) -> (Vec<Target>, Vec<String>) {
    let mut specs: Vec<(Vec<(DataType, bool)>, Ctor)> = vec![];
    if ncol == 1 {
        for dt in single_types() {
            for nullable in [true, false] {
                specs.push((vec![(dt.clone(), nullable)], Ctor::New));
            }
            specs.push((vec![(dt.clone(), true)], Ctor::NewFull));
            specs.push((vec![(dt.clone(), false)], Ctor::NewPartial));
            specs.push((vec![(dt.clone(), true)], Ctor::ColF));
            specs.push((vec![(dt.clone(), false)], Ctor::ColF));
            specs.push((vec![(dt.clone(), true)], Ctor::ColT));
            specs.push((vec![(dt.clone(), true)], Ctor::Rows));
        }
    } else {
        for (a, b) in pair_types() {
            for (na, nb) in [(true, true), (false, true), (true, false), (false, false)] {
                specs.push((vec![(a.clone(), na), (b.clone(), nb)], Ctor::New));
            }
            specs.push((vec![(a.clone(), true), (b.clone(), true)], Ctor::NewFull));
            specs.push((vec![(a.clone(), true), (b.clone(), true)], Ctor::NewPartial));
            specs.push((vec![(a.clone(), true), (b.clone(), false)], Ctor::ColT));
            specs.push((vec![(a.clone(), true), (b.clone(), true)], Ctor::Rows));
            specs.push((vec![(b.clone(), true), (a.clone(), true)], Ctor::New));
        }
    }
    let mut res = vec![];
    let mut unsupported = vec![];
    for (cols, ctor) in specs {
        let fields: Vec<Field> = cols.iter().enumerate().map(|(i, (dt, n))| Field::new(format!("k{i}"), dt.clone(), *n)).collect();
        let schema: SchemaRef = Arc::new(Schema::new(fields));
        let route = if supported_schema(&schema) { "col" } else { "rows" };
        let name = format!(
            "{:?}[{}]({})",
            ctor,
            cols.iter().map(|(dt, n)| format!("{dt}{}", if *n { "?" } else { "" })).collect::<Vec<_>>().join(", "),
            route
        );
        let pools = match catch_unwind(AssertUnwindSafe(|| cols.iter().map(|(dt, n)| make_pool(dt, *n)).collect::<Vec<_>>())) {
            Ok(p) => p,
            Err(_) => {
                unsupported.push(format!("{name}: pool construction failed"));
                continue;
            }
        };
        let specialized_single = cols.len() == 1
            && !matches!(cols[0].0, DataType::FixedSizeBinary(_) | DataType::Dictionary(_, _) | DataType::List(_) | DataType::FixedSizeList(_, _) | DataType::Struct(_));
        let column_impl = match ctor {
            Ctor::ColF | Ctor::ColT => true,
            Ctor::Rows => false,
            Ctor::New | Ctor::NewFull | Ctor::NewPartial => !specialized_single && supported_schema(&schema),
        };
        let family = if column_impl {
            "column"
        } else if matches!(ctor, Ctor::Rows) || !specialized_single {
            "rows"
        } else {
            match cols[0].0 {
                DataType::Boolean => "boolean",
                DataType::Utf8 | DataType::LargeUtf8 | DataType::Binary | DataType::LargeBinary | DataType::Utf8View | DataType::BinaryView => "bytes",
                _ => "primitive",
            }
        };
        let t = Target { name, ctor, schema, pools, column_impl, family };
        // calibration: constructor and a trivial intern+emit must work, otherwise the type is not supported
        // by this constructor (that is not what C13 is about)
        let ok = catch_unwind(AssertUnwindSafe(|| -> Result<(), String> {
            let mut gv = instantiate(&t).map_err(|e| e.to_string())?;
            let cols: Vec<ArrayRef> = t.pools.iter().map(|(p, _, _)| p.slice(p.len() - 1, 1)).collect();
            let mut g = vec![];
            gv.intern(&cols, &mut g).map_err(|e| e.to_string())?;
            gv.emit(EmitTo::All).map_err(|e| e.to_string())?;
            Ok(())
        }));
        match ok {
            Ok(Ok(())) => res.push(t),
            Ok(Err(e)) => unsupported.push(format!("{}: {}", t.name, e.chars().take(120).collect::<String>())),
            Err(_) => unsupported.push(format!("{}: panic in calibration", t.name)),
        }
    }
    (res, unsupported)
}

/// model value j (0 = NULL) of column c -> index into the pool array; None if the pool is too small
fn pool_index(pool: &(ArrayRef, usize, bool), j: usize, rot: usize) -> Option<u32> {
    let (_, n, nullable) = pool;
    if *nullable {
        if j == 0 { Some(0) } else if j <= *n { Some(1 + ((j - 1 + rot) % n) as u32) } else { None }
    } else if j < *n { Some(((j + rot) % n) as u32) } else { None }
}

fn keys_to_arrays(t: &Target, keys: &Value, rot: usize, slice_pre: usize) -> Option<Vec<ArrayRef>> {
    let rows = keys.as_array().unwrap();
    let mut cols = vec![];
    for (c, pool) in t.pools.iter().enumerate() {
        let mut idx: Vec<u32> = vec![];
        // garbage prefix that is sliced away again (arrays with a non-zero offset)
        for k in 0..slice_pre {
            idx.push((k % pool.0.len()) as u32);
        }
        for r in rows {
            idx.push(pool_index(pool, r[c].as_u64().unwrap() as usize, rot)?);
        }
        let arr = take(pool.0.as_ref(), &UInt32Array::from(idx), None).unwrap();
        cols.push(if slice_pre > 0 { arr.slice(slice_pre, rows.len()) } else { arr });
    }
    Some(cols)
}

fn show(arrs: &[ArrayRef]) -> Vec<String> {
    arrs.iter()
        .map(|a| {
            let strs = arrow::util::display::ArrayFormatter::try_new(a.as_ref(), &Default::default())
                .map(|f| (0..a.len()).map(|i| if a.is_null(i) { "NULL".to_string() } else { f.value(i).to_string() }).collect::<Vec<_>>().join("|"))
                .unwrap_or_else(|_| "?".into());
            format!("{}:[{}]", a.data_type(), strs)
        })
        .collect()
}

/// Some(message) if the history diverges from the model at some step.
fn run_history(t: &Target, ops: &[Value], rot: usize, slice_pre: usize, stats: &mut Stats) -> Result<Option<(usize, String)>, ()> {
    // the case must be expressible with this target's pools
    for op in ops {
        for key in ["batch", "out"] {
            if keys_to_arrays(t, &op[key], rot, 0).is_none() {
                return Err(());
            }
        }
    }
    let mut gv = match instantiate(t) {
        Ok(g) => g,
        Err(e) => return Ok(Some((0, format!("constructor failed: {e}")))),
    };
    let mut perm: Vec<usize> = vec![];
    for (i, op) in ops.iter().enumerate() {
        let kind = op["op"].as_str().unwrap();
        let exp_len = op["len"].as_u64().unwrap() as usize;
        stats.ops += 1;
        match kind {
            "intern" => {
                let cols = keys_to_arrays(t, &op["batch"], rot, slice_pre).unwrap();
                // the output vector may hold stale content of a previous call
                let mut groups: Vec<usize> = vec![usize::MAX; (i % 3) as usize];
                if let Err(e) = gv.intern(&cols, &mut groups) {
                    return Ok(Some((i, format!("intern returned an error: {e}"))));
                }
                let exp: Vec<usize> = op["ids"].as_array().unwrap().iter().map(|x| x.as_u64().unwrap() as usize).collect();
                // The model numbers unseen keys in first-seen order.  The property only requires that the
                // unseen keys receive exactly the ids pre..pre+k (a bijection); `perm` (model id -> real id)
                // follows the store's choice (GroupValuesColumn<false> deviates under hash collisions).
                let pre = perm.len();
                let mut ok = groups.len() == exp.len();
                let mut fresh: BTreeMap<usize, usize> = BTreeMap::new();
                if ok {
                    for (m, r) in exp.iter().zip(groups.iter()) {
                        if *m < pre {
                            ok &= perm[*m] == *r;
                        } else if let Some(r0) = fresh.get(m) {
                            ok &= r0 == r;
                        } else {
                            ok &= *r >= pre && !fresh.values().any(|x| x == r);
                            fresh.insert(*m, *r);
                        }
                    }
                    let mut vals: Vec<usize> = fresh.values().cloned().collect();
                    vals.sort();
                    ok &= vals == (pre..pre + fresh.len()).collect::<Vec<_>>();
                }
                if !ok {
                    return Ok(Some((i, format!("intern({:?}) returned group ids {groups:?}, model {exp:?} (model id -> store id so far {perm:?})", show(&cols)))));
                }
                if fresh.iter().any(|(m, r)| m != r) {
                    stats.order_deviations += 1;
                }
                perm.extend(fresh.values().cloned());
            }
            "emit_all" | "emit_first" => {
                let n = op["arg"].as_u64().unwrap() as usize;
                let r = if kind == "emit_all" { gv.emit(EmitTo::All) } else { gv.emit(EmitTo::First(n)) };
                let out = match r {
                    Ok(o) => o,
                    Err(e) => return Ok(Some((i, format!("{kind} returned an error: {e}")))),
                };
                let take_n = if kind == "emit_all" { perm.len() } else { n };
                // the store emits its ids 0..n; they must be the model's first n keys (as a set) for the
                // history to stay comparable, otherwise stop following this history (not a violation)
                if perm.iter().take(take_n).any(|r| *r >= take_n) {
                    stats.order_stops += 1;
                    return Ok(None);
                }
                let model_out = op["out"].as_array().unwrap();
                let mut reordered = vec![Value::Null; take_n];
                for m in 0..take_n {
                    reordered[perm[m]] = model_out[m].clone();
                }
                let exp = keys_to_arrays(t, &Value::Array(reordered), rot, 0).unwrap();
                perm = perm.iter().skip(take_n).map(|r| r - take_n).collect();
                let same = out.len() == exp.len()
                    && out.iter().zip(exp.iter()).all(|(a, b)| a.data_type() == b.data_type() && a.len() == b.len() && a.as_ref() == b.as_ref());
                if !same {
                    return Ok(Some((i, format!("{kind}({n}) emitted {:?}, model {:?}", show(&out), show(&exp)))));
                }
                stats.emitted_rows += exp.first().map(|a| a.len()).unwrap_or(0) as u64;
            }
            "clear" => {
                // call discipline of the aggregation operators: clear_shrink follows emit(All)
                // (without it GroupValuesPrimitive keeps its NULL group and GroupValuesBytes/BytesView their
                // group count: known findings, reproduced separately with --raw)
                if !stats.raw && matches!(t.family, "primitive" | "bytes") && op["pre"].as_u64().unwrap() > 0 {
                    if let Err(e) = gv.emit(EmitTo::All) {
                        return Ok(Some((i, format!("emit(All) before clear_shrink returned an error: {e}"))));
                    }
                }
                gv.clear_shrink(op["arg"].as_u64().unwrap() as usize);
                perm.clear();
            }
            _ => panic!("unknown op {kind}"),
        }
        if gv.len() != exp_len || gv.is_empty() != (exp_len == 0) {
            return Ok(Some((i, format!("after {kind}: len()={} is_empty()={}, model len {exp_len}", gv.len(), gv.is_empty()))));
        }
        if kind == "emit_all" && t.column_impl && !stats.raw {
            gv.clear_shrink(0);
        }
    }
    Ok(None)
}

#[derive(Default)]
struct Stats {
    /// replay exactly (no clear_shrink inserted after emit(All) on GroupValuesColumn)
    raw: bool,
    ops: u64,
    emitted_rows: u64,
    order_deviations: u64,
    order_stops: u64,
}

pub fn main() {
    let seed = util::seed() as usize;
    let out = util::arg("--out").expect("--out");
    let per_case: usize = util::arg("--targets-per-case").and_then(|s| s.parse().ok()).unwrap_or(12);
    if std::env::var("VERIF_PANICS").is_err() { std::panic::set_hook(Box::new(|_| {})); }
    let mut all_targets: BTreeMap<usize, (Vec<Target>, Vec<String>)> = BTreeMap::new();
    for n in [1usize, 2] {
        all_targets.insert(n, targets(n));
    }
    let mut violations: Vec<Value> = vec![];
    let mut nviol = 0u64;
    // the four C13 findings are fixed in the tree: histories are replayed exactly as generated (no call discipline)
    let mut stats = Stats { raw: !util::has_flag("--discipline"), ..Default::default() };
    let mut evaluations = 0u64;
    let mut skipped = 0u64;
    let mut per_target: BTreeMap<String, u64> = BTreeMap::new();
    let mut nontrivial: HashSet<String> = HashSet::new();
    let mut fail_keys: BTreeMap<String, u64> = BTreeMap::new();

    let progress = util::arg("--progress");
    let mut progress_file = progress.as_ref().map(|p| std::fs::File::create(p).expect("progress file"));
    let cur_case = std::cell::Cell::new(0usize);
    let mut run_one = |t: &Target, case: &Value, rot: usize, pre: usize, violations: &mut Vec<Value>, stats: &mut Stats| {
        let ops = case["ops"].as_array().unwrap();
        if let Some(f) = progress_file.as_mut() {
            // an abort (non-unwinding panic, UB check) inside the store kills the process; the driver reads this
            use std::io::{Seek, Write};
            let rec = format!("{{\"case_index\":{},\"target\":{:?},\"rot\":{},\"slice_prefix\":{}}}", cur_case.get(), t.name, rot, pre);
            let _ = f.seek(std::io::SeekFrom::Start(0));
            let _ = f.write_all(format!("{rec:<400}").as_bytes());
        }
        let r = catch_unwind(AssertUnwindSafe(|| run_history(t, ops, rot, pre, stats)));
        let fail = match r {
            Ok(Err(())) => {
                skipped += 1;
                return;
            }
            Ok(Ok(None)) => None,
            Ok(Ok(Some((i, msg)))) => Some((i as i64, msg)),
            Err(_) => Some((-1, "panic inside the group values store".to_string())),
        };
        evaluations += 1;
        *per_target.entry(t.name.clone()).or_default() += 1;
        if let Some((step, msg)) = fail {
            nviol += 1;
            *fail_keys.entry(t.name.clone()).or_default() += 1;
            if violations.len() < 40 {
                // known finding (narrow): vectorized GroupValuesColumn<false>, nested-type key column (hash collisions
                // between NULL / empty lists ...), ids diverge at an intern that follows an emit(First n)
                let nested = t.schema.fields().iter().any(|f| f.data_type().is_nested());
                let after_first = step >= 0 && ops[..step as usize].iter().any(|o| o["op"] == "emit_first");
                let known = false && t.column_impl && matches!(t.ctor, Ctor::New | Ctor::ColF) && nested && after_first && msg.starts_with("intern(");
                violations.push(json!({"case": case, "target": t.name, "rot": rot, "slice_prefix": pre, "step": step, "oracle": msg,
                    "known_key": if known { Value::from("GroupValuesColumn<false>: emit(First n) with several hash-collision lists loses live keys") } else { Value::Null }}));
            }
        }
    };

    if let Some(r) = util::arg("--replay") {
        let v: Value = serde_json::from_str(&std::fs::read_to_string(&r).expect("replay file")).expect("replay json");
        let case = &v["case"];
        let ncol = case["ncol"].as_u64().unwrap() as usize;
        let (ts, _) = &all_targets[&ncol];
        for t in ts.iter().filter(|t| Some(t.name.as_str()) == v["target"].as_str()) {
            run_one(t, case, v["rot"].as_u64().unwrap() as usize, v["slice_prefix"].as_u64().unwrap() as usize, &mut violations, &mut stats);
        }
    } else {
        let cases = util::read_ndjson(&util::arg("--in").expect("--in"));
        let start: usize = util::arg("--start").and_then(|s| s.parse().ok()).unwrap_or(0);
        let only: Option<String> = util::arg("--target");
        for (ci, case) in cases.iter().enumerate().skip(start) {
            cur_case.set(ci);
            let ncol = case["ncol"].as_u64().unwrap() as usize;
            let (ts, _) = &all_targets[&ncol];
            let ops = case["ops"].as_array().unwrap();
            if ops.iter().any(|o| o["op"] != "intern" && o["pre"].as_u64().unwrap() > 0) {
                nontrivial.insert(case["ops"].to_string());
            }
            // every case runs on `per_case` targets, spread so that every target sees ~ cases*per_case/|targets| cases
            if let Some(name) = &only {
                for t in ts.iter().filter(|t| &t.name == name) {
                    run_one(t, case, 0, 0, &mut violations, &mut stats);
                }
                continue;
            }
            let stride = (ts.len() / per_case).max(1);
            for k in 0..per_case.min(ts.len()) {
                let t = &ts[(ci + seed + k * stride) % ts.len()];
                let rot = (ci / 7 + seed + k) % 7;
                let pre = (ci + k) % 3;
                run_one(t, case, rot, pre, &mut violations, &mut stats);
            }
        }
    }
    let unsupported: Vec<&String> = all_targets.values().flat_map(|(_, u)| u.iter()).collect();
    let min_per_target = per_target.values().min().cloned().unwrap_or(0);
    let res = json!({
        "evaluations": evaluations, "ops": stats.ops, "emitted_rows": stats.emitted_rows, "skipped_pool_too_small": skipped,
        "intern_calls_numbering_new_keys_out_of_first_seen_order": stats.order_deviations, "histories_stopped_after_order_deviation": stats.order_stops,
        "targets": all_targets.values().map(|(t, _)| t.len()).sum::<usize>(),
        "targets_never_run": all_targets.values().flat_map(|(t, _)| t.iter()).filter(|t| !per_target.contains_key(&t.name)).map(|t| t.name.clone()).collect::<Vec<_>>(),
        "min_histories_per_target": min_per_target,
        "unsupported_targets": unsupported, "distinct_nontrivial": nontrivial.len(),
        "target_names": per_target.keys().collect::<Vec<_>>(),
        "families": all_targets.values().flat_map(|(t, _)| t.iter()).fold(BTreeMap::<&str, u64>::new(), |mut m, t| { *m.entry(t.family).or_default() += 1; m }),
        "violations_total": nviol, "violations": violations, "failing_targets": fail_keys,
    });
    std::fs::write(&out, serde_json::to_string(&res).unwrap()).unwrap();
    util::summary(json!({"evaluations": evaluations, "violations": nviol}));
}
