//! C27 — partition-value pruning of listing tables never drops matching files (spec/files/Listing.tla).
//!
//! Every TLC-generated <layout, filter> is materialised in an in-memory object store (Hive-style
//! directories built from the partition values with the documented percent-escaping, or the raw
//! spelling where that is a legal object-store path), queried through a real `ListingTable`
//! (`SELECT .. WHERE filter`), and compared with the specification: result bag = Filter(all rows of
//! covered files, partition columns included); every file of Need(filter) was opened (recording
//! store); `parse_partitions_for_path` returns the values each path was built from; and
//! `pruned_partition_list` returns (no filter) exactly the covered files and (partition-only filter)
//! at least NeedP(filter).
use crate::store::{Recorder, Req};
use crate::util::*;
use arrow::datatypes::{DataType, Field, Schema};
use bytes::Bytes;
use datafusion::datasource::file_format::csv::CsvFormat;
use datafusion::datasource::listing::{ListingOptions, ListingTable, ListingTableConfig, ListingTableUrl};
use datafusion::prelude::*;
use datafusion_catalog_listing::helpers::{parse_partitions_for_path, pruned_partition_list};
use datafusion_common::ScalarValue;
use datafusion_expr::Expr;
use futures::TryStreamExt;
use object_store::memory::InMemory;
use object_store::path::Path;
use object_store::{ObjectStore, ObjectStoreExt, PutPayload};
use serde_json::{json, Value};
use std::collections::BTreeSet;
use std::sync::Arc;
use vcommon::util::{arg, read_ndjson};

/// Hive-style escaping as documented for partition directories: controls, space, % / ? # and
/// every non-ASCII byte are percent-encoded (written by hand: the engine's own encoder is not the oracle).
pub fn hive_encode(v: &str) -> String {
    let mut s = String::new();
    for b in v.bytes() {
        if b < 0x20 || b == 0x7f || b >= 0x80 || matches!(b, b' ' | b'%' | b'/' | b'?' | b'#') {
            s.push_str(&format!("%{b:02X}"));
        } else {
            s.push(b as char);
        }
    }
    s
}

fn raw_ok(v: &str) -> bool {
    !v.contains('%') && !v.contains('/') && !v.bytes().any(|b| b < 0x20)
}

fn pv_string(v: &Value, pool: &[String]) -> String {
    match spec_val(v, pool) {
        Value::String(s) => s,
        Value::Number(n) => n.to_string(),
        o => o.to_string(),
    }
}

fn col_name(i: usize, np: usize) -> String {
    if i <= np { format!("c{i}") } else if i == np + 1 { "d".into() } else { "e".into() }
}

/// Expr.tla AST -> typed logical Expr (column 2 is Int32, strings Utf8, d/e Int64)
fn to_expr(x: &Value, np: usize, pool: &[String], col_of_lit: usize) -> Expr {
    match x["op"].as_str().unwrap() {
        "col" => col(col_name(x["i"].as_u64().unwrap() as usize, np)),
        "lit" => match spec_val(&x["v"], pool) {
            Value::String(s) => lit(s),
            Value::Number(n) => if col_of_lit == 2 && np >= 2 { lit(n.as_i64().unwrap() as i32) } else { lit(n.as_i64().unwrap()) },
            _ => Expr::Literal(ScalarValue::Null, None),
        },
        "bin" => {
            let c = lit_col(x);
            let (l, r) = (to_expr(&x["l"], np, pool, c), to_expr(&x["r"], np, pool, c));
            match x["f"].as_str().unwrap() {
                "=" => l.eq(r), "<>" => l.not_eq(r), "<" => l.lt(r), "<=" => l.lt_eq(r), ">" => l.gt(r), ">=" => l.gt_eq(r),
                "and" => l.and(r), "or" => l.or(r),
                f => panic!("op {f}"),
            }
        }
        "un" => {
            let e = to_expr(&x["e"], np, pool, 0);
            match x["f"].as_str().unwrap() { "not" => !e, "isnull" => e.is_null(), "isnotnull" => e.is_not_null(), f => panic!("un {f}") }
        }
        "in" => {
            let c = x["e"]["i"].as_u64().unwrap() as usize;
            let list = x["list"].as_array().unwrap().iter().map(|l| to_expr(l, np, pool, c)).collect();
            to_expr(&x["e"], np, pool, 0).in_list(list, x["neg"].as_bool().unwrap())
        }
        o => panic!("node {o}"),
    }
}
fn lit_col(x: &Value) -> usize {
    if x["l"]["op"] == "col" { x["l"]["i"].as_u64().unwrap() as usize } else if x["r"]["op"] == "col" { x["r"]["i"].as_u64().unwrap() as usize } else { 0 }
}

struct Built {
    ctx: SessionContext,
    rec: Arc<Recorder>,
    url: ListingTableUrl,
    paths: Vec<Option<String>>,
    part_cols: Vec<(String, DataType)>,
}

async fn build(case: &Value, pool: &[String]) -> Result<Built, String> {
    let np = case["np"].as_u64().unwrap() as usize;
    let raw = case["spelling"].as_str() == Some("raw");
    let dict = case["dict"].as_bool().unwrap_or(false);
    let tp = case["tp"].as_u64().unwrap_or(2) as usize;
    let mem: Arc<dyn ObjectStore> = Arc::new(InMemory::new());
    let mut paths = vec![];
    for (i, f) in case["files"].as_array().unwrap().iter().enumerate() {
        if !f["present"].as_bool().unwrap() { paths.push(None); continue; }
        let idx = i + 1;
        let mut p = String::from("t");
        for (j, v) in f["pv"].as_array().unwrap().iter().enumerate() {
            let s = pv_string(v, pool);
            let seg = if raw && raw_ok(&s) { s.clone() } else { hive_encode(&s) };
            p.push_str(&format!("/c{}={}", j + 1, seg));
        }
        let name = match f["decoy"].as_u64().unwrap() { 1 => format!("f{idx}.txt"), 2 => format!("g{idx}.csv"), _ => format!("f{idx}.csv") };
        p.push('/');
        p.push_str(&name);
        let mut body = String::new();
        for r in f["rows"].as_array().unwrap() {
            let d = match spec_val(&r[0], pool) { Value::Null => String::new(), v => v.to_string() };
            body.push_str(&format!("{},{}\n", d, spec_val(&r[1], pool)));
        }
        let path = Path::parse(&p).map_err(|e| format!("path {p}: {e}"))?;
        mem.put(&path, PutPayload::from(Bytes::from(body))).await.map_err(|e| e.to_string())?;
        paths.push(Some(p));
    }
    // an empty file and a directory-like sibling must not disturb anything
    mem.put(&Path::parse("t_other/c1=b/f9.csv").unwrap(), PutPayload::from(Bytes::from("9,9\n"))).await.unwrap();
    let rec = Arc::new(Recorder::new(mem));
    let cfg = SessionConfig::new().with_target_partitions(tp).with_batch_size(8)
        .set_bool("datafusion.execution.listing_table_ignore_subdirectory", true);
    let ctx = SessionContext::new_with_config(cfg);
    ctx.register_object_store(&url::Url::parse("mem://c27").unwrap(), rec.clone());
    let mut url = ListingTableUrl::parse("mem://c27/t/").map_err(|e| e.to_string())?;
    if case["glob"].as_bool().unwrap() {
        url = url.with_glob("f*").map_err(|e| e.to_string())?;
    }
    let str_t = if dict { DataType::Dictionary(Box::new(DataType::UInt16), Box::new(DataType::Utf8)) } else { DataType::Utf8 };
    let part_cols: Vec<(String, DataType)> = (1..=np).map(|j| (format!("c{j}"), if j == 2 { DataType::Int32 } else { str_t.clone() })).collect();
    let opts = ListingOptions::new(Arc::new(CsvFormat::default().with_has_header(false)))
        .with_file_extension(".csv")
        .with_table_partition_cols(part_cols.clone());
    let schema = Arc::new(Schema::new(vec![Field::new("d", DataType::Int64, true), Field::new("e", DataType::Int64, true)]));
    let config = ListingTableConfig::new(url.clone()).with_listing_options(opts).with_schema(schema);
    let table = ListingTable::try_new(config).map_err(|e| format!("table: {e}"))?;
    ctx.register_table("t", Arc::new(table)).map_err(|e| e.to_string())?;
    Ok(Built { ctx, rec, url, paths, part_cols })
}

fn opened(reqs: &[Req]) -> BTreeSet<String> {
    reqs.iter().filter_map(|r| match r { Req::Get { path, head: false, .. } => Some(path.clone()), _ => None }).collect()
}

async fn one_case(acc: &mut Acc, case: &Value) {
    let pool = pool_of(case);
    let np = case["np"].as_u64().unwrap() as usize;
    let b = match build(case, &pool).await {
        Ok(b) => b,
        Err(e) => { acc.tool_errors.push(format!("build: {e}")); return; }
    };
    acc.evaluations += 1;
    let files = case["files"].as_array().unwrap();
    let covered: BTreeSet<String> = files.iter().enumerate().filter(|(_, f)| f["present"] == true && f["covered"] == true)
        .map(|(i, _)| b.paths[i].clone().unwrap()).collect();
    let idx_path = |v: &Value| -> BTreeSet<String> { v.as_array().unwrap().iter().map(|i| b.paths[i.as_u64().unwrap() as usize - 1].clone().unwrap()).collect() };
    let need = idx_path(&case["need"]);
    let sql = format!("SELECT {}, d, e FROM t WHERE {}", (1..=np).map(|j| format!("c{j}")).collect::<Vec<_>>().join(", "), case["sql"].as_str().unwrap());
    let expected = spec_rows(&case["expect"], &pool);
    let base = json!({"kind":"listing","case":case});

    // (1) query through the ListingTable
    b.rec.take();
    let res: Result<Vec<arrow::record_batch::RecordBatch>, String> = async {
        let df = b.ctx.sql(&sql).await.map_err(|e| format!("sql: {e}"))?;
        df.collect().await.map_err(|e| format!("collect: {e}"))
    }.await;
    let reqs = b.rec.take();
    if std::env::var("VERIF_DEBUG").is_ok() {
        eprintln!("sql={sql}\nreqs={reqs:?}");
        if let Ok(df) = b.ctx.sql(&format!("EXPLAIN VERBOSE {sql}")).await {
            if let Ok(bs) = df.collect().await { eprintln!("{}", arrow::util::pretty::pretty_format_batches(&bs).unwrap()); }
        }
    }
    match res {
        Err(e) => {
            let mut v = base.clone();
            v["sql"] = json!(sql); v["error"] = json!(e);
            v["message"] = json!(format!("query over the listing table failed: {e}"));
            acc.violation(v);
        }
        Ok(batches) => {
            let got = batches_rows(&batches);
            let (missing, extra) = bag_diff(&expected, &got);
            let open = opened(&reqs);
            let unopened: Vec<&String> = need.iter().filter(|p| !open.contains(*p)).collect();
            let foreign: Vec<&String> = open.iter().filter(|p| !covered.contains(*p)).collect();
            if need.len() < covered.len() && !need.is_empty() {
                acc.nontrivial.insert(format!("{}|{}|{:?}", serde_json::to_string(&case["files"]).unwrap(), sql, case["spelling"]));
            }
            if open.len() < covered.len() { acc.bump("queries_with_files_pruned", 1); }
            if reqs.iter().any(|r| matches!(r, Req::List { prefix, .. } if prefix.contains('='))) { acc.bump("queries_with_prefix_listing", 1); }
            if acc.samples.len() < 3 && need.len() < covered.len() && !need.is_empty() && open.len() < covered.len() {
                acc.samples.push(json!({"sql":sql,"files":b.paths,"covered":covered,"need":need,"opened":open,"expected_rows":expected,"got_rows":got,
                    "list_requests":reqs.iter().filter_map(|r| match r { Req::List{prefix,..} => Some(prefix.clone()), _ => None }).collect::<Vec<_>>()}));
            }
            if !missing.is_empty() || !extra.is_empty() || !unopened.is_empty() || !foreign.is_empty() {
                let mut v = base.clone();
                v["sql"] = json!(sql); v["missing_rows"] = json!(missing); v["unexpected_rows"] = json!(extra);
                v["need_not_opened"] = json!(unopened); v["opened_but_not_covered"] = json!(foreign); v["paths"] = json!(b.paths);
                v["message"] = json!(format!("listing table result differs from Filter(all rows of covered files): {} missing, {} unexpected rows; {} necessary files not opened; {} files outside the table opened",
                    missing.len(), extra.len(), unopened.len(), foreign.len()));
                acc.violation(v);
            }
        }
    }

    // (2) parse_partitions_for_path returns the values the path was built from
    for (i, f) in files.iter().enumerate() {
        let Some(p) = &b.paths[i] else { continue };
        let path = Path::parse(p).unwrap();
        let want: Vec<String> = f["pv"].as_array().unwrap().iter().map(|v| pv_string(v, &pool)).collect();
        let got = parse_partitions_for_path(&b.url, &path, b.part_cols.iter().map(|c| c.0.as_str()));
        let got_s: Option<Vec<String>> = got.map(|g| g.into_iter().map(|c| c.into_owned()).collect());
        acc.bump("paths_parsed", 1);
        if got_s.as_ref() != Some(&want) {
            let mut v = base.clone();
            v["path"] = json!(p); v["built_from"] = json!(want); v["parsed"] = json!(got_s);
            v["message"] = json!(format!("parse_partitions_for_path({p}) = {got_s:?}, but the path was built from {want:?}"));
            acc.violation(v);
        }
    }

    // (3) pruned_partition_list: no filter = exactly the covered files; partition-only filter ⊇ NeedP
    let state = b.ctx.state();
    let store: Arc<dyn ObjectStore> = b.rec.clone();
    let mut filter_sets: Vec<(Vec<Expr>, BTreeSet<String>, bool)> = vec![(vec![], covered.clone(), true)];
    if case["partonly"].as_bool().unwrap() {
        let e = to_expr(&case["filter"], np, &pool, 0);
        filter_sets.push((vec![e], idx_path(&case["needp"]), false));
        // conjunctions reach the listing code split into separate filters
        if case["filter"]["op"] == "bin" && case["filter"]["f"] == "and" {
            let l = to_expr(&case["filter"]["l"], np, &pool, 0);
            let r = to_expr(&case["filter"]["r"], np, &pool, 0);
            filter_sets.push((vec![l, r], idx_path(&case["needp"]), false));
        }
    }
    for (filters, want, exact) in filter_sets {
        let listed: Result<Vec<_>, String> = async {
            let s = pruned_partition_list(&state, store.as_ref(), &b.url, &filters, ".csv", &b.part_cols).await.map_err(|e| e.to_string())?;
            s.try_collect::<Vec<_>>().await.map_err(|e| e.to_string())
        }.await;
        acc.bump("pruned_partition_list_calls", 1);
        match listed {
            Err(e) => {
                let mut v = base.clone();
                v["filters"] = json!(format!("{filters:?}")); v["error"] = json!(e);
                v["message"] = json!(format!("pruned_partition_list failed: {e}"));
                acc.violation(v);
            }
            Ok(pfs) => {
                let got: BTreeSet<String> = pfs.iter().map(|p| p.object_meta.location.to_string()).collect();
                let dropped: Vec<&String> = want.iter().filter(|p| !got.contains(*p)).collect();
                let foreign: Vec<&String> = got.iter().filter(|p| !covered.contains(*p)).collect();
                if !exact && got.len() < covered.len() { acc.bump("pruned_lists_smaller_than_table", 1); }
                // partition values attached to the files
                let mut bad_values = vec![];
                for pf in &pfs {
                    let loc = pf.object_meta.location.to_string();
                    if let Some(i) = b.paths.iter().position(|p| p.as_deref() == Some(loc.as_str())) {
                        let want_v: Vec<String> = files[i]["pv"].as_array().unwrap().iter().map(|v| pv_string(v, &pool)).collect();
                        let got_v: Vec<String> = pf.partition_values.iter().map(|s| match s {
                            ScalarValue::Dictionary(_, inner) => inner.to_string(), o => o.to_string() }).collect();
                        if want_v != got_v { bad_values.push(json!({"path":loc,"built_from":want_v,"attached":got_v})); }
                    }
                }
                if !dropped.is_empty() || !foreign.is_empty() || !bad_values.is_empty() || (exact && got != want) {
                    let mut v = base.clone();
                    v["filters"] = json!(format!("{filters:?}")); v["listed"] = json!(got); v["must_contain"] = json!(want);
                    v["dropped"] = json!(dropped); v["not_covered"] = json!(foreign); v["bad_partition_values"] = json!(bad_values);
                    v["message"] = json!(format!("pruned_partition_list({}) dropped {} files whose partition values satisfy the filter, returned {} files outside the table, {} wrong partition values",
                        if exact {"no filter"} else {"partition filter"}, dropped.len(), foreign.len(), bad_values.len()));
                    acc.violation(v);
                }
            }
        }
    }
}

pub fn main() {
    let rt = tokio::runtime::Builder::new_multi_thread().worker_threads(4).enable_all().build().unwrap();
    let out_path = arg("--out").expect("--out");
    let mut acc = Acc::default();
    rt.block_on(async {
        let cases: Vec<Value> = if let Some(rp) = arg("--replay") {
            let v: Value = serde_json::from_str(&std::fs::read_to_string(&rp).unwrap()).unwrap();
            vec![v["case"].clone()]
        } else {
            read_ndjson(&arg("--cases").expect("--cases"))
        };
        for c in &cases {
            // a panic in the code under test is data
            let c2 = c.clone();
            let h = tokio::spawn(async move { let mut a = Acc::default(); one_case(&mut a, &c2).await; a });
            match h.await {
                Ok(a) => {
                    acc.evaluations += a.evaluations;
                    for v in a.violations { acc.violation(v); }
                    acc.tool_errors.extend(a.tool_errors);
                    for s in a.samples { if acc.samples.len() < 3 { acc.samples.push(s); } }
                    acc.nontrivial.extend(a.nontrivial);
                    for (k, n) in a.counters { if k != "violations_total" { acc.bump(&k, n); } }
                }
                Err(j) => acc.violation(json!({"kind":"listing","case":c,"message":format!("panic while scanning the listing table: {j}")})),
            }
        }
    });
    acc.finish(&out_path);
}
