//! C27 — partition-value pruning of listing tables never drops matching files (spec/files/Listing.tla).
//!
//! Every TLC-generated <layout, filter> is materialised in an in-memory object store (Hive-style
//! directories built from the partition values with the documented percent-escaping, or the raw
//! spelling where that is a legal object-store path), queried through a real `ListingTable`
//! (`SELECT .. WHERE filter`), and compared with the specification: result bag = Filter(all rows of
//! covered files, partition columns included); every file of Need(filter) was opened (recording
//! store); `parse_partitions_for_path` returns the values each path was built from; and
//! `pruned_partition_list` returns (no filter) exactly the covered files and (partition-only filter)
//! at least NeedP(filter).
use crate::store::{Recorder, Req};
use crate::util::*;
use arrow::datatypes::{DataType, Field, Schema};
use bytes::Bytes;
use datafusion::datasource::file_format::csv::CsvFormat;
use datafusion::datasource::listing::{ListingOptions, ListingTable, ListingTableConfig, ListingTableUrl};
use datafusion::prelude::*;
use datafusion_catalog_listing::helpers::{parse_partitions_for_path, pruned_partition_list};
use datafusion_common::ScalarValue;
use datafusion_expr::Expr;
use futures::TryStreamExt;
use object_store::memory::InMemory;
use object_store::path::Path;
use object_store::{ObjectStore, ObjectStoreExt, PutPayload};
use serde_json::{json, Value};
use std::collections::BTreeSet;
use std::sync::Arc;
use vcommon::util::{arg, read_ndjson};

/// Hive-style escaping as documented for partition directories: controls, space, % / ? # and
/// every non-ASCII byte are percent-encoded (written by hand: the engine's own encoder is not the oracle).
pub fn hive_encode(v: &str) -> String {
    let mut s = String::new();
    for b in v.bytes() {
        if b < 0x20 || b == 0x7f || b >= 0x80 || matches!(b, b' ' | b'%' | b'/' | b'?' | b'#') {
            s.push_str(&format!("%{b:02X}"));
        } else {
            s.push(b as char);
        }
    }
    s
}

fn raw_ok(v: &str) -> bool {
    !v.contains('%') && !v.contains('/') && !v.bytes().any(|b| b < 0x20)
}

/// 2024-01-01 + v days (v <= 120), written out by hand
pub fn date_string(v: i64) -> String {
    let mut d = v + 1;
    for (m, len) in [(1, 31), (2, 29), (3, 31), (4, 30), (5, 31)] {
        if d <= len { return format!("2024-{m:02}-{d:02}"); }
        d -= len;
    }
    panic!("date out of range")
}
const EPOCH_2024: i32 = 19723;

/// text of a partition value; `date` = the value is a day offset of a Date32 column
fn pv_text(v: &Value, pool: &[String], date: bool) -> String {
    match spec_val(v, pool) {
        Value::String(s) => s,
        Value::Number(n) => if date { date_string(n.as_i64().unwrap()) } else { n.to_string() },
        o => o.to_string(),
    }
}
fn is_date(case: &Value, j: usize) -> bool { j == 1 && case["c2type"].as_str() == Some("date") }

fn col_name(i: usize, np: usize) -> String {
    if i <= np { format!("c{i}") } else if i == np + 1 { "d".into() } else { "e".into() }
}

/// Expr.tla AST -> typed logical Expr (column 2 is Int32, strings Utf8, d/e Int64)
fn to_expr(x: &Value, np: usize, pool: &[String], col_of_lit: usize, c2: &str) -> Expr {
    match x["op"].as_str().unwrap() {
        "col" => col(col_name(x["i"].as_u64().unwrap() as usize, np)),
        "lit" => match spec_val(&x["v"], pool) {
            Value::String(s) => lit(s),
            Value::Number(n) => if col_of_lit == 2 && np >= 2 {
                match c2 { "date" => lit(ScalarValue::Date32(Some(EPOCH_2024 + n.as_i64().unwrap() as i32))), "i64" => lit(n.as_i64().unwrap()), _ => lit(n.as_i64().unwrap() as i32) }
            } else { lit(n.as_i64().unwrap()) },
            _ => Expr::Literal(ScalarValue::Null, None),
        },
        "bin" => {
            let c = lit_col(x);
            let (l, r) = (to_expr(&x["l"], np, pool, c, c2), to_expr(&x["r"], np, pool, c, c2));
            match x["f"].as_str().unwrap() {
                "=" => l.eq(r), "<>" => l.not_eq(r), "<" => l.lt(r), "<=" => l.lt_eq(r), ">" => l.gt(r), ">=" => l.gt_eq(r),
                "and" => l.and(r), "or" => l.or(r),
                f => panic!("op {f}"),
            }
        }
        "un" => {
            let e = to_expr(&x["e"], np, pool, 0, c2);
            match x["f"].as_str().unwrap() { "not" => !e, "isnull" => e.is_null(), "isnotnull" => e.is_not_null(), f => panic!("un {f}") }
        }
        "in" => {
            let c = x["e"]["i"].as_u64().unwrap() as usize;
            let list = x["list"].as_array().unwrap().iter().map(|l| to_expr(l, np, pool, c, c2)).collect();
            to_expr(&x["e"], np, pool, 0, c2).in_list(list, x["neg"].as_bool().unwrap())
        }
        o => panic!("node {o}"),
    }
}
fn lit_col(x: &Value) -> usize {
    if x["l"]["op"] == "col" { x["l"]["i"].as_u64().unwrap() as usize } else if x["r"]["op"] == "col" { x["r"]["i"].as_u64().unwrap() as usize } else { 0 }
}

struct Built {
    ctx: SessionContext,
    rec: Arc<Recorder>,
    url: ListingTableUrl,
    paths: Vec<Option<String>>,
    part_cols: Vec<(String, DataType)>,
}

async fn build(case: &Value, pool: &[String]) -> Result<Built, String> {
    let np = case["np"].as_u64().unwrap() as usize;
    let raw = case["spelling"].as_str() == Some("raw");
    let dict = case["dict"].as_bool().unwrap_or(false);
    let tp = case["tp"].as_u64().unwrap_or(2) as usize;
    let mode = case["mode"].as_str().unwrap_or("api");
    let c2 = case["c2type"].as_str().unwrap_or("i32");
    let ignsub = case["ignsub"].as_bool().unwrap_or(true);
    let mem: Arc<dyn ObjectStore> = Arc::new(InMemory::new());
    let mut paths = vec![];
    for (i, f) in case["files"].as_array().unwrap().iter().enumerate() {
        if !f["present"].as_bool().unwrap() { paths.push(None); continue; }
        let decoy = f["decoy"].as_u64().unwrap();
        // CREATE EXTERNAL TABLE over a directory uses an empty extension filter: no extension / glob decoys there
        if mode != "api" && decoy == 1 { paths.push(None); continue; }
        let idx = i + 1;
        let mut p = String::from("t");
        for (j, v) in f["pv"].as_array().unwrap().iter().enumerate() {
            let s = pv_text(v, pool, is_date(case, j));
            let seg = if raw && raw_ok(&s) { s.clone() } else { hive_encode(&s) };
            p.push_str(&format!("/c{}={}", j + 1, seg));
        }
        let name = match decoy { 1 => format!("f{idx}.txt"), 2 => format!("g{idx}.csv"), 3 => format!("sub/f{idx}.csv"), _ => format!("f{idx}.csv") };
        p.push('/');
        p.push_str(&name);
        let mut body = String::new();
        if decoy != 4 {
            for r in f["rows"].as_array().unwrap() {
                let d = match spec_val(&r[0], pool) { Value::Null => String::new(), v => v.to_string() };
                body.push_str(&format!("{},{}\n", d, spec_val(&r[1], pool)));
            }
        }
        let path = Path::parse(&p).map_err(|e| format!("path {p}: {e}"))?;
        mem.put(&path, PutPayload::from(Bytes::from(body))).await.map_err(|e| e.to_string())?;
        paths.push(Some(p));
    }
    // a sibling directory sharing the table's name as a string prefix must not disturb anything
    mem.put(&Path::parse("t_other/c1=b/f9.csv").unwrap(), PutPayload::from(Bytes::from("9,9\n"))).await.unwrap();
    let rec = Arc::new(Recorder::new(mem));
    let cfg = SessionConfig::new().with_target_partitions(tp).with_batch_size(8)
        .set_bool("datafusion.execution.listing_table_ignore_subdirectory", ignsub);
    let mut rt = datafusion::execution::runtime_env::RuntimeEnvBuilder::new();
    match case["cache"].as_str().unwrap_or("on") {
        "off" => rt = rt.with_object_list_cache_limit(0),
        "ttl" => rt = rt.with_object_list_cache_ttl(Some(std::time::Duration::from_secs(3600))),
        _ => {}
    }
    let ctx = SessionContext::new_with_config_rt(cfg, rt.build_arc().map_err(|e| e.to_string())?);
    ctx.register_object_store(&url::Url::parse("mem://c27").unwrap(), rec.clone());
    let slash = case["slash"].as_bool().unwrap_or(true);
    let mut url = ListingTableUrl::parse(if slash { "mem://c27/t/" } else { "mem://c27/t" }).map_err(|e| e.to_string())?;
    if case["glob"].as_bool().unwrap() {
        url = url.with_glob("f*").map_err(|e| e.to_string())?;
    }
    let str_t = if dict { DataType::Dictionary(Box::new(DataType::UInt16), Box::new(DataType::Utf8)) } else { DataType::Utf8 };
    let c2_t = match c2 { "date" => DataType::Date32, "i64" => DataType::Int64, _ => DataType::Int32 };
    let part_cols: Vec<(String, DataType)> = (1..=np).map(|j| (format!("c{j}"), if j == 2 { c2_t.clone() } else { str_t.clone() })).collect();
    match mode {
        "ddl" => {
            let cols: Vec<String> = (1..=np).map(|j| format!("c{j} {}", if j == 2 { match c2 { "date" => "DATE", "i64" => "BIGINT", _ => "INT" } } else { "VARCHAR" })).collect();
            let ddl = format!("CREATE EXTERNAL TABLE t (d BIGINT, e BIGINT, {}) STORED AS CSV PARTITIONED BY ({}) LOCATION 'mem://c27/t/' OPTIONS ('format.has_header' 'false')",
                cols.join(", "), (1..=np).map(|j| format!("c{j}")).collect::<Vec<_>>().join(", "));
            ctx.sql(&ddl).await.map_err(|e| format!("ddl: {e}"))?.collect().await.map_err(|e| format!("ddl: {e}"))?;
        }
        "infer" => {
            let ddl = "CREATE EXTERNAL TABLE t STORED AS CSV LOCATION 'mem://c27/t/' OPTIONS ('format.has_header' 'false')";
            ctx.sql(ddl).await.map_err(|e| format!("ddl: {e}"))?.collect().await.map_err(|e| format!("ddl: {e}"))?;
        }
        _ => {
            let opts = ListingOptions::new(Arc::new(CsvFormat::default().with_has_header(false)))
                .with_file_extension(".csv")
                .with_table_partition_cols(part_cols.clone());
            let schema = Arc::new(Schema::new(vec![Field::new("d", DataType::Int64, true), Field::new("e", DataType::Int64, true)]));
            let config = ListingTableConfig::new(url.clone()).with_listing_options(opts).with_schema(schema);
            let table = ListingTable::try_new(config).map_err(|e| format!("table: {e}"))?;
            ctx.register_table("t", Arc::new(table)).map_err(|e| e.to_string())?;
        }
    }
    Ok(Built { ctx, rec, url, paths, part_cols })
}

fn opened(reqs: &[Req]) -> BTreeSet<String> {
    reqs.iter().filter_map(|r| match r { Req::Get { path, head: false, .. } => Some(path.clone()), _ => None }).collect()
}

async fn one_case(acc: &mut Acc, case: &Value) {
    let pool = pool_of(case);
    let np = case["np"].as_u64().unwrap() as usize;
    let b = match build(case, &pool).await {
        Ok(b) => b,
        Err(e) => { acc.tool_errors.push(format!("build: {e}")); return; }
    };
    acc.evaluations += 1;
    let files = case["files"].as_array().unwrap();
    let covered: BTreeSet<String> = files.iter().enumerate().filter(|(_, f)| f["present"] == true && f["covered"] == true)
        .map(|(i, _)| b.paths[i].clone().unwrap()).collect();
    let idx_path = |v: &Value| -> BTreeSet<String> { v.as_array().unwrap().iter().map(|i| b.paths[i.as_u64().unwrap() as usize - 1].clone().unwrap()).collect() };
    let need = idx_path(&case["need"]);
    let mode = case["mode"].as_str().unwrap_or("api");
    let date2 = case["c2type"].as_str() == Some("date") && np >= 2;
    let fix = |rows: Vec<Vec<Value>>| -> Vec<Vec<Value>> {
        rows.into_iter().map(|mut r| {
            if date2 { if let Some(n) = r[1].as_i64() { r[1] = json!(date_string(n)); } }
            if mode == "infer" { for j in 0..np { if let Some(n) = r[j].as_i64() { r[j] = json!(n.to_string()); } } }
            r
        }).collect()
    };
    let pcols = (1..=np).map(|j| format!("c{j}")).collect::<Vec<_>>().join(", ");
    let expected = fix(spec_rows(&case["expect"], &pool));
    let expected_all = fix(spec_rows(&case["all"], &pool));
    let base = json!({"kind":"listing","case":case});
    let sql_f = format!("SELECT {pcols}, d, e FROM t WHERE {}", case["sql"].as_str().unwrap());
    let steps: Vec<(&str, String, &Vec<Vec<Value>>, &BTreeSet<String>)> = if mode == "infer" {
        vec![("all", format!("SELECT {pcols}, column_1, column_2 FROM t"), &expected_all, &covered)]
    } else {
        vec![("all", format!("SELECT {pcols}, d, e FROM t"), &expected_all, &covered),
             ("filter", sql_f.clone(), &expected, &need),
             ("filter-again", sql_f.clone(), &expected, &need)]
    };
    acc.bump(&format!("mode_{mode}"), 1);
    acc.bump(&format!("cache_{}", case["cache"].as_str().unwrap_or("on")), 1);
    acc.bump(&format!("c2type_{}", case["c2type"].as_str().unwrap_or("i32")), 1);
    if !case["slash"].as_bool().unwrap_or(true) { acc.bump("table_path_without_trailing_slash", 1); }
    if !case["ignsub"].as_bool().unwrap_or(true) { acc.bump("ignore_subdirectory_false", 1); }
    for f in files { if f["present"] == true { acc.bump(&format!("decoy_{}{}", f["decoy"], if f["covered"] == true {"_covered"} else {""}), 1); } }

    // (1) queries through the ListingTable: whole table, filter, filter again (listing served from the cache)
    for (step, sql, expected, need) in steps {
        b.rec.take();
        let res: Result<Vec<arrow::record_batch::RecordBatch>, String> = async {
            let df = b.ctx.sql(&sql).await.map_err(|e| format!("sql: {e}"))?;
            df.collect().await.map_err(|e| format!("collect: {e}"))
        }.await;
        let reqs = b.rec.take();
        if std::env::var("VERIF_DEBUG").is_ok() {
            eprintln!("sql={sql}\nreqs={reqs:?}");
        }
        match res {
            Err(e) => {
                let mut v = base.clone();
                v["sql"] = json!(sql); v["error"] = json!(e); v["step"] = json!(step);
                v["message"] = json!(format!("query over the listing table failed: {e}"));
                acc.violation(v);
            }
            Ok(batches) => {
                let got = batches_rows(&batches);
                let (missing, extra) = bag_diff(expected, &got);
                let open = opened(&reqs);
                let unopened: Vec<&String> = need.iter().filter(|p| !open.contains(*p)).collect();
                let foreign: Vec<&String> = open.iter().filter(|p| !covered.contains(*p)).collect();
                let lists = reqs.iter().filter(|r| matches!(r, Req::List { .. })).count();
                if step == "filter" {
                    if need.len() < covered.len() && !need.is_empty() {
                        acc.nontrivial.insert(format!("{}|{}|{:?}|{}|{}", serde_json::to_string(&case["files"]).unwrap(), sql, case["spelling"], mode, case["cache"]));
                    }
                    if open.len() < covered.len() { acc.bump("queries_with_files_pruned", 1); }
                    if lists == 0 { acc.bump("filter_queries_listing_served_from_cache", 1); }
                    if reqs.iter().any(|r| matches!(r, Req::List { prefix, .. } if prefix.contains('='))) { acc.bump("queries_with_prefix_listing", 1); }
                    if acc.samples.len() < 3 && need.len() < covered.len() && !need.is_empty() && open.len() < covered.len() {
                        acc.samples.push(json!({"sql":sql,"mode":mode,"files":b.paths,"covered":covered,"need":need,"opened":open,"expected_rows":expected,"got_rows":got,
                            "list_requests":reqs.iter().filter_map(|r| match r { Req::List{prefix,..} => Some(prefix.clone()), _ => None }).collect::<Vec<_>>()}));
                    }
                }
                if step == "filter-again" && lists == 0 { acc.bump("repeat_queries_listing_served_from_cache", 1); }
                if !missing.is_empty() || !extra.is_empty() || !unopened.is_empty() || !foreign.is_empty() {
                    let mut v = base.clone();
                    v["sql"] = json!(sql); v["step"] = json!(step); v["missing_rows"] = json!(missing); v["unexpected_rows"] = json!(extra);
                    v["need_not_opened"] = json!(unopened); v["opened_but_not_covered"] = json!(foreign); v["paths"] = json!(b.paths);
                    v["message"] = json!(format!("listing table result ({step}) differs from Filter(all rows of covered files): {} missing, {} unexpected rows; {} necessary files not opened; {} files outside the table opened",
                        missing.len(), extra.len(), unopened.len(), foreign.len()));
                    acc.violation(v);
                }
            }
        }
    }

    // (2) parse_partitions_for_path returns the values the path was built from
    for (i, f) in files.iter().enumerate() {
        let Some(p) = &b.paths[i] else { continue };
        let path = Path::parse(p).unwrap();
        let want: Vec<String> = f["pv"].as_array().unwrap().iter().enumerate().map(|(j, v)| pv_text(v, &pool, is_date(case, j))).collect();
        let got = parse_partitions_for_path(&b.url, &path, b.part_cols.iter().map(|c| c.0.as_str()));
        let got_s: Option<Vec<String>> = got.map(|g| g.into_iter().map(|c| c.into_owned()).collect());
        acc.bump("paths_parsed", 1);
        if got_s.as_ref() != Some(&want) {
            let mut v = base.clone();
            v["path"] = json!(p); v["built_from"] = json!(want); v["parsed"] = json!(got_s);
            v["message"] = json!(format!("parse_partitions_for_path({p}) = {got_s:?}, but the path was built from {want:?}"));
            acc.violation(v);
        }
    }

    // (3) pruned_partition_list: no filter = exactly the covered files; partition-only filter ⊇ NeedP
    let state = b.ctx.state();
    let store: Arc<dyn ObjectStore> = b.rec.clone();
    let mut filter_sets: Vec<(Vec<Expr>, BTreeSet<String>, bool)> = vec![(vec![], covered.clone(), true)];
    if case["partonly"].as_bool().unwrap() {
        let c2 = case["c2type"].as_str().unwrap_or("i32");
        let e = to_expr(&case["filter"], np, &pool, 0, c2);
        filter_sets.push((vec![e], idx_path(&case["needp"]), false));
        // conjunctions reach the listing code split into separate filters
        if case["filter"]["op"] == "bin" && case["filter"]["f"] == "and" {
            let l = to_expr(&case["filter"]["l"], np, &pool, 0, c2);
            let r = to_expr(&case["filter"]["r"], np, &pool, 0, c2);
            filter_sets.push((vec![l, r], idx_path(&case["needp"]), false));
        }
    }
    for (filters, want, exact) in filter_sets {
        let listed: Result<Vec<_>, String> = async {
            let s = pruned_partition_list(&state, store.as_ref(), &b.url, &filters, ".csv", &b.part_cols).await.map_err(|e| e.to_string())?;
            s.try_collect::<Vec<_>>().await.map_err(|e| e.to_string())
        }.await;
        acc.bump("pruned_partition_list_calls", 1);
        match listed {
            Err(e) => {
                let mut v = base.clone();
                v["filters"] = json!(format!("{filters:?}")); v["error"] = json!(e);
                v["message"] = json!(format!("pruned_partition_list failed: {e}"));
                acc.violation(v);
            }
            Ok(pfs) => {
                let got: BTreeSet<String> = pfs.iter().map(|p| p.object_meta.location.to_string()).collect();
                let dropped: Vec<&String> = want.iter().filter(|p| !got.contains(*p)).collect();
                let foreign: Vec<&String> = got.iter().filter(|p| !covered.contains(*p)).collect();
                if !exact && got.len() < covered.len() { acc.bump("pruned_lists_smaller_than_table", 1); }
                // partition values attached to the files
                let mut bad_values = vec![];
                for pf in &pfs {
                    let loc = pf.object_meta.location.to_string();
                    if let Some(i) = b.paths.iter().position(|p| p.as_deref() == Some(loc.as_str())) {
                        let want_v: Vec<String> = files[i]["pv"].as_array().unwrap().iter().enumerate().map(|(j, v)| pv_text(v, &pool, is_date(case, j))).collect();
                        let got_v: Vec<String> = pf.partition_values.iter().map(|s| match s {
                            ScalarValue::Dictionary(_, inner) => inner.to_string(), o => o.to_string() }).collect();
                        if want_v != got_v { bad_values.push(json!({"path":loc,"built_from":want_v,"attached":got_v})); }
                    }
                }
                if !dropped.is_empty() || !foreign.is_empty() || !bad_values.is_empty() || (exact && got != want) {
                    let mut v = base.clone();
                    v["filters"] = json!(format!("{filters:?}")); v["listed"] = json!(got); v["must_contain"] = json!(want);
                    v["dropped"] = json!(dropped); v["not_covered"] = json!(foreign); v["bad_partition_values"] = json!(bad_values);
                    v["message"] = json!(format!("pruned_partition_list({}) dropped {} files whose partition values satisfy the filter, returned {} files outside the table, {} wrong partition values",
                        if exact {"no filter"} else {"partition filter"}, dropped.len(), foreign.len(), bad_values.len()));
                    acc.violation(v);
                }
            }
        }
    }
}

pub fn main() {
    let rt = tokio::runtime::Builder::new_multi_thread().worker_threads(4).enable_all().build().unwrap();
    let out_path = arg("--out").expect("--out");
    let mut acc = Acc::default();
    rt.block_on(async {
        let cases: Vec<Value> = if let Some(rp) = arg("--replay") {
            let v: Value = serde_json::from_str(&std::fs::read_to_string(&rp).unwrap()).unwrap();
            vec![v["case"].clone()]
        } else {
            read_ndjson(&arg("--cases").expect("--cases"))
        };
        for c in &cases {
            // a panic in the code under test is data
            let c2 = c.clone();
            let h = tokio::spawn(async move { let mut a = Acc::default(); one_case(&mut a, &c2).await; a });
            match h.await {
                Ok(a) => {
                    acc.evaluations += a.evaluations;
                    for v in a.violations { acc.violation(v); }
                    acc.tool_errors.extend(a.tool_errors);
                    for s in a.samples { if acc.samples.len() < 3 { acc.samples.push(s); } }
                    acc.nontrivial.extend(a.nontrivial);
                    for (k, n) in a.counters { if k != "violations_total" { acc.bump(&k, n); } }
                }
                Err(j) => acc.violation(json!({"kind":"listing","case":c,"message":format!("panic while scanning the listing table: {j}")})),
            }
        }
    });
    acc.finish(&out_path);
}
