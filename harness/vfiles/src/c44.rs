//! C44 — files with a differing schema are read faithfully into the table schema
//! (spec/files/SchemaAdapt.tla).  Every TLC case = two Parquet files with physical-schema variants
//! (columns reordered / missing / extra, narrower or wider integer types, Utf8 vs LargeUtf8, struct
//! fields reordered / missing / extra) + a predicate; read through a ListingTable with the explicit
//! table schema with and without filter pushdown; rows (struct flattened) must equal
//! Filter(Adapt(rows)) and the result schema must be the table schema's types.
use crate::util::*;
use arrow::array::*;
use arrow::datatypes::{DataType, Field, Fields, Schema};
use arrow::record_batch::RecordBatch;
use bytes::Bytes;
use datafusion::datasource::file_format::parquet::ParquetFormat;
use datafusion::datasource::listing::{ListingOptions, ListingTable, ListingTableConfig, ListingTableUrl};
use datafusion::prelude::*;
use object_store::memory::InMemory;
use object_store::path::Path;
use object_store::{ObjectStore, ObjectStoreExt, PutPayload};
use serde_json::{json, Value};
use std::sync::Arc;

fn int_array(t: &str, vals: Vec<Option<i64>>) -> (DataType, ArrayRef) {
    match t {
        "i8" => (DataType::Int8, Arc::new(Int8Array::from(vals.iter().map(|v| v.map(|x| x as i8)).collect::<Vec<_>>()))),
        "i32" => (DataType::Int32, Arc::new(Int32Array::from(vals.iter().map(|v| v.map(|x| x as i32)).collect::<Vec<_>>()))),
        _ => (DataType::Int64, Arc::new(Int64Array::from(vals))),
    }
}
fn str_array(t: &str, vals: Vec<Option<String>>) -> (DataType, ArrayRef) {
    match t {
        "large" => (DataType::LargeUtf8, Arc::new(LargeStringArray::from(vals))),
        _ => (DataType::Utf8, Arc::new(StringArray::from(vals))),
    }
}

fn file_batch(f: &Value, pool: &[String]) -> RecordBatch {
    use arrow::buffer::{NullBuffer, OffsetBuffer};
    let v = &f["v"];
    // logical row <<a, b, s, p, q, sn, u, t, m>>
    let rows = spec_rows(&f["rows"], pool);
    let n = rows.len();
    let ints = |c: usize| rows.iter().map(|r| r[c].as_i64()).collect::<Vec<_>>();
    let strs = |c: usize| rows.iter().map(|r| r[c].as_str().map(|s| s.to_string())).collect::<Vec<_>>();
    let mut cols: Vec<(String, DataType, ArrayRef)> = vec![];
    if v["ha"] == true { let (t, a) = int_array(v["ta"].as_str().unwrap(), ints(0)); cols.push(("a".into(), t, a)); }
    if v["hb"] == true { let (t, a) = int_array(v["tb"].as_str().unwrap(), ints(1)); cols.push(("b".into(), t, a)); }
    if v["hs"] == true {
        let (t, a) = match v["ts"].as_str().unwrap() {
            "dict" => {
                let t = DataType::Dictionary(Box::new(DataType::Int32), Box::new(DataType::Utf8));
                let a = arrow::compute::cast(&(Arc::new(StringArray::from(strs(2))) as ArrayRef), &t).unwrap();
                (t, a)
            }
            o => str_array(o, strs(2)),
        };
        cols.push(("s".into(), t, a));
    }
    // struct{p,q,r?} fields in the file's order
    let struct_fields = |with_in: bool| -> Vec<(Arc<Field>, ArrayRef)> {
        let mut fs: Vec<(Arc<Field>, ArrayRef)> = vec![];
        for ch in v["stv"].as_str().unwrap().chars() {
            match ch {
                'p' => fs.push((Arc::new(Field::new("p", DataType::Int64, true)), Arc::new(Int64Array::from(ints(3))))),
                'q' => fs.push((Arc::new(Field::new("q", DataType::Utf8, true)), Arc::new(StringArray::from(strs(4))))),
                _ => fs.push((Arc::new(Field::new("r", DataType::Int64, true)), Arc::new(Int64Array::from(vec![Some(7i64); n])))),
            }
        }
        let inv = v["inv"].as_str().unwrap();
        if with_in && inv != "none" {
            let mut inner: Vec<(Arc<Field>, ArrayRef)> = vec![];
            for ch in inv.chars() {
                match ch {
                    'u' => inner.push((Arc::new(Field::new("u", DataType::Int64, true)), Arc::new(Int64Array::from(ints(6))))),
                    'w' => inner.push((Arc::new(Field::new("w", DataType::Int64, true)), Arc::new(Int64Array::from(ints(1))))),
                    _ => inner.push((Arc::new(Field::new("z", DataType::Utf8, true)), Arc::new(StringArray::from(vec![Some("z"); n])))),
                }
            }
            let sa = StructArray::from(inner);
            fs.insert(fs.len() / 2, (Arc::new(Field::new("in", sa.data_type().clone(), true)), Arc::new(sa)));
        }
        fs
    };
    if v["hst"] == true {
        let fs = struct_fields(true);
        let fields: Fields = fs.iter().map(|(f, _)| f.clone()).collect::<Vec<_>>().into();
        let arrays: Vec<ArrayRef> = fs.into_iter().map(|(_, a)| a).collect();
        let valid: Vec<bool> = rows.iter().map(|r| r[5] != true).collect();
        let sa = StructArray::try_new(fields, arrays, Some(NullBuffer::from(valid))).unwrap();
        cols.push(("st".into(), sa.data_type().clone(), Arc::new(sa)));
    }
    if v["hls"] == true {
        let sa = StructArray::from(struct_fields(false));
        let item = Arc::new(Field::new("item", sa.data_type().clone(), true));
        let la = ListArray::try_new(item, OffsetBuffer::from_lengths(std::iter::repeat(1).take(n)), Arc::new(sa), None).unwrap();
        cols.push(("ls".into(), la.data_type().clone(), Arc::new(la)));
    }
    if v["ht"] == true {
        let sec = ints(7);
        let a: ArrayRef = match v["tt"].as_str().unwrap() {
            "s" => Arc::new(TimestampSecondArray::from(sec)),
            "ms" => Arc::new(TimestampMillisecondArray::from(sec.iter().map(|x| x.map(|y| y * 1000)).collect::<Vec<_>>())),
            "ms_utc" => Arc::new(TimestampMillisecondArray::from(sec.iter().map(|x| x.map(|y| y * 1000)).collect::<Vec<_>>()).with_timezone("UTC")),
            "ns" => Arc::new(TimestampNanosecondArray::from(sec.iter().map(|x| x.map(|y| y * 1_000_000_000)).collect::<Vec<_>>())),
            _ => Arc::new(TimestampMicrosecondArray::from(sec.iter().map(|x| x.map(|y| y * 1_000_000)).collect::<Vec<_>>())),
        };
        cols.push(("t".into(), a.data_type().clone(), a));
    }
    if v["hm"] == true {
        let (p, sc) = match v["tm"].as_str().unwrap() { "5_1" => (5u8, 1i8), "7_2" => (7, 2), _ => (10, 2) };
        let a = Decimal128Array::from(ints(8).iter().map(|x| x.map(|y| (y as i128) * 10i128.pow(sc as u32))).collect::<Vec<_>>())
            .with_precision_and_scale(p, sc).unwrap();
        cols.push(("m".into(), a.data_type().clone(), Arc::new(a)));
    }
    if v["extra"] == true || cols.is_empty() {
        cols.push(("x".into(), DataType::Int64, Arc::new(Int64Array::from(vec![Some(99i64); n]))));
    }
    // column order: rotate / reverse by the permutation code
    let code = v["order"].as_u64().unwrap() as usize;
    let k = cols.len();
    cols.rotate_left(code % k);
    if code >= 3 { cols.reverse(); }
    let schema = Arc::new(Schema::new(cols.iter().map(|(n, t, _)| Field::new(n, t.clone(), true)).collect::<Vec<_>>()));
    RecordBatch::try_new(schema, cols.into_iter().map(|c| c.2).collect()).unwrap()
}

/// the same logical file as NDJSON: keys present per variant (missing columns, struct fields reordered /
/// missing / extra, NULL structs, nested struct, list of struct, timestamp as text, decimal as number)
fn file_ndjson(f: &Value, pool: &[String]) -> String {
    let v = &f["v"];
    let rows = spec_rows(&f["rows"], pool);
    let mut out = String::new();
    for r in &rows {
        let mut parts: Vec<String> = vec![];
        let kv = |k: &str, x: &Value| format!("\"{k}\":{x}");
        let struct_text = |with_in: bool| -> String {
            let mut fs: Vec<String> = vec![];
            for ch in v["stv"].as_str().unwrap().chars() {
                match ch { 'p' => fs.push(kv("p", &r[3])), 'q' => fs.push(kv("q", &r[4])), _ => fs.push("\"r\":7".into()) }
            }
            let inv = v["inv"].as_str().unwrap();
            if with_in && inv != "none" {
                let inner: Vec<String> = inv.chars().map(|ch| match ch { 'u' => kv("u", &r[6]), 'w' => kv("w", &r[1]), _ => "\"z\":\"z\"".into() }).collect();
                fs.insert(fs.len() / 2, format!("\"in\":{{{}}}", inner.join(",")));
            }
            format!("{{{}}}", fs.join(","))
        };
        if v["ha"] == true { parts.push(kv("a", &r[0])); }
        if v["hb"] == true { parts.push(kv("b", &r[1])); }
        if v["hs"] == true { parts.push(kv("s", &r[2])); }
        if v["hst"] == true { parts.push(if r[5] == true { "\"st\":null".into() } else { format!("\"st\":{}", struct_text(true)) }); }
        if v["hls"] == true { parts.push(format!("\"ls\":[{}]", struct_text(false))); }
        if v["ht"] == true {
            parts.push(match r[7].as_i64() { Some(x) => format!("\"t\":\"1970-01-01T00:{:02}:{:02}\"", x / 60, x % 60), None => "\"t\":null".into() });
        }
        if v["hm"] == true { parts.push(kv("m", &r[8])); }
        if v["extra"] == true || parts.is_empty() { parts.push("\"x\":99".into()); }
        let code = v["order"].as_u64().unwrap() as usize;
        let k = parts.len();
        parts.rotate_left(code % k);
        if code >= 3 { parts.reverse(); }
        out.push_str(&format!("{{{}}}\n", parts.join(",")));
    }
    out
}

fn table_schema(view: bool) -> Arc<Schema> {
    use arrow::datatypes::TimeUnit;
    let inner = DataType::Struct(Fields::from(vec![Field::new("u", DataType::Int64, true), Field::new("w", DataType::Int64, true)]));
    let pq = |with_in: bool| {
        let mut f = vec![Field::new("p", DataType::Int64, true), Field::new("q", DataType::Utf8, true)];
        if with_in { f.push(Field::new("in", inner.clone(), true)); }
        DataType::Struct(Fields::from(f))
    };
    Arc::new(Schema::new(vec![
        Field::new("a", DataType::Int64, true),
        Field::new("b", DataType::Int32, true),
        Field::new("s", if view { DataType::Utf8View } else { DataType::Utf8 }, true),
        Field::new("st", pq(true), true),
        Field::new("ls", DataType::List(Arc::new(Field::new("item", pq(false), true))), true),
        Field::new("t", DataType::Timestamp(TimeUnit::Microsecond, None), true),
        Field::new("m", DataType::Decimal128(10, 2), true),
    ]))
}

/// specification row -> query row (t in microseconds)
fn out_rows(v: &Value, pool: &[String]) -> Vec<Vec<Value>> {
    spec_rows(v, pool).into_iter().map(|mut r| { if let Some(x) = r[10].as_i64() { r[10] = json!(x * 1_000_000); } r }).collect()
}
const OUT: &str = "a, b, s, st['p'], st['q'], (st IS NULL), st['in']['u'], st['in']['w'], ls[1]['p'], ls[1]['q'], CAST(t AS BIGINT), CAST(m AS BIGINT)";

async fn one_case(acc: &mut Acc, case: &Value) {
    let pool = pool_of(case);
    let expected = out_rows(&case["expect"], &pool);
    let all = out_rows(&case["all"], &pool);
    let view = case["tview"].as_bool().unwrap_or(false);
    let pred = case["sql"].as_str().unwrap();
    let json_fmt = case["fmt"].as_str() == Some("json");
    acc.bump(if json_fmt { "format_ndjson" } else { "format_parquet" }, 1);
    let mem: Arc<dyn ObjectStore> = Arc::new(InMemory::new());
    for (i, f) in case["files"].as_array().unwrap().iter().enumerate() {
        let b = file_batch(f, &pool);
        let lay = json!({"rg": case["rg"], "pg": 2, "stats": "page", "bloom": false, "dict": i % 2 == 0});
        if json_fmt {
            mem.put(&Path::from(format!("t/f{i}.json")), PutPayload::from(Bytes::from(file_ndjson(f, &pool)))).await.unwrap();
        } else {
            let data = crate::c24::write_parquet(&b, &lay);
            mem.put(&Path::from(format!("t/f{i}.parquet")), PutPayload::from(Bytes::from(data))).await.unwrap();
        }
    }
    for f in case["files"].as_array().unwrap() {
        let v = &f["v"];
        for k in ["ta", "tb", "ts", "stv", "inv", "tt", "tm"] { acc.bump(&format!("variant_{k}_{}", v[k].as_str().unwrap()), 1); }
        for k in ["ha", "hb", "hs", "hst", "hls", "ht", "hm", "extra"] { if v[k] != true { acc.bump(&format!("variant_without_{k}"), 1); } }
        if f["rows"].as_array().unwrap().iter().any(|r| r[5]["v"] == 1) && v["hst"] == true { acc.bump("files_with_null_struct_rows", 1); }
    }
    if view { acc.bump("table_with_utf8view", 1); }
    for cfg_bits in case["configs"].as_array().unwrap() {
        let mut cfg = SessionConfig::new().with_target_partitions(cfg_bits["tp"].as_u64().unwrap_or(1) as usize).with_batch_size(3);
        for s in ["pushdown_filters", "reorder_filters", "enable_page_index", "pruning", "schema_force_view_types"] {
            cfg = cfg.set_bool(&format!("datafusion.execution.parquet.{s}"), cfg_bits[s].as_bool().unwrap_or(false));
        }
        let ctx = SessionContext::new_with_config(cfg);
        ctx.register_object_store(&url::Url::parse("mem://c44").unwrap(), mem.clone());
        let url = ListingTableUrl::parse("mem://c44/t/").unwrap();
        let opts = if json_fmt {
            ListingOptions::new(Arc::new(datafusion::datasource::file_format::json::JsonFormat::default())).with_file_extension(".json")
        } else {
            ListingOptions::new(Arc::new(ParquetFormat::default())).with_file_extension(".parquet")
        };
        let config = ListingTableConfig::new(url).with_listing_options(opts).with_schema(table_schema(view));
        let base = json!({"kind":"schema","case":case,"config":cfg_bits});
        let table = match ListingTable::try_new(config) { Ok(t) => t, Err(e) => { acc.tool_errors.push(format!("table: {e}")); return; } };
        ctx.register_table("t", Arc::new(table)).unwrap();
        for (sql, want, kind) in [
            (format!("SELECT {OUT} FROM t WHERE {pred}"), &expected, "filter"),
            (format!("SELECT {OUT} FROM t"), &all, "all"),
            (format!("SELECT s, a FROM t WHERE {pred}"), &expected, "proj"),
        ] {
            acc.evaluations += 1;
            let r: Result<Vec<RecordBatch>, String> = async {
                let df = ctx.sql(&sql).await.map_err(|e| format!("sql: {e}"))?;
                df.collect().await.map_err(|e| format!("collect: {e}"))
            }.await;
            match r {
                Err(e) => {
                    let mut v = base.clone();
                    v["sql"] = json!(sql); v["error"] = json!(e);
                    v["message"] = json!(format!("scan of files with differing schemas failed: {e}"));
                    acc.violation(v);
                }
                Ok(batches) => {
                    let got = batches_rows(&batches);
                    let want_rows: Vec<Vec<Value>> = if kind == "proj" { want.iter().map(|r| vec![r[2].clone(), r[0].clone()]).collect() } else { want.clone() };
                    let (mi, ex) = bag_diff(&want_rows, &got);
                    // result types are the table schema's types
                    let mut type_problem = None;
                    if kind != "proj" {
                        if let Some(b) = batches.first() {
                            let t: Vec<DataType> = b.schema().fields().iter().map(|f| f.data_type().clone()).collect();
                            let ok = t[0] == DataType::Int64 && t[1] == DataType::Int32 && (if view { t[2] == DataType::Utf8View } else { matches!(t[2], DataType::Utf8 | DataType::Utf8View) })
                                && t[3] == DataType::Int64 && matches!(t[4], DataType::Utf8 | DataType::Utf8View) && t[6] == DataType::Int64 && t[8] == DataType::Int64;
                            if !ok { type_problem = Some(format!("{t:?}")); }
                        }
                    }
                    if !want.is_empty() && want.len() < all.len() {
                        acc.nontrivial.insert(format!("{}|{}|{}|{}", serde_json::to_string(&case["files"]).unwrap(), pred, cfg_bits, kind));
                    }
                    if acc.samples.len() < 2 && kind == "filter" && !want.is_empty() && want.len() < all.len() {
                        acc.samples.push(json!({"sql":sql,"config":cfg_bits,"file_variants":case["files"].as_array().unwrap().iter().map(|f| f["v"].clone()).collect::<Vec<_>>(),"expected":want,"got":got}));
                    }
                    if !mi.is_empty() || !ex.is_empty() || type_problem.is_some() {
                        let mut v = base.clone();
                        v["sql"] = json!(sql); v["missing_rows"] = json!(mi); v["unexpected_rows"] = json!(ex); v["result_types"] = json!(type_problem);
                        v["message"] = json!(format!("rows read through the table schema differ from Filter(Adapt(file rows)) ({kind}): {} missing, {} unexpected{}", mi.len(), ex.len(),
                            if type_problem.is_some() {"; result column types are not the table schema's"} else {""}));
                        acc.violation(v);
                    }
                }
            }
        }
    }
}

pub fn main() {
    crate::run_cases("schema", |c| Box::pin(async move { let mut a = Acc::default(); one_case(&mut a, &c).await; a }));
}
