//! C44 — files with a differing schema are read faithfully into the table schema
//! (spec/files/SchemaAdapt.tla).  Every TLC case = two Parquet files with physical-schema variants
//! (columns reordered / missing / extra, narrower or wider integer types, Utf8 vs LargeUtf8, struct
//! fields reordered / missing / extra) + a predicate; read through a ListingTable with the explicit
//! table schema with and without filter pushdown; rows (struct flattened) must equal
//! Filter(Adapt(rows)) and the result schema must be the table schema's types.
use crate::util::*;
use arrow::array::*;
use arrow::datatypes::{DataType, Field, Fields, Schema};
use arrow::record_batch::RecordBatch;
use bytes::Bytes;
use datafusion::datasource::file_format::parquet::ParquetFormat;
use datafusion::datasource::listing::{ListingOptions, ListingTable, ListingTableConfig, ListingTableUrl};
use datafusion::prelude::*;
use object_store::memory::InMemory;
use object_store::path::Path;
use object_store::{ObjectStore, ObjectStoreExt, PutPayload};
use serde_json::{json, Value};
use std::sync::Arc;

fn int_array(t: &str, vals: Vec<Option<i64>>) -> (DataType, ArrayRef) {
    match t {
        "i8" => (DataType::Int8, Arc::new(Int8Array::from(vals.iter().map(|v| v.map(|x| x as i8)).collect::<Vec<_>>()))),
        "i32" => (DataType::Int32, Arc::new(Int32Array::from(vals.iter().map(|v| v.map(|x| x as i32)).collect::<Vec<_>>()))),
        _ => (DataType::Int64, Arc::new(Int64Array::from(vals))),
    }
}
fn str_array(t: &str, vals: Vec<Option<String>>) -> (DataType, ArrayRef) {
    match t {
        "large" => (DataType::LargeUtf8, Arc::new(LargeStringArray::from(vals))),
        _ => (DataType::Utf8, Arc::new(StringArray::from(vals))),
    }
}

fn file_batch(f: &Value, pool: &[String]) -> RecordBatch {
    let v = &f["v"];
    let rows = spec_rows(&f["rows"], pool);
    let ints = |c: usize| rows.iter().map(|r| r[c].as_i64()).collect::<Vec<_>>();
    let strs = |c: usize| rows.iter().map(|r| r[c].as_str().map(|s| s.to_string())).collect::<Vec<_>>();
    let mut cols: Vec<(String, DataType, ArrayRef)> = vec![];
    if v["ha"] == true { let (t, a) = int_array(v["ta"].as_str().unwrap(), ints(0)); cols.push(("a".into(), t, a)); }
    if v["hb"] == true { let (t, a) = int_array(v["tb"].as_str().unwrap(), ints(1)); cols.push(("b".into(), t, a)); }
    if v["hs"] == true { let (t, a) = str_array(v["ts"].as_str().unwrap(), strs(2)); cols.push(("s".into(), t, a)); }
    if v["hst"] == true {
        let mut fs: Vec<(Arc<Field>, ArrayRef)> = vec![];
        for ch in v["stv"].as_str().unwrap().chars() {
            match ch {
                'p' => fs.push((Arc::new(Field::new("p", DataType::Int64, true)), Arc::new(Int64Array::from(ints(3))))),
                'q' => fs.push((Arc::new(Field::new("q", DataType::Utf8, true)), Arc::new(StringArray::from(strs(4))))),
                _ => fs.push((Arc::new(Field::new("r", DataType::Int64, true)), Arc::new(Int64Array::from(vec![Some(7i64); rows.len()])))),
            }
        }
        let sa = StructArray::from(fs);
        cols.push(("st".into(), sa.data_type().clone(), Arc::new(sa)));
    }
    if v["extra"] == true || cols.is_empty() {
        cols.push(("x".into(), DataType::Int64, Arc::new(Int64Array::from(vec![Some(99i64); rows.len()]))));
    }
    // column order: rotate / reverse by the permutation code
    let code = v["order"].as_u64().unwrap() as usize;
    let n = cols.len();
    cols.rotate_left(code % n);
    if code >= 3 { cols.reverse(); }
    let schema = Arc::new(Schema::new(cols.iter().map(|(n, t, _)| Field::new(n, t.clone(), true)).collect::<Vec<_>>()));
    RecordBatch::try_new(schema, cols.into_iter().map(|c| c.2).collect()).unwrap()
}

fn table_schema() -> Arc<Schema> {
    Arc::new(Schema::new(vec![
        Field::new("a", DataType::Int64, true),
        Field::new("b", DataType::Int32, true),
        Field::new("s", DataType::Utf8, true),
        Field::new("st", DataType::Struct(Fields::from(vec![Field::new("p", DataType::Int64, true), Field::new("q", DataType::Utf8, true)])), true),
    ]))
}

async fn one_case(acc: &mut Acc, case: &Value) {
    let pool = pool_of(case);
    let expected = spec_rows(&case["expect"], &pool);
    let all = spec_rows(&case["all"], &pool);
    let pred = case["sql"].as_str().unwrap();
    let mem: Arc<dyn ObjectStore> = Arc::new(InMemory::new());
    for (i, f) in case["files"].as_array().unwrap().iter().enumerate() {
        let b = file_batch(f, &pool);
        let lay = json!({"rg": case["rg"], "pg": 2, "stats": "page", "bloom": false, "dict": i % 2 == 0});
        let data = crate::c24::write_parquet(&b, &lay);
        mem.put(&Path::from(format!("t/f{i}.parquet")), PutPayload::from(Bytes::from(data))).await.unwrap();
    }
    for cfg_bits in case["configs"].as_array().unwrap() {
        let mut cfg = SessionConfig::new().with_target_partitions(cfg_bits["tp"].as_u64().unwrap_or(1) as usize).with_batch_size(3);
        for s in ["pushdown_filters", "reorder_filters", "enable_page_index", "pruning", "schema_force_view_types"] {
            cfg = cfg.set_bool(&format!("datafusion.execution.parquet.{s}"), cfg_bits[s].as_bool().unwrap_or(false));
        }
        let ctx = SessionContext::new_with_config(cfg);
        ctx.register_object_store(&url::Url::parse("mem://c44").unwrap(), mem.clone());
        let url = ListingTableUrl::parse("mem://c44/t/").unwrap();
        let opts = ListingOptions::new(Arc::new(ParquetFormat::default())).with_file_extension(".parquet");
        let config = ListingTableConfig::new(url).with_listing_options(opts).with_schema(table_schema());
        let base = json!({"kind":"schema","case":case,"config":cfg_bits});
        let table = match ListingTable::try_new(config) { Ok(t) => t, Err(e) => { acc.tool_errors.push(format!("table: {e}")); return; } };
        ctx.register_table("t", Arc::new(table)).unwrap();
        for (sql, want, kind) in [
            (format!("SELECT a, b, s, st['p'], st['q'] FROM t WHERE {pred}"), &expected, "filter"),
            ("SELECT a, b, s, st['p'], st['q'] FROM t".to_string(), &all, "all"),
            (format!("SELECT s, a FROM t WHERE {pred}"), &expected, "proj"),
        ] {
            acc.evaluations += 1;
            let r: Result<Vec<RecordBatch>, String> = async {
                let df = ctx.sql(&sql).await.map_err(|e| format!("sql: {e}"))?;
                df.collect().await.map_err(|e| format!("collect: {e}"))
            }.await;
            match r {
                Err(e) => {
                    let mut v = base.clone();
                    v["sql"] = json!(sql); v["error"] = json!(e);
                    v["message"] = json!(format!("scan of files with differing schemas failed: {e}"));
                    acc.violation(v);
                }
                Ok(batches) => {
                    let got = batches_rows(&batches);
                    let want_rows: Vec<Vec<Value>> = if kind == "proj" { want.iter().map(|r| vec![r[2].clone(), r[0].clone()]).collect() } else { want.clone() };
                    let (mi, ex) = bag_diff(&want_rows, &got);
                    // result types are the table schema's types
                    let mut type_problem = None;
                    if kind != "proj" {
                        if let Some(b) = batches.first() {
                            let t: Vec<DataType> = b.schema().fields().iter().map(|f| f.data_type().clone()).collect();
                            let ok = t[0] == DataType::Int64 && t[1] == DataType::Int32 && matches!(t[2], DataType::Utf8 | DataType::Utf8View) && t[3] == DataType::Int64 && matches!(t[4], DataType::Utf8 | DataType::Utf8View);
                            if !ok { type_problem = Some(format!("{t:?}")); }
                        }
                    }
                    if !want.is_empty() && want.len() < all.len() {
                        acc.nontrivial.insert(format!("{}|{}|{}|{}", serde_json::to_string(&case["files"]).unwrap(), pred, cfg_bits, kind));
                    }
                    if acc.samples.len() < 2 && kind == "filter" && !want.is_empty() && want.len() < all.len() {
                        acc.samples.push(json!({"sql":sql,"config":cfg_bits,"file_variants":case["files"].as_array().unwrap().iter().map(|f| f["v"].clone()).collect::<Vec<_>>(),"expected":want,"got":got}));
                    }
                    if !mi.is_empty() || !ex.is_empty() || type_problem.is_some() {
                        let mut v = base.clone();
                        v["sql"] = json!(sql); v["missing_rows"] = json!(mi); v["unexpected_rows"] = json!(ex); v["result_types"] = json!(type_problem);
                        v["message"] = json!(format!("rows read through the table schema differ from Filter(Adapt(file rows)) ({kind}): {} missing, {} unexpected{}", mi.len(), ex.len(),
                            if type_problem.is_some() {"; result column types are not the table schema's"} else {""}));
                        acc.violation(v);
                    }
                }
            }
        }
    }
}

pub fn main() {
    crate::run_cases("schema", |c| Box::pin(async move { let mut a = Acc::default(); one_case(&mut a, &c).await; a }));
}
