//! File-level drivers (B3 behaviour replay): byte-range scans, listing tables, writers,
//! Parquet pruning/pushdown, schema adaptation — DESIGN.md §7.4/§7.5.
mod store;
mod util;
mod c26;
mod c27;

fn main() {
    let a: Vec<String> = std::env::args().collect();
    let cmd = a.get(1).map(|s| s.as_str()).unwrap_or("");
    match cmd {
        "c26" => c26::main(),
        "c27" => c27::main(),
        _ => {
            eprintln!("usage: vfiles <c26|c27|c25|c24|c44> [options]");
            std::process::exit(2);
        }
    }
}
