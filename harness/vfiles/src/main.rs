//! File-level drivers (B3 behaviour replay): byte-range scans, listing tables, writers,
//! Parquet pruning/pushdown, schema adaptation — DESIGN.md §7.4/§7.5.
mod store;
mod util;
mod c26;
mod c27;
mod c24;
mod c44;
mod c25;

use serde_json::{json, Value};
use std::future::Future;
use std::pin::Pin;

/// Shared driver loop: read cases (or one replay), run each in its own task (a panic in the
/// code under test is data: reported as a violation of the case), merge, write the result file.
pub fn run_cases(kind: &'static str, f: fn(Value) -> Pin<Box<dyn Future<Output = util::Acc> + Send>>) {
    use vcommon::util::{arg, read_ndjson};
    let rt = tokio::runtime::Builder::new_multi_thread().worker_threads(4).enable_all().build().unwrap();
    let out_path = arg("--out").expect("--out");
    let mut acc = util::Acc::default();
    rt.block_on(async {
        let cases: Vec<Value> = if let Some(rp) = arg("--replay") {
            let v: Value = serde_json::from_str(&std::fs::read_to_string(&rp).unwrap()).unwrap();
            let mut c = v["case"].clone();
            if !v["config"].is_null() { c["configs"] = json!([v["config"]]); }
            vec![c]
        } else {
            read_ndjson(&arg("--cases").expect("--cases"))
        };
        for c in cases {
            let c2 = c.clone();
            match tokio::spawn(f(c2)).await {
                Ok(a) => {
                    acc.evaluations += a.evaluations;
                    for v in a.violations { acc.violation(v); }
                    acc.tool_errors.extend(a.tool_errors);
                    for s in a.samples { if acc.samples.len() < 3 { acc.samples.push(s); } }
                    acc.nontrivial.extend(a.nontrivial);
                    for (k, n) in a.counters { if k != "violations_total" { acc.bump(&k, n); } }
                }
                Err(j) => acc.violation(json!({"kind":kind,"case":c,"message":format!("panic in the code under test: {j}")})),
            }
        }
    });
    acc.finish(&out_path);
}

fn main() {
    let a: Vec<String> = std::env::args().collect();
    let cmd = a.get(1).map(|s| s.as_str()).unwrap_or("");
    match cmd {
        "c26" => c26::main(),
        "c27" => c27::main(),
        "c24" => c24::main(),
        "c44" => c44::main(),
        "c25" => c25::main(),
        _ => {
            eprintln!("usage: vfiles <c26|c27|c24|c44|c25> [options]");
            std::process::exit(2);
        }
    }
}
