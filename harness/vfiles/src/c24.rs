//! C24 — Parquet scans with pruning and pushdown return exactly the matching rows
//! (spec/files/ParquetScan.tla).  Each TLC case <rows, writer layout, predicate, expected rows> is
//! written with ArrowWriter (row-group size, page row limit, statistics level, bloom filters,
//! dictionary) and scanned under several combinations of the datafusion.execution.parquet.*
//! reader switches; results are compared with the specification:
//!   Q1 full rows + file_row_index()  = Expect (bag)        Q2 projection without filter columns
//!   Q3 LIMIT k  : k' = min(k,|Expect|) rows, sub-bag        Q4 ORDER BY a [DESC] LIMIT k (TopK /
//!   dynamic filter): key sequence = first k sorted keys of Expect, rows sub-bag of Expect.
use crate::util::*;
use arrow::array::{Array, ArrayRef, Int64Array, StringArray};
use arrow::datatypes::{DataType, Field, Schema};
use arrow::record_batch::RecordBatch;
use bytes::Bytes;
use datafusion::prelude::*;
use object_store::memory::InMemory;
use object_store::path::Path;
use object_store::{ObjectStore, ObjectStoreExt, PutPayload};
use parquet::arrow::ArrowWriter;
use parquet::file::properties::{EnabledStatistics, WriterProperties};
use serde_json::{json, Value};
use std::sync::Arc;

pub fn write_parquet(batch: &RecordBatch, lay: &Value) -> Vec<u8> {
    let stats = match lay["stats"].as_str().unwrap_or("page") { "none" => EnabledStatistics::None, "chunk" => EnabledStatistics::Chunk, _ => EnabledStatistics::Page };
    let props = WriterProperties::builder()
        .set_max_row_group_row_count(Some(lay["rg"].as_u64().unwrap_or(1024) as usize))
        .set_data_page_row_count_limit(lay["pg"].as_u64().unwrap_or(1024) as usize)
        .set_write_batch_size(1)
        .set_statistics_enabled(stats)
        .set_bloom_filter_enabled(lay["bloom"].as_bool().unwrap_or(false))
        .set_dictionary_enabled(lay["dict"].as_bool().unwrap_or(true))
        .build();
    let mut buf = vec![];
    let mut w = ArrowWriter::try_new(&mut buf, batch.schema(), Some(props)).expect("writer");
    w.write(batch).expect("write");
    w.close().expect("close");
    buf
}

fn int_col(rows: &[Vec<Value>], c: usize) -> ArrayRef {
    Arc::new(Int64Array::from(rows.iter().map(|r| r[c].as_i64()).collect::<Vec<_>>()))
}
fn str_col(rows: &[Vec<Value>], c: usize) -> ArrayRef {
    Arc::new(StringArray::from(rows.iter().map(|r| r[c].as_str().map(|s| s.to_string())).collect::<Vec<_>>()))
}

/// physical file: a, b, s, st{p, q = s}, l = [a, b]   (logical row <<a, b, s, p>>)
fn file_batch(rows: &[Vec<Value>]) -> RecordBatch {
    use arrow::array::{ListArray, StructArray};
    use arrow::datatypes::Int64Type;
    let st = StructArray::from(vec![
        (Arc::new(Field::new("p", DataType::Int64, true)), int_col(rows, 3)),
        (Arc::new(Field::new("q", DataType::Utf8, true)), str_col(rows, 2)),
    ]);
    let l = ListArray::from_iter_primitive::<Int64Type, _, _>(rows.iter().map(|r| Some(vec![r[0].as_i64(), r[1].as_i64()])));
    let schema = Arc::new(Schema::new(vec![
        Field::new("a", DataType::Int64, true), Field::new("b", DataType::Int64, true), Field::new("s", DataType::Utf8, true),
        Field::new("st", st.data_type().clone(), true), Field::new("l", l.data_type().clone(), true),
    ]));
    RecordBatch::try_new(schema, vec![int_col(rows, 0), int_col(rows, 1), str_col(rows, 2), Arc::new(st), Arc::new(l)]).unwrap()
}

const SWITCHES: [&str; 7] = ["pushdown_filters", "reorder_filters", "enable_page_index", "pruning", "bloom_filter_on_read", "force_filter_selections", "schema_force_view_types"];

async fn session(cfg_bits: &Value, files: &[Vec<u8>], tp: usize, declare_order: bool) -> SessionContext {
    let mut cfg = SessionConfig::new().with_target_partitions(tp).with_batch_size(3)
        .set_bool("datafusion.execution.collect_statistics", cfg_bits["collect_statistics"].as_bool().unwrap_or(true))
        .set_bool("datafusion.execution.enable_file_stream_work_stealing", cfg_bits["work_stealing"].as_bool().unwrap_or(true));
    for s in SWITCHES {
        cfg = cfg.set_bool(&format!("datafusion.execution.parquet.{s}"), cfg_bits[s].as_bool().unwrap_or(false));
    }
    if cfg_bits["predicate_cache_zero"].as_bool().unwrap_or(false) {
        cfg = cfg.set_usize("datafusion.execution.parquet.max_predicate_cache_size", 0);
    }
    if cfg_bits["small_metadata_hint"].as_bool().unwrap_or(false) {
        cfg = cfg.set_usize("datafusion.execution.parquet.metadata_size_hint", 16);
    }
    let ctx = SessionContext::new_with_config(cfg);
    let mem: Arc<dyn ObjectStore> = Arc::new(InMemory::new());
    for (i, data) in files.iter().enumerate() {
        mem.put(&Path::from(format!("t/f{i}.parquet")), PutPayload::from(Bytes::from(data.clone()))).await.unwrap();
    }
    ctx.register_object_store(&url::Url::parse("mem://c24").unwrap(), mem);
    let mut opts = ParquetReadOptions::default();
    if declare_order {
        opts = opts.file_sort_order(vec![vec![col("a").sort(true, false)]]);
    }
    ctx.register_parquet("t", "mem://c24/t/", opts).await.expect("register parquet");
    ctx
}

async fn run_sql(ctx: &SessionContext, sql: &str) -> Result<(Vec<Vec<Value>>, String), String> {
    let df = ctx.sql(sql).await.map_err(|e| format!("sql: {e}"))?;
    let plan = df.create_physical_plan().await.map_err(|e| format!("plan: {e}"))?;
    let batches = datafusion::physical_plan::collect(plan.clone(), ctx.task_ctx()).await.map_err(|e| format!("collect: {e}"))?;
    let m = datafusion::physical_plan::display::DisplayableExecutionPlan::with_metrics(plan.as_ref()).indent(true).to_string();
    Ok((batches_rows(&batches), m))
}

/// sum over all occurrences of `name=<x>` (plain counter) or `name=<x> total → <y> matched` (pruned = x - y)
fn metric(m: &str, name: &str) -> u64 {
    let mut total = 0;
    let pat = format!("{name}=");
    for part in m.split(pat.as_str()).skip(1) {
        let num: String = part.chars().take_while(|c| c.is_ascii_digit()).collect();
        let x = num.parse::<u64>().unwrap_or(0);
        let rest = &part[num.len()..];
        if let Some(r2) = rest.strip_prefix(" total → ") {
            let y: String = r2.chars().take_while(|c| c.is_ascii_digit()).collect();
            total += x.saturating_sub(y.parse::<u64>().unwrap_or(0));
        } else {
            total += x;
        }
    }
    total
}

const METRICS: [&str; 12] = ["files_ranges_pruned_statistics", "row_groups_pruned_statistics", "row_groups_pruned_bloom_filter",
    "row_groups_pruned_dynamic_filter", "page_index_pages_pruned", "page_index_rows_pruned", "page_index_pages_skipped_by_fully_matched",
    "limit_pruned_row_groups", "pushdown_rows_pruned", "pushdown_rows_matched", "predicate_cache_records", "page_index_load_skipped"];

fn sort_keys(keys: &mut Vec<Option<i64>>, desc: bool) {
    keys.sort_by(|x, y| match (x, y) { (None, None) => std::cmp::Ordering::Equal, (None, _) => std::cmp::Ordering::Greater, (_, None) => std::cmp::Ordering::Less,
        (Some(x), Some(y)) => if desc { y.cmp(x) } else { x.cmp(y) } });
}

async fn one_case(acc: &mut Acc, case: &Value) {
    let pool = pool_of(case);
    let files_rows: Vec<Vec<Vec<Value>>> = case["files"].as_array().unwrap().iter().map(|f| spec_rows(f, &pool)).collect();
    let nrows: usize = files_rows.iter().map(|f| f.len()).sum();
    // specification rows <<ri, a, b, s, p>> -> query shape <<ri, a, b, s, st.p, st.q, l[1], l[2]>>
    let expected: Vec<Vec<Value>> = spec_rows(&case["expect"], &pool).into_iter()
        .map(|r| vec![r[0].clone(), r[1].clone(), r[2].clone(), r[3].clone(), r[4].clone(), r[3].clone(), r[1].clone(), r[2].clone()]).collect();
    let data: Vec<Vec<u8>> = files_rows.iter().map(|rows| write_parquet(&file_batch(rows), &case["lay"])).collect();
    let pred = case["sql"].as_str().unwrap();
    let k = case["k"].as_u64().unwrap_or(2) as usize;
    let j = case["j"].as_i64().unwrap_or(2);
    let desc = case["desc"].as_bool().unwrap_or(false);
    let n_exp = expected.len();
    let sorted_files = case["arrange"].as_array().unwrap().iter().take(files_rows.len()).all(|a| a == "sorted" || a == "clustered");
    const COLS: &str = "file_row_index() AS ri, a, b, s, st['p'], st['q'], l[1], l[2]";
    for cfg_bits in case["configs"].as_array().unwrap() {
        let tp = cfg_bits["tp"].as_u64().unwrap_or(1) as usize;
        let declare = sorted_files && cfg_bits["declare_order"].as_bool().unwrap_or(false);
        let ctx = session(cfg_bits, &data, tp, declare).await;
        let base = json!({"kind":"parquet","case":case,"config":cfg_bits});
        let dir = if desc {"DESC"} else {"ASC"};
        let mut queries: Vec<(String, &str)> = vec![
            (format!("SELECT {COLS} FROM t WHERE {pred}"), "full"),
            (format!("SELECT st['q'], l[2] FROM t WHERE {pred}"), "proj"),
            (format!("SELECT {COLS} FROM t WHERE {pred} LIMIT {k}"), "limit"),
            (format!("SELECT {COLS} FROM t WHERE {pred} ORDER BY a {dir} NULLS LAST LIMIT {k}"), "topk"),
            (format!("SELECT {COLS} FROM t WHERE {pred} AND file_row_index() >= {j}"), "rowidx"),
        ];
        if declare {
            queries.push((format!("SELECT {COLS} FROM t WHERE {pred} ORDER BY a {dir} NULLS {}", if desc {"FIRST"} else {"LAST"}), "sorted"));
            acc.bump("declared_order_scans", 1);
        }
        for (sql, kind) in queries {
            acc.evaluations += 1;
            let mut r = run_sql(&ctx, &sql).await;
            // documented: file_row_index() fails when it could not be pushed into the scan; then the
            // rows are still checked, without the row index
            let mut no_ri = false;
            if matches!(&r, Err(e) if e.contains("file_row_index() is source dependent")) && kind != "rowidx" {
                acc.bump("row_index_not_pushed_into_scan", 1);
                no_ri = true;
                r = run_sql(&ctx, &sql.replace("file_row_index() AS ri", "CAST(NULL AS BIGINT) AS ri")).await;
            }
            let (got, m) = match r {
                Ok(x) => x,
                Err(e) => {
                    if kind == "rowidx" && !e.contains("Parquet error") { acc.bump("rowidx_filter_rejected_by_engine", 1); continue; }
                    let mut v = base.clone();
                    v["sql"] = json!(sql); v["error"] = json!(e);
                    v["message"] = json!(format!("Parquet scan failed: {e}"));
                    acc.violation(v);
                    continue;
                }
            };
            let expected_owned: Vec<Vec<Value>> = if no_ri { expected.iter().map(|r| { let mut r = r.clone(); r[0] = Value::Null; r }).collect() } else { expected.clone() };
            let expected = &expected_owned;
            for name in METRICS { acc.bump(&format!("metric_{name}/{kind}"), metric(&m, name)); }
            if m.contains("reverse_row_groups=true") { acc.bump("plans_with_reverse_row_groups", 1); }
            if m.contains("sort_order_for_reorder") { acc.bump("plans_with_sort_order_for_reorder", 1); }
            if kind == "sorted" && !m.contains("SortExec") { acc.bump("sorted_queries_without_sortexec", 1); }
            if m.contains("DynamicFilter") { acc.bump("plans_with_dynamic_filter", 1); }
            if std::env::var("VERIF_DEBUG").is_ok() { eprintln!("{sql}\n{m}"); }
            let problem: Option<String> = match kind {
                "full" => { let (mi, ex) = bag_diff(expected, &got); if mi.is_empty() && ex.is_empty() { None } else { Some(format!("missing {mi:?} unexpected {ex:?}")) } }
                "proj" => {
                    let e: Vec<Vec<Value>> = expected.iter().map(|r| vec![r[5].clone(), r[7].clone()]).collect();
                    let (mi, ex) = bag_diff(&e, &got); if mi.is_empty() && ex.is_empty() { None } else { Some(format!("missing {mi:?} unexpected {ex:?}")) } }
                "rowidx" => {
                    let e: Vec<Vec<Value>> = expected.iter().filter(|r| r[0].as_i64().unwrap() >= j).cloned().collect();
                    let (mi, ex) = bag_diff(&e, &got); if mi.is_empty() && ex.is_empty() { None } else { Some(format!("missing {mi:?} unexpected {ex:?}")) } }
                "limit" => {
                    let (_, ex) = bag_diff(expected, &got);
                    if got.len() != k.min(n_exp) { Some(format!("{} rows, expected {}", got.len(), k.min(n_exp))) } else if !ex.is_empty() { Some(format!("rows not in Filter(all rows): {ex:?}")) } else { None } }
                "sorted" => {
                    // NULLS FIRST for DESC / NULLS LAST for ASC = the reverse / natural declared order
                    let mut keys: Vec<Option<i64>> = expected.iter().map(|r| r[1].as_i64()).collect();
                    sort_keys(&mut keys, false);
                    if desc { keys.reverse(); }
                    let got_keys: Vec<Option<i64>> = got.iter().map(|r| r[1].as_i64()).collect();
                    let (mi, ex) = bag_diff(expected, &got);
                    if got_keys != keys { Some(format!("key sequence {got_keys:?}, expected {keys:?}")) } else if !mi.is_empty() || !ex.is_empty() { Some(format!("missing {mi:?} unexpected {ex:?}")) } else { None } }
                _ => {
                    let mut keys: Vec<Option<i64>> = expected.iter().map(|r| r[1].as_i64()).collect();
                    sort_keys(&mut keys, desc);
                    keys.truncate(k);
                    let got_keys: Vec<Option<i64>> = got.iter().map(|r| r[1].as_i64()).collect();
                    let (_, ex) = bag_diff(expected, &got);
                    if got_keys != keys { Some(format!("key sequence {got_keys:?}, expected {keys:?}")) } else if !ex.is_empty() { Some(format!("rows not in Filter(all rows): {ex:?}")) } else { None } }
            };
            if n_exp > 0 && n_exp < nrows {
                acc.nontrivial.insert(format!("{}|{}|{}|{}|{}", serde_json::to_string(&case["files"]).unwrap(), case["lay"], pred, cfg_bits, kind));
            }
            if acc.samples.len() < 2 && kind == "full" && n_exp > 0 && n_exp < nrows && cfg_bits["pushdown_filters"] == true {
                acc.samples.push(json!({"sql":sql,"layout":case["lay"],"config":cfg_bits,"rows_in_files":nrows,"expected":expected,"got":got,"need_row_groups":case["need_rg"],"row_groups":case["n_rg"]}));
            }
            if let Some(p) = problem {
                let mut v = base.clone();
                v["sql"] = json!(sql); v["query_kind"] = json!(kind); v["got"] = json!(got); v["expected_filter_all"] = json!(expected);
                v["message"] = json!(format!("Parquet scan ({kind}) differs from Filter(all rows): {p}"));
                acc.violation(v);
            }
        }
    }
}

pub fn main() {
    crate::run_cases("parquet", |c| Box::pin(async move { let mut a = Acc::default(); one_case(&mut a, &c).await; a }));
}
