//! C24 — Parquet scans with pruning and pushdown return exactly the matching rows
//! (spec/files/ParquetScan.tla).  Each TLC case <rows, writer layout, predicate, expected rows> is
//! written with ArrowWriter (row-group size, page row limit, statistics level, bloom filters,
//! dictionary) and scanned under several combinations of the datafusion.execution.parquet.*
//! reader switches; results are compared with the specification:
//!   Q1 full rows + file_row_index()  = Expect (bag)        Q2 projection without filter columns
//!   Q3 LIMIT k  : k' = min(k,|Expect|) rows, sub-bag        Q4 ORDER BY a [DESC] LIMIT k (TopK /
//!   dynamic filter): key sequence = first k sorted keys of Expect, rows sub-bag of Expect.
use crate::util::*;
use arrow::array::{ArrayRef, Int64Array, StringArray};
use arrow::datatypes::{DataType, Field, Schema};
use arrow::record_batch::RecordBatch;
use bytes::Bytes;
use datafusion::prelude::*;
use object_store::memory::InMemory;
use object_store::path::Path;
use object_store::{ObjectStore, ObjectStoreExt, PutPayload};
use parquet::arrow::ArrowWriter;
use parquet::file::properties::{EnabledStatistics, WriterProperties};
use serde_json::{json, Value};
use std::sync::Arc;
use vcommon::util::{arg, read_ndjson};

pub fn write_parquet(batch: &RecordBatch, lay: &Value) -> Vec<u8> {
    let stats = match lay["stats"].as_str().unwrap_or("page") { "none" => EnabledStatistics::None, "chunk" => EnabledStatistics::Chunk, _ => EnabledStatistics::Page };
    let props = WriterProperties::builder()
        .set_max_row_group_row_count(Some(lay["rg"].as_u64().unwrap_or(1024) as usize))
        .set_data_page_row_count_limit(lay["pg"].as_u64().unwrap_or(1024) as usize)
        .set_write_batch_size(1)
        .set_statistics_enabled(stats)
        .set_bloom_filter_enabled(lay["bloom"].as_bool().unwrap_or(false))
        .set_dictionary_enabled(lay["dict"].as_bool().unwrap_or(true))
        .build();
    let mut buf = vec![];
    let mut w = ArrowWriter::try_new(&mut buf, batch.schema(), Some(props)).expect("writer");
    w.write(batch).expect("write");
    w.close().expect("close");
    buf
}

fn int_col(rows: &[Vec<Value>], c: usize) -> ArrayRef {
    Arc::new(Int64Array::from(rows.iter().map(|r| r[c].as_i64()).collect::<Vec<_>>()))
}
fn str_col(rows: &[Vec<Value>], c: usize) -> ArrayRef {
    Arc::new(StringArray::from(rows.iter().map(|r| r[c].as_str().map(|s| s.to_string())).collect::<Vec<_>>()))
}

const SWITCHES: [&str; 7] = ["pushdown_filters", "reorder_filters", "enable_page_index", "pruning", "bloom_filter_on_read", "force_filter_selections", "schema_force_view_types"];

async fn session(cfg_bits: &Value, data: &[u8], tp: usize) -> SessionContext {
    let mut cfg = SessionConfig::new().with_target_partitions(tp).with_batch_size(3);
    for s in SWITCHES {
        cfg = cfg.set_bool(&format!("datafusion.execution.parquet.{s}"), cfg_bits[s].as_bool().unwrap_or(false));
    }
    if cfg_bits["predicate_cache_zero"].as_bool().unwrap_or(false) {
        cfg = cfg.set_usize("datafusion.execution.parquet.max_predicate_cache_size", 0);
    }
    let ctx = SessionContext::new_with_config(cfg);
    let mem: Arc<dyn ObjectStore> = Arc::new(InMemory::new());
    mem.put(&Path::from("t/f0.parquet"), PutPayload::from(Bytes::from(data.to_vec()))).await.unwrap();
    ctx.register_object_store(&url::Url::parse("mem://c24").unwrap(), mem);
    ctx.register_parquet("t", "mem://c24/t/", ParquetReadOptions::default()).await.expect("register parquet");
    ctx
}

async fn run_sql(ctx: &SessionContext, sql: &str) -> Result<(Vec<Vec<Value>>, String), String> {
    let df = ctx.sql(sql).await.map_err(|e| format!("sql: {e}"))?;
    let plan = df.create_physical_plan().await.map_err(|e| format!("plan: {e}"))?;
    let batches = datafusion::physical_plan::collect(plan.clone(), ctx.task_ctx()).await.map_err(|e| format!("collect: {e}"))?;
    let m = datafusion::physical_plan::display::DisplayableExecutionPlan::with_metrics(plan.as_ref()).indent(true).to_string();
    Ok((batches_rows(&batches), m))
}

fn metric(m: &str, name: &str) -> u64 {
    // "<name>=<n> total → <k> matched" or "<name>=<n>"
    let mut total = 0;
    for part in m.split(name).skip(1) {
        if let Some(rest) = part.strip_prefix('=') {
            let num: String = rest.chars().take_while(|c| c.is_ascii_digit()).collect();
            total += num.parse::<u64>().unwrap_or(0);
        }
    }
    total
}

async fn one_case(acc: &mut Acc, case: &Value) {
    let pool = pool_of(case);
    let rows = spec_rows(&case["rows"], &pool);
    let expected = spec_rows(&case["expect"], &pool);
    let schema = Arc::new(Schema::new(vec![Field::new("a", DataType::Int64, true), Field::new("b", DataType::Int64, true), Field::new("s", DataType::Utf8, true)]));
    let batch = RecordBatch::try_new(schema, vec![int_col(&rows, 0), int_col(&rows, 1), str_col(&rows, 2)]).unwrap();
    let data = write_parquet(&batch, &case["lay"]);
    let pred = case["sql"].as_str().unwrap();
    let k = case["k"].as_u64().unwrap_or(2) as usize;
    let n_exp = expected.len();
    for cfg_bits in case["configs"].as_array().unwrap() {
        let tp = cfg_bits["tp"].as_u64().unwrap_or(1) as usize;
        let ctx = session(cfg_bits, &data, tp).await;
        let base = json!({"kind":"parquet","case":case,"config":cfg_bits});
        // Q1
        let queries: Vec<(String, &str)> = vec![
            (format!("SELECT file_row_index() AS ri, a, b, s FROM t WHERE {pred}"), "full"),
            (format!("SELECT s FROM t WHERE {pred}"), "proj"),
            (format!("SELECT file_row_index() AS ri, a, b, s FROM t WHERE {pred} LIMIT {k}"), "limit"),
            (format!("SELECT file_row_index() AS ri, a, b, s FROM t WHERE {pred} ORDER BY a {} NULLS LAST LIMIT {k}", if case["desc"].as_bool().unwrap_or(false) {"DESC"} else {"ASC"}), "topk"),
        ];
        for (sql, kind) in queries {
            acc.evaluations += 1;
            let r = run_sql(&ctx, &sql).await;
            let (got, m) = match r {
                Ok(x) => x,
                Err(e) => {
                    let mut v = base.clone();
                    v["sql"] = json!(sql); v["error"] = json!(e);
                    v["message"] = json!(format!("Parquet scan failed: {e}"));
                    acc.violation(v);
                    continue;
                }
            };
            if kind == "full" {
                let rg_pruned = metric(&m, "row_groups_pruned_statistics") ; // total examined; informative only
                acc.bump("metric_row_groups_pruned_statistics_sum", rg_pruned);
                acc.bump("metric_pushdown_rows_pruned_sum", metric(&m, "pushdown_rows_pruned"));
                acc.bump("metric_page_index_rows_pruned_sum", metric(&m, "page_index_rows_pruned"));
                if std::env::var("VERIF_DEBUG").is_ok() { eprintln!("{sql}\n{m}"); }
            }
            let problem: Option<String> = match kind {
                "full" => { let (mi, ex) = bag_diff(&expected, &got); if mi.is_empty() && ex.is_empty() { None } else { Some(format!("missing {mi:?} unexpected {ex:?}")) } }
                "proj" => {
                    let e: Vec<Vec<Value>> = expected.iter().map(|r| vec![r[3].clone()]).collect();
                    let (mi, ex) = bag_diff(&e, &got); if mi.is_empty() && ex.is_empty() { None } else { Some(format!("missing {mi:?} unexpected {ex:?}")) } }
                "limit" => {
                    let (_, ex) = bag_diff(&expected, &got);
                    if got.len() != k.min(n_exp) { Some(format!("{} rows, expected {}", got.len(), k.min(n_exp))) } else if !ex.is_empty() { Some(format!("rows not in Filter(all rows): {ex:?}")) } else { None } }
                _ => {
                    // expected key sequence
                    let desc = case["desc"].as_bool().unwrap_or(false);
                    let mut keys: Vec<Option<i64>> = expected.iter().map(|r| r[1].as_i64()).collect();
                    keys.sort_by(|x, y| match (x, y) { (None, None) => std::cmp::Ordering::Equal, (None, _) => std::cmp::Ordering::Greater, (_, None) => std::cmp::Ordering::Less,
                        (Some(x), Some(y)) => if desc { y.cmp(x) } else { x.cmp(y) } });
                    keys.truncate(k);
                    let got_keys: Vec<Option<i64>> = got.iter().map(|r| r[1].as_i64()).collect();
                    let (_, ex) = bag_diff(&expected, &got);
                    if got_keys != keys { Some(format!("key sequence {got_keys:?}, expected {keys:?}")) } else if !ex.is_empty() { Some(format!("rows not in Filter(all rows): {ex:?}")) } else { None } }
            };
            if n_exp > 0 && n_exp < rows.len() {
                acc.nontrivial.insert(format!("{}|{}|{}|{}|{}", serde_json::to_string(&case["rows"]).unwrap(), case["lay"], pred, cfg_bits, kind));
            }
            if acc.samples.len() < 2 && kind == "full" && n_exp > 0 && n_exp < rows.len() && cfg_bits["pushdown_filters"] == true {
                acc.samples.push(json!({"sql":sql,"layout":case["lay"],"config":cfg_bits,"rows_in_file":rows.len(),"expected":expected,"got":got,"need_row_groups":case["need_rg"],"row_groups":case["n_rg"]}));
            }
            if let Some(p) = problem {
                let mut v = base.clone();
                v["sql"] = json!(sql); v["query_kind"] = json!(kind); v["got"] = json!(got); v["expected_filter_all"] = json!(expected);
                v["message"] = json!(format!("Parquet scan ({kind}) differs from Filter(all rows): {p}"));
                acc.violation(v);
            }
        }
    }
}

pub fn main() {
    crate::run_cases("parquet", |c| Box::pin(async move { let mut a = Acc::default(); one_case(&mut a, &c).await; a }));
}
