//! C25 — written files read back to the data that was written (spec/files/HivePath.tla, Demux.tla, DemuxGen.tla).
//!
//! Every TLC-generated <dataset, write configuration> is written into a fresh directory of the local
//! file system through one of the three public write paths
//!   copy   : COPY (SELECT .. FROM w<k>) TO '<path>' STORED AS <fmt> [PARTITIONED BY (..)] OPTIONS (..)
//!   insert : CREATE EXTERNAL TABLE t (..) STORED AS <fmt> LOCATION '<dir>/' [PARTITIONED BY (..)];
//!            INSERT INTO t SELECT .. FROM w<k>      (one INSERT per element of `writes`)
//!   df     : DataFrame::write_{csv,json,parquet}(path, DataFrameWriteOptions{partition_by, single_file_output}, opts)
//! and read back in a *fresh* SessionContext through CREATE EXTERNAL TABLE (explicit schema) or the
//! ListingTable API.  Oracles (all values come from the specification):
//!   * reported row count of every COPY/INSERT/write_* = rows of that write
//!   * files on disk: single-file output = exactly the path; partitioned = every file lies exactly
//!     len(partition_by) directories deep, in a directory that percent-decodes (decoder written here by
//!     hand) to a partition key of the written rows, and every key has a file
//!   * read-back bag (partition columns from the directory names) = `expect`, column types = declared
//! Not verdicts (counted as drift): directory spelling differs from Encode of the specification while
//! decoding to the same value; number of files differs from the Demux model's prediction.
use crate::util::*;
use arrow::array::{ArrayRef, BooleanArray, Int32Array, Int64Array, StringArray};
use arrow::datatypes::{DataType, Field, Schema, SchemaRef};
use arrow::record_batch::RecordBatch;
use datafusion::dataframe::DataFrameWriteOptions;
use datafusion::datasource::file_format::csv::CsvFormat;
use datafusion::datasource::file_format::json::JsonFormat;
use datafusion::datasource::file_format::parquet::ParquetFormat;
use datafusion::datasource::file_format::FileFormat;
use datafusion::datasource::listing::{ListingOptions, ListingTable, ListingTableConfig, ListingTableUrl};
use datafusion::datasource::MemTable;
use datafusion::error::DataFusionError;
use datafusion::prelude::*;
use datafusion_common::config::{CsvOptions, JsonOptions, TableParquetOptions};
use datafusion_common::parsers::CompressionTypeVariant;
use datafusion_datasource::file_compression_type::FileCompressionType;
use serde_json::{json, Value};
use std::collections::BTreeSet;
use std::path::{Path as FsPath, PathBuf};
use std::str::FromStr;
use std::sync::Arc;

fn dtype(t: &str) -> DataType {
    match t {
        "s" => DataType::Utf8,
        "i" => DataType::Int64,
        "j" => DataType::Int32,
        "b" => DataType::Boolean,
        o => panic!("column type {o}"),
    }
}
fn sqltype(t: &str) -> &'static str {
    match t { "s" => "VARCHAR", "i" => "BIGINT", "j" => "INT", "b" => "BOOLEAN", o => panic!("column type {o}") }
}

struct Col { name: String, t: String }

fn column(t: &str, vals: &[Value]) -> ArrayRef {
    match t {
        "s" => Arc::new(StringArray::from(vals.iter().map(|v| v.as_str().map(|s| s.to_string())).collect::<Vec<_>>())),
        "i" => Arc::new(Int64Array::from(vals.iter().map(|v| v.as_i64()).collect::<Vec<_>>())),
        "j" => Arc::new(Int32Array::from(vals.iter().map(|v| v.as_i64().map(|x| x as i32)).collect::<Vec<_>>())),
        "b" => Arc::new(BooleanArray::from(vals.iter().map(|v| v.as_bool()).collect::<Vec<_>>())),
        o => panic!("column type {o}"),
    }
}

fn batch_of(schema: &SchemaRef, cols: &[Col], rows: &[Vec<Value>]) -> RecordBatch {
    let arrays: Vec<ArrayRef> = cols.iter().enumerate().map(|(c, col)| {
        let vals: Vec<Value> = rows.iter().map(|r| r[c].clone()).collect();
        column(&col.t, &vals)
    }).collect();
    RecordBatch::try_new(schema.clone(), arrays).expect("batch")
}

/// percent-decoder of partition directory values, written by hand (the engine's decoder is not the oracle):
/// %HH with two hex digits is one byte, anything else is literal; the bytes must be UTF-8.
pub fn pct_decode(s: &str) -> Option<String> {
    let b = s.as_bytes();
    let hex = |c: u8| -> Option<u8> { match c { b'0'..=b'9' => Some(c - b'0'), b'a'..=b'f' => Some(c - b'a' + 10), b'A'..=b'F' => Some(c - b'A' + 10), _ => None } };
    let mut out = vec![];
    let mut i = 0;
    while i < b.len() {
        if b[i] == b'%' && i + 2 < b.len() {
            if let (Some(h), Some(l)) = (hex(b[i + 1]), hex(b[i + 2])) {
                out.push(h * 16 + l);
                i += 3;
                continue;
            }
        }
        out.push(b[i]);
        i += 1;
    }
    String::from_utf8(out).ok()
}

fn walk(root: &FsPath, rel: &mut Vec<String>, out: &mut Vec<(Vec<String>, u64)>) {
    let Ok(rd) = std::fs::read_dir(root) else { return };
    for e in rd.flatten() {
        let name = e.file_name().to_string_lossy().to_string();
        let p = e.path();
        rel.push(name);
        if p.is_dir() { walk(&p, rel, out); } else { out.push((rel.clone(), e.metadata().map(|m| m.len()).unwrap_or(0))); }
        rel.pop();
    }
}

fn unsupported(e: &DataFusionError) -> bool {
    match e {
        DataFusionError::NotImplemented(_) | DataFusionError::Plan(_) | DataFusionError::Configuration(_) | DataFusionError::SQL(_, _) => true,
        DataFusionError::Context(_, inner) => unsupported(inner),
        DataFusionError::Diagnostic(_, inner) => unsupported(inner),
        DataFusionError::Shared(inner) => unsupported(inner),
        _ => false,
    }
}

fn err_class(e: &DataFusionError) -> String {
    let s = e.to_string();
    let s: String = s.chars().map(|c| if c.is_ascii_digit() { '#' } else { c }).collect();
    s.chars().take(110).collect()
}

fn comp_variant(c: &str) -> CompressionTypeVariant {
    CompressionTypeVariant::from_str(c).unwrap_or(CompressionTypeVariant::UNCOMPRESSED)
}

struct Case<'a> {
    v: &'a Value,
    cols: Vec<Col>,
    partby: Vec<String>,
    fmt: String,
    comp: String,
    method: String,
    hdr: bool,
}

impl Case<'_> {
    fn data_cols(&self) -> Vec<&Col> { self.cols.iter().filter(|c| !self.partby.contains(&c.name)).collect() }
    fn part_cols(&self) -> Vec<&Col> { self.partby.iter().map(|n| self.cols.iter().find(|c| &c.name == n).unwrap()).collect() }
    /// file extension the engine is expected to use for generated files / we use for a single file
    fn ext(&self) -> String {
        let base = match self.fmt.as_str() { "csv" => "csv", "json" => "json", _ => "parquet" };
        if self.fmt == "parquet" || self.comp == "none" { return base.to_string(); }
        let c = match self.comp.as_str() { "gzip" => "gz", "bzip2" => "bz2", "xz" => "xz", "zstd" => "zst", o => o };
        format!("{base}.{c}")
    }
    fn write_opts_sql(&self, with_single: bool) -> String {
        let mut o: Vec<String> = vec![];
        if self.comp != "none" { o.push(format!("'format.compression' '{}'", self.comp)); }
        if self.fmt == "csv" { o.push(format!("'format.has_header' '{}'", self.hdr)); }
        if with_single { if let Some(s) = self.v["single"].as_bool() { o.push(format!("'single_file_output' '{s}'")); } }
        if o.is_empty() { String::new() } else { format!(" OPTIONS ({})", o.join(", ")) }
    }
    fn read_opts_sql(&self) -> String {
        let mut o: Vec<String> = vec![];
        if self.fmt != "parquet" && self.comp != "none" { o.push(format!("'format.compression' '{}'", self.comp)); }
        if self.fmt == "csv" {
            o.push(format!("'format.has_header' '{}'", self.hdr));
            if self.v["nlv"].as_bool().unwrap_or(true) { o.push("'format.newlines_in_values' 'true'".into()); }
        }
        if o.is_empty() { String::new() } else { format!(" OPTIONS ({})", o.join(", ")) }
    }
    fn table_ddl(&self, name: &str, loc: &str, opts: &str) -> String {
        let mut defs: Vec<String> = self.data_cols().iter().map(|c| format!("{} {}", c.name, sqltype(&c.t))).collect();
        defs.extend(self.part_cols().iter().map(|c| format!("{} {}", c.name, sqltype(&c.t))));
        let part = if self.partby.is_empty() { String::new() } else { format!(" PARTITIONED BY ({})", self.partby.join(", ")) };
        format!("CREATE EXTERNAL TABLE {name} ({}) STORED AS {} LOCATION '{loc}'{part}{opts}", defs.join(", "), self.fmt.to_uppercase())
    }
}

/// a ListingTable built through the API: explicit file schema, partition columns, and the extension a user
/// gives to files of this format and compression (".csv.gz"); "" when the table is one file without extension
fn api_table(c: &Case, case: &Value, loc: &str, any_ext: bool) -> Result<Arc<ListingTable>, String> {
    let fc: FileCompressionType = comp_variant(if c.fmt == "parquet" { "none" } else { &c.comp }).into();
    let format: Arc<dyn FileFormat> = match c.fmt.as_str() {
        "csv" => Arc::new(CsvFormat::default().with_has_header(c.hdr).with_newlines_in_values(case["nlv"].as_bool().unwrap_or(true)).with_file_compression_type(fc)),
        "json" => Arc::new(JsonFormat::default().with_file_compression_type(fc)),
        _ => {
            let mut o = TableParquetOptions::default();
            o.global.schema_force_view_types = false;
            if c.comp != "none" { o.global.compression = Some(c.comp.clone()); }
            Arc::new(ParquetFormat::default().with_options(o))
        }
    };
    let part_cols: Vec<(String, DataType)> = c.part_cols().iter().map(|k| (k.name.clone(), dtype(&k.t))).collect();
    let ext = if any_ext { String::new() } else { format!(".{}", c.ext()) };
    let opts = ListingOptions::new(format).with_file_extension(ext).with_table_partition_cols(part_cols);
    let fschema = Arc::new(Schema::new(c.data_cols().iter().map(|k| Field::new(&k.name, dtype(&k.t), true)).collect::<Vec<_>>()));
    let url = ListingTableUrl::parse(loc).map_err(|e| e.to_string())?;
    let t = ListingTable::try_new(ListingTableConfig::new(url).with_listing_options(opts).with_schema(fschema)).map_err(|e| e.to_string())?;
    Ok(Arc::new(t))
}

fn session(case: &Value, tp: usize) -> SessionContext {
    let mut cfg = SessionConfig::new().with_target_partitions(tp).with_batch_size(8192)
        .set_bool("datafusion.execution.parquet.schema_force_view_types", false)
        .set_bool("datafusion.execution.listing_table_ignore_subdirectory", true)
        .set_bool("datafusion.sql_parser.map_string_types_to_utf8view", case["sv"].as_bool().unwrap_or(false));
    if let Some(n) = case["maxrows"].as_u64() { cfg = cfg.set_u64("datafusion.execution.soft_max_rows_per_output_file", n); }
    if let Some(n) = case["minpar"].as_u64() { cfg = cfg.set_u64("datafusion.execution.minimum_parallel_output_files", n); }
    SessionContext::new_with_config(cfg)
}

async fn count_of(batches: Vec<RecordBatch>) -> Option<i64> {
    let rows = batches_rows(&batches);
    if rows.len() == 1 && rows[0].len() == 1 { rows[0][0].as_i64() } else { None }
}

async fn one_case(acc: &mut Acc, case: &Value, base: &str) {
    let cols: Vec<Col> = case["cols"].as_array().unwrap().iter().map(|c| Col { name: c["name"].as_str().unwrap().into(), t: c["t"].as_str().unwrap().into() }).collect();
    let c = Case {
        v: case,
        partby: case["partby"].as_array().unwrap().iter().map(|s| s.as_str().unwrap().to_string()).collect(),
        fmt: case["fmt"].as_str().unwrap().into(),
        comp: case["comp"].as_str().unwrap_or("none").into(),
        method: case["method"].as_str().unwrap().into(),
        hdr: case["hdr"].as_bool().unwrap_or(true),
        cols,
    };
    let idx = case["idx"].as_u64().unwrap_or(0);
    let root = PathBuf::from(base).join(format!("c{idx}"));
    let _ = std::fs::remove_dir_all(&root);
    if let Err(e) = std::fs::create_dir_all(&root) { acc.tool_errors.push(format!("mkdir {root:?}: {e}")); return; }
    let pathlike = case["pathlike"].as_str().unwrap_or("dir");
    let partitioned = !c.partby.is_empty();
    // where the writer is pointed at / where the table is read back from
    let eff_single = !partitioned && case["single"].as_bool().unwrap_or(pathlike == "file");
    let target: String = if pathlike == "file" { format!("{}/t.{}", root.display(), c.ext()) } else if eff_single { format!("{}/t", root.display()) } else { format!("{}/t/", root.display()) };
    let pnull = case["pnull"].as_bool().unwrap_or(false);
    if pathlike == "dir" && !eff_single { std::fs::create_dir_all(format!("{}/t", root.display())).unwrap(); }
    let tp = case["tp"].as_u64().unwrap_or(1) as usize;
    let mempart = case["mempart"].as_u64().unwrap_or(1) as usize;
    let schema: SchemaRef = Arc::new(Schema::new(c.cols.iter().map(|k| Field::new(&k.name, dtype(&k.t), true)).collect::<Vec<_>>()));
    let writes = case["writes"].as_array().unwrap();
    let base_v = json!({"kind":"roundtrip","case":case});
    acc.evaluations += 1;

    // ---------------------------------------------------------------- write
    let wctx = session(case, tp);
    for (k, w) in writes.iter().enumerate() {
        let mut parts: Vec<Vec<RecordBatch>> = vec![vec![]; mempart.max(1)];
        for (j, b) in w.as_array().unwrap().iter().enumerate() {
            let rows: Vec<Vec<Value>> = b.as_array().unwrap().iter().map(|r| r.as_array().unwrap().clone()).collect();
            parts[j % mempart.max(1)].push(batch_of(&schema, &c.cols, &rows));
        }
        let mt = MemTable::try_new(schema.clone(), parts).expect("memtable");
        wctx.register_table(format!("w{k}").as_str(), Arc::new(mt)).expect("register");
    }
    let all_names: Vec<String> = c.cols.iter().map(|k| k.name.clone()).collect();
    let insert_names: Vec<String> = c.data_cols().iter().map(|k| k.name.clone()).chain(c.part_cols().iter().map(|k| k.name.clone())).collect();
    let reader = case["reader"].as_str().unwrap_or("sql");
    if c.method == "insert" && reader == "api" {
        // the INSERT target is built through the API, with the extension of its format and compression
        match api_table(&c, case, &target, false) {
            Ok(t) => { wctx.register_table("t", t).expect("register t"); }
            Err(e) => { acc.tool_errors.push(format!("api table: {e}")); return; }
        }
    } else if c.method == "insert" {
        let ddl = c.table_ddl("t", &target, &c.write_opts_sql(false));
        match wctx.sql(&ddl).await {
            Ok(df) => { if let Err(e) = df.collect().await { acc.tool_errors.push(format!("ddl {ddl}: {e}")); return; } }
            Err(e) => {
                if unsupported(&e) { acc.bump(&format!("unsupported: {}", err_class(&e)), 1); acc.bump("cases_unsupported", 1); let _ = std::fs::remove_dir_all(&root); return; }
                acc.tool_errors.push(format!("ddl {ddl}: {e}")); return;
            }
        }
    }
    let mut wrote_sql = vec![];
    for (k, w) in writes.iter().enumerate() {
        let nrows: i64 = w.as_array().unwrap().iter().map(|b| b.as_array().unwrap().len() as i64).sum();
        let res: Result<Vec<RecordBatch>, DataFusionError> = match c.method.as_str() {
            "copy" => {
                let part = if partitioned { format!(" PARTITIONED BY ({})", c.partby.join(", ")) } else { String::new() };
                let sql = format!("COPY (SELECT {} FROM w{k}) TO '{target}' STORED AS {}{part}{}", all_names.join(", "), c.fmt.to_uppercase(), c.write_opts_sql(true));
                wrote_sql.push(sql.clone());
                match wctx.sql(&sql).await { Ok(df) => df.collect().await, Err(e) => Err(e) }
            }
            "insert" => {
                let sql = format!("INSERT INTO t SELECT {} FROM w{k}", insert_names.join(", "));
                wrote_sql.push(sql.clone());
                match wctx.sql(&sql).await { Ok(df) => df.collect().await, Err(e) => Err(e) }
            }
            "df" => {
                let mut o = DataFrameWriteOptions::new();
                if partitioned { o = o.with_partition_by(c.partby.clone()); }
                if let Some(s) = case["single"].as_bool() { o = o.with_single_file_output(s); }
                wrote_sql.push(format!("table(w{k}).write_{}('{target}', partition_by={:?}, single_file_output={:?}, compression={})", c.fmt, c.partby, case["single"], c.comp));
                match wctx.table(format!("w{k}").as_str()).await {
                    Err(e) => Err(e),
                    Ok(df) => match c.fmt.as_str() {
                        "csv" => {
                            let mut w = CsvOptions::default().with_has_header(c.hdr);
                            if c.comp != "none" { w = w.with_compression(comp_variant(&c.comp)); }
                            df.write_csv(&target, o, Some(w)).await
                        }
                        "json" => {
                            let mut w = JsonOptions::default();
                            if c.comp != "none" { w.compression = comp_variant(&c.comp); }
                            df.write_json(&target, o, Some(w)).await
                        }
                        _ => {
                            let mut w = TableParquetOptions::default();
                            if c.comp != "none" { w.global.compression = Some(c.comp.clone()); }
                            df.write_parquet(&target, o, Some(w)).await
                        }
                    },
                }
            }
            m => { acc.tool_errors.push(format!("method {m}")); return; }
        };
        match res {
            Err(e) => {
                if unsupported(&e) {
                    acc.bump(&format!("unsupported: {}", err_class(&e)), 1); acc.bump("cases_unsupported", 1);
                    let _ = std::fs::remove_dir_all(&root);
                    return;
                }
                if pnull {
                    // a NULL partition value has no Hive directory: the specification allows the write to fail
                    acc.bump(&format!("null_partition_value_rejected_{}", c.method), 1);
                    let _ = std::fs::remove_dir_all(&root);
                    return;
                }
                let mut v = base_v.clone();
                v["stage"] = json!("write"); v["statements"] = json!(wrote_sql); v["error"] = json!(e.to_string());
                v["message"] = json!(format!("write #{k} failed: {e}"));
                acc.violation(v);
                return;
            }
            Ok(batches) => {
                let got = count_of(batches).await;
                acc.bump("writes", 1);
                if got != Some(nrows) {
                    let mut v = base_v.clone();
                    v["stage"] = json!("count"); v["statements"] = json!(wrote_sql); v["reported"] = json!(got); v["rows_written"] = json!(nrows);
                    v["message"] = json!(format!("write #{k} reported {got:?} rows, {nrows} were given to it"));
                    acc.violation(v);
                }
            }
        }
    }

    // ---------------------------------------------------------------- files on disk
    let table_root = if pathlike == "file" { format!("{}/t.{}", root.display(), c.ext()) } else { format!("{}/t", root.display()) };
    let mut files = vec![];
    if FsPath::new(&table_root).is_file() { files.push((vec![], std::fs::metadata(&table_root).map(|m| m.len()).unwrap_or(0))); }
    else { walk(FsPath::new(&table_root), &mut vec![], &mut files); }
    acc.bump("files_written", files.len() as u64);
    let exp_dirs: BTreeSet<String> = case["dirs"].as_array().unwrap().iter().map(|d| d["dir"].as_str().unwrap().to_string()).collect();
    let exp_keys: BTreeSet<Vec<String>> = case["dirs"].as_array().unwrap().iter().map(|d| d["key"].as_array().unwrap().iter().map(|s| s.as_str().unwrap().to_string()).collect()).collect();
    let mut placement: Vec<String> = vec![];
    let listing: Vec<String> = files.iter().map(|(r, n)| format!("{} ({n} B)", r.join("/"))).collect();
    if eff_single {
        if !(files.len() == 1 && files[0].0.is_empty()) {
            placement.push(format!("single-file output expected exactly the file {table_root}, found {listing:?}"));
        }
    } else if pnull {
        acc.bump("cases_with_null_partition_values_written", 1);
    } else if !partitioned {
        if files.iter().any(|(r, _)| r.len() != 1) { placement.push(format!("unpartitioned directory output must hold files directly in the directory, found {listing:?}")); }
        let total: usize = writes.iter().map(|w| w.as_array().unwrap().iter().map(|b| b.as_array().unwrap().len()).sum::<usize>()).sum();
        if total > 0 && files.is_empty() { placement.push("rows were written but the directory holds no file".into()); }
    } else {
        let mut seen_keys: BTreeSet<Vec<String>> = BTreeSet::new();
        for (r, _) in &files {
            if r.len() != c.partby.len() + 1 { placement.push(format!("file {} is not exactly {} directories below the table", r.join("/"), c.partby.len())); continue; }
            let dir = r[..r.len() - 1].join("/");
            let mut key = vec![];
            let mut ok = true;
            for (seg, name) in r[..r.len() - 1].iter().zip(&c.partby) {
                match seg.split_once('=') {
                    Some((n, val)) if n == name => match pct_decode(val) { Some(d) => key.push(d), None => { ok = false; } },
                    _ => { ok = false; }
                }
            }
            if !ok { placement.push(format!("directory {dir} is not of the form {}", c.partby.iter().map(|n| format!("{n}=<value>")).collect::<Vec<_>>().join("/"))); continue; }
            if !exp_keys.contains(&key) { placement.push(format!("directory {dir} decodes to {key:?}, which is not the partition key of any written row")); continue; }
            seen_keys.insert(key);
            if exp_dirs.contains(&dir) { acc.bump("dirs_spelled_as_spec_encode", 1); } else { acc.bump("drift_dir_spelling_differs_from_spec_encode", 1); }
        }
        for k in exp_keys.difference(&seen_keys) { placement.push(format!("no file for partition key {k:?}")); }
    }
    if let Some(n) = case["nfiles"].as_u64() {
        if files.len() as u64 == n { acc.bump("file_count_as_demux_model", 1); } else { acc.bump("drift_file_count_differs_from_demux_model", 1); }
    }
    if !placement.is_empty() {
        let mut v = base_v.clone();
        v["stage"] = json!("placement"); v["statements"] = json!(wrote_sql); v["files"] = json!(listing); v["expected_dirs"] = json!(exp_dirs); v["problems"] = json!(placement);
        v["message"] = json!(format!("files are not where the partition values put them: {}", placement[0]));
        acc.violation(v);
    }

    // ---------------------------------------------------------------- read back (fresh context)
    let rtp = case["rtp"].as_u64().unwrap_or(tp as u64) as usize;
    let rctx = session(case, rtp);
    let loc = if pathlike == "file" && eff_single { target.clone() } else if pathlike == "file" { format!("{target}/") } else { target.clone() };
    let select = format!("SELECT {} FROM rb", all_names.join(", "));
    let reg: Result<(), String> = if reader == "sql" {
        let ddl = c.table_ddl("rb", &loc, &c.read_opts_sql());
        async { rctx.sql(&ddl).await.map_err(|e| format!("{ddl}: {e}"))?.collect().await.map_err(|e| format!("{ddl}: {e}"))?; Ok(()) }.await
    } else {
        api_table(&c, case, &loc, eff_single && pathlike == "dir").and_then(|t| rctx.register_table("rb", t).map(|_| ()).map_err(|e| e.to_string()))
    };
    if let Err(e) = reg {
        let mut v = base_v.clone();
        v["stage"] = json!("read"); v["statements"] = json!(wrote_sql); v["files"] = json!(listing); v["error"] = json!(e);
        v["message"] = json!(format!("cannot open the written files as a table: {e}"));
        acc.violation(v);
        return;
    }
    let res: Result<(SchemaRef, Vec<RecordBatch>), String> = async {
        let df = rctx.sql(&select).await.map_err(|e| format!("sql: {e}"))?;
        let s: SchemaRef = Arc::new(df.schema().as_arrow().clone());
        Ok((s, df.collect().await.map_err(|e| format!("collect: {e}"))?))
    }.await;
    let expected = spec_rows_plain(&case["expect"]);
    match res {
        Err(e) => {
            let mut v = base_v.clone();
            v["stage"] = json!("read"); v["statements"] = json!(wrote_sql); v["files"] = json!(listing); v["error"] = json!(e);
            v["message"] = json!(format!("reading the written files back failed: {e}"));
            acc.violation(v);
        }
        Ok((s, batches)) => {
            let got = batches_rows(&batches);
            let (missing, extra) = bag_diff(&expected, &got);
            let types: Vec<String> = s.fields().iter().map(|f| f.data_type().to_string()).collect();
            let view = reader == "sql" && case["sv"].as_bool().unwrap_or(false);
            let want_types: Vec<String> = c.cols.iter().map(|k| if view && k.t == "s" { DataType::Utf8View.to_string() } else { dtype(&k.t).to_string() }).collect();
            let keys: BTreeSet<String> = exp_dirs.clone();
            if expected.len() >= 2 && (keys.len() >= 2 || !partitioned) {
                acc.nontrivial.insert(format!("{}|{}|{}|{}|{:?}|{}", c.method, c.fmt, c.comp, serde_json::to_string(&case["writes"]).unwrap(), c.partby, case["single"]));
            }
            acc.bump(&format!("ok_{}_{}", c.method, c.fmt), 1);
            if c.comp != "none" { acc.bump(&format!("compressed_{}_{}", c.fmt, c.comp), 1); }
            if acc.samples.len() < 3 && partitioned && expected.len() >= 3 && keys.len() >= 2 {
                acc.samples.push(json!({"statements":wrote_sql,"files":listing,"expected_rows":expected,"read_back_rows":got,"types":types,"reader":reader}));
            }
            if missing.is_empty() && extra.is_empty() && types == want_types && placement.is_empty() { PASSED.lock().push(idx); }
            if !missing.is_empty() || !extra.is_empty() || types != want_types {
                let mut v = base_v.clone();
                v["stage"] = json!("compare"); v["statements"] = json!(wrote_sql); v["files"] = json!(listing);
                v["missing_rows"] = json!(missing); v["unexpected_rows"] = json!(extra); v["types"] = json!(types); v["want_types"] = json!(want_types);
                v["message"] = json!(format!("read-back differs from what the specification says was written: {} rows missing, {} unexpected; column types {:?} (declared {:?})",
                    missing.len(), extra.len(), types, want_types));
                acc.violation(v);
            }
        }
    }
    if std::env::var("VERIF_KEEP").is_err() { let _ = std::fs::remove_dir_all(&root); }
}

/// expected rows arrive as plain JSON (null / integer / bool / string), already through the pool
fn spec_rows_plain(rows: &Value) -> Vec<Vec<Value>> {
    rows.as_array().unwrap().iter().map(|r| r.as_array().unwrap().clone()).collect()
}

static PASSED: parking_lot::Mutex<Vec<u64>> = parking_lot::Mutex::new(Vec::new());

pub fn main() {
    use vcommon::util::{arg, read_ndjson};
    let base = arg("--dir").unwrap_or_else(|| "c25out".into());
    std::fs::create_dir_all(&base).expect("mkdir --dir");
    let base = std::fs::canonicalize(&base).unwrap().display().to_string();
    let out_path = arg("--out").expect("--out");
    let rt = tokio::runtime::Builder::new_multi_thread().worker_threads(4).enable_all().build().unwrap();
    // own loop (not crate::run_cases): every rejection is kept, the known findings are frequent and the
    // classification happens on the Python side
    let mut acc = Acc::default();
    let mut violations: Vec<Value> = vec![];
    rt.block_on(async {
        let cases: Vec<Value> = if let Some(rp) = arg("--replay") {
            let v: Value = serde_json::from_str(&std::fs::read_to_string(&rp).unwrap()).unwrap();
            vec![v["case"].clone()]
        } else {
            read_ndjson(&arg("--cases").expect("--cases"))
        };
        for c in cases {
            let (c2, b2) = (c.clone(), base.clone());
            match tokio::spawn(async move { let mut a = Acc::default(); one_case(&mut a, &c2, &b2).await; a }).await {
                Ok(a) => {
                    acc.evaluations += a.evaluations;
                    violations.extend(a.violations);
                    acc.tool_errors.extend(a.tool_errors);
                    for s in a.samples { if acc.samples.len() < 3 { acc.samples.push(s); } }
                    acc.nontrivial.extend(a.nontrivial);
                    for (k, n) in a.counters { acc.bump(&k, n); }
                }
                Err(j) => { acc.bump("violations_total", 1); violations.push(json!({"kind":"roundtrip","stage":"panic","case":c,"message":format!("panic in the code under test: {j}")})); }
            }
        }
    });
    let n = violations.len();
    let passed: Vec<u64> = PASSED.lock().clone();
    let res = json!({"passed": passed, "evaluations": acc.evaluations, "distinct_nontrivial": acc.nontrivial.len(), "violations": violations,
        "tool_errors": acc.tool_errors, "samples": acc.samples, "counters": acc.counters});
    std::fs::write(&out_path, serde_json::to_string(&res).unwrap()).unwrap();
    vcommon::util::summary(json!({"evaluations": acc.evaluations, "violations": n}));
}
