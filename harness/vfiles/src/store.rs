//! Recording object store: wraps any store, logs every request (GET with range, HEAD, LIST).
use async_trait::async_trait;
use futures::stream::BoxStream;
use object_store::path::Path;
use object_store::{
    CopyOptions, GetOptions, GetRange, GetResult, ListResult, MultipartUpload, ObjectMeta, ObjectStore,
    PutMultipartOptions, PutOptions, PutPayload, PutResult, Result,
};
use parking_lot::Mutex;
use std::fmt::{Debug, Display, Formatter};
use std::sync::Arc;

#[derive(Debug, Clone, PartialEq)]
pub enum Req {
    /// GET of `path` (head = metadata only), optional bounded range
    Get { path: String, head: bool, range: Option<(u64, u64)> },
    List { prefix: String, delimiter: bool },
}

#[derive(Debug)]
pub struct Recorder {
    inner: Arc<dyn ObjectStore>,
    pub log: Arc<Mutex<Vec<Req>>>,
}

impl Recorder {
    pub fn new(inner: Arc<dyn ObjectStore>) -> Self {
        Self { inner, log: Arc::new(Mutex::new(vec![])) }
    }
    pub fn take(&self) -> Vec<Req> {
        std::mem::take(&mut *self.log.lock())
    }
}

impl Display for Recorder {
    fn fmt(&self, f: &mut Formatter<'_>) -> std::fmt::Result {
        write!(f, "Recorder({})", self.inner)
    }
}

#[async_trait]
impl ObjectStore for Recorder {
    async fn put_opts(&self, location: &Path, payload: PutPayload, opts: PutOptions) -> Result<PutResult> {
        self.inner.put_opts(location, payload, opts).await
    }
    async fn put_multipart_opts(&self, location: &Path, opts: PutMultipartOptions) -> Result<Box<dyn MultipartUpload>> {
        self.inner.put_multipart_opts(location, opts).await
    }
    async fn get_opts(&self, location: &Path, options: GetOptions) -> Result<GetResult> {
        let range = match &options.range {
            Some(GetRange::Bounded(r)) => Some((r.start, r.end)),
            Some(GetRange::Offset(o)) => Some((*o, u64::MAX)),
            Some(GetRange::Suffix(n)) => Some((u64::MAX - *n, u64::MAX)),
            None => None,
        };
        self.log.lock().push(Req::Get { path: location.to_string(), head: options.head, range });
        self.inner.get_opts(location, options).await
    }
    fn delete_stream(&self, locations: BoxStream<'static, Result<Path>>) -> BoxStream<'static, Result<Path>> {
        self.inner.delete_stream(locations)
    }
    fn list(&self, prefix: Option<&Path>) -> BoxStream<'static, Result<ObjectMeta>> {
        self.log.lock().push(Req::List { prefix: prefix.map(|p| p.to_string()).unwrap_or_default(), delimiter: false });
        self.inner.list(prefix)
    }
    async fn list_with_delimiter(&self, prefix: Option<&Path>) -> Result<ListResult> {
        self.log.lock().push(Req::List { prefix: prefix.map(|p| p.to_string()).unwrap_or_default(), delimiter: true });
        self.inner.list_with_delimiter(prefix).await
    }
    async fn copy_opts(&self, from: &Path, to: &Path, options: CopyOptions) -> Result<()> {
        self.inner.copy_opts(from, to, options).await
    }
}
