//! C26 — parallel byte-range scans read every record exactly once (spec/files/Boundary*.tla).
//!
//! (i)   byte-exact: every TLC-enumerated <file, range> x chunk size on the real
//!       `AlignedBoundaryStream` over a chunked in-memory object store; output must equal the
//!       byte interval the specification's ownership rule assigns to the range.
//! (ii)  scaled: each model byte expanded to K real bytes so that the real 16 KiB end-scan
//!       lookahead and its refill GETs run at the model's boundary positions.
//! (iii) end-to-end: CSV / NDJSON listing-table scans with repartition_file_scans and a tiny
//!       repartition_file_min_size for target_partitions 1..8, files materialised from TLC line
//!       layouts; result bag = the records of the files, ascending per file within a partition;
//!       plus the real `FileGroupPartitioner` ranges replayed through the real stream.
use crate::store::{Recorder, Req};
use arrow::array::{Array, AsArray};
use arrow::datatypes::{DataType, Field, Int64Type, Schema};
use bytes::Bytes;
use datafusion::prelude::*;
use datafusion_datasource::boundary_stream::AlignedBoundaryStream;
use datafusion_datasource::file_groups::{FileGroup, FileGroupPartitioner};
use datafusion_datasource::PartitionedFile;
use futures::TryStreamExt;
use datafusion::physical_plan::ExecutionPlanProperties;
use object_store::chunked::ChunkedStore;
use object_store::memory::InMemory;
use object_store::path::Path;
use object_store::{ObjectStore, ObjectStoreExt, PutPayload};
use serde_json::{json, Value};
use std::collections::BTreeMap;
use std::sync::Arc;
use vcommon::util::{arg, read_ndjson, summary};

fn model_bytes(f: &[Value], term: u8) -> Vec<u8> {
    f.iter()
        .enumerate()
        .map(|(i, b)| match b.as_str().unwrap() {
            "n" => term,
            "r" => b'\r',
            _ => b'a' + (i % 26) as u8,
        })
        .collect()
}

/// model byte -> K real bytes (terminator last)
fn scaled_bytes(f: &[Value], k: usize) -> Vec<u8> {
    let mut v = Vec::with_capacity(f.len() * k);
    for (i, b) in f.iter().enumerate() {
        let fill = b'a' + (i % 26) as u8;
        v.extend(std::iter::repeat(fill).take(k - 1));
        v.push(match b.as_str().unwrap() {
            "n" => b'\n',
            "r" => b'\r',
            _ => fill,
        });
    }
    v
}

async fn run_stream_t(store: Arc<dyn ObjectStore>, path: &Path, s: u64, e: u64, size: u64, term: u8) -> Result<Vec<u8>, String> {
    let st = AlignedBoundaryStream::new(store, path.clone(), s, e, size, term)
        .await
        .map_err(|e| format!("new: {e}"))?;
    let parts: Vec<Bytes> = st.try_collect().await.map_err(|e| format!("stream: {e}"))?;
    Ok(parts.concat())
}

/// Run one stream case in its own task so that a panic in the code under test is data.
async fn run_stream_guarded(store: Arc<dyn ObjectStore>, path: Path, s: u64, e: u64, size: u64) -> Result<Vec<u8>, String> {
    run_stream_guarded_t(store, path, s, e, size, b'\n').await
}
async fn run_stream_guarded_t(store: Arc<dyn ObjectStore>, path: Path, s: u64, e: u64, size: u64, term: u8) -> Result<Vec<u8>, String> {
    match tokio::spawn(async move { run_stream_t(store, &path, s, e, size, term).await }).await {
        Ok(r) => r,
        Err(j) => Err(format!("panic: {j}")),
    }
}

fn show(b: &[u8]) -> String {
    if b.len() > 80 {
        format!("<{} bytes, {} terminators>", b.len(), b.iter().filter(|&&c| c == b'\n').count())
    } else {
        String::from_utf8_lossy(b).replace('\n', "\\n").replace('\r', "\\r")
    }
}

struct Acc {
    evaluations: u64,
    violations: Vec<Value>,
    tool_errors: Vec<String>,
    samples: Vec<Value>,
    nontrivial: std::collections::HashSet<String>,
    counters: BTreeMap<String, u64>,
}
impl Acc {
    fn bump(&mut self, k: &str, n: u64) {
        *self.counters.entry(k.to_string()).or_default() += n;
    }
}

// ------------------------------------------------------------------ (i) + (ii)
async fn stream_case(acc: &mut Acc, case: &Value, chunks: &[usize], scale: usize, only: Option<(u64, u64, usize)>) {
    let f = case["f"].as_array().unwrap();
    // every third byte-exact file uses ';' as the record terminator (CSV `terminator` option)
    let term: u8 = if scale == 1 && f.len() % 3 == 2 && !f.iter().any(|b| b == "r") { b';' } else { b'\n' };
    if term == b';' { acc.bump("stream_files_with_custom_terminator", 1); }
    let data = if scale == 1 { model_bytes(f, term) } else { scaled_bytes(f, scale) };
    let size = data.len() as u64;
    let k = scale as u64;
    let inner: Arc<dyn ObjectStore> = Arc::new(InMemory::new());
    let path = Path::from("f");
    inner.put(&path, PutPayload::from(Bytes::from(data.clone()))).await.unwrap();
    // AlignStart per model position from the specification's table
    let rows: Vec<[u64; 4]> = case["y"].as_array().unwrap().iter()
        .map(|r| { let r = r.as_array().unwrap(); [r[0].as_u64().unwrap(), r[1].as_u64().unwrap(), r[2].as_u64().unwrap(), r[3].as_u64().unwrap()] })
        .collect();
    let n = f.len() as u64;
    let align = |p: u64| -> u64 {
        if p >= n { return n; }
        rows.iter().find(|r| r[0] == p).map(|r| r[2]).unwrap()
    };
    for &cs in chunks {
        let cs = if cs == 0 { (size as usize).max(1) } else { cs };
        let store: Arc<dyn ObjectStore> = Arc::new(ChunkedStore::new(Arc::clone(&inner), cs));
        for r in &rows {
            let (ms, me, lo, hi) = (r[0], r[1], r[2], r[3]);
            // real ranges: the model range itself, and (scaled only) shifted by one real byte
            let mut variants: Vec<(u64, u64, u64, u64)> = vec![(ms * k, me * k, lo * k, hi * k)];
            if scale > 1 {
                // s*k+1 aligns like model position s+1; e*k-1 (e>=1) aligns like model position e
                let lo1 = align(ms + 1) * k;
                let hi1 = align(me).max(align(ms + 1)) * k;
                if ms * k + 1 < me * k { variants.push((ms * k + 1, me * k, lo1, hi1.max(lo1))); }
                if me >= 1 && ms * k < me * k - 1 && me <= n { variants.push((ms * k, me * k - 1, lo * k, (align(me) * k).max(lo * k))); }
            }
            for (s, e, xlo, xhi) in variants {
                if let Some((os, oe, ocs)) = only { if (os, oe, ocs) != (s, e, cs) { continue; } }
                let expect = &data[xlo as usize..xhi as usize];
                let got = run_stream_guarded_t(Arc::clone(&store), path.clone(), s, e, size, term).await;
                acc.evaluations += 1;
                let ok = matches!(&got, Ok(g) if g.as_slice() == expect);
                let nontrivial = s > 0 && e < size && xlo < xhi;
                if nontrivial {
                    acc.nontrivial.insert(format!("{}|{}|{}|{}|{}", show(&data), s, e, cs, scale));
                }
                if acc.samples.len() < 2 && nontrivial && cs < size as usize {
                    acc.samples.push(json!({"kind":"stream","file":show(&data),"start":s,"end":e,"chunk":cs,"scale":scale,
                        "expected":show(expect),"got":got.as_ref().map(|g| show(g)).unwrap_or_default()}));
                }
                if !ok {
                    let (g, err) = match &got { Ok(g) => (show(g), String::new()), Err(e) => (String::new(), e.clone()) };
                    if acc.violations.len() < 20 {
                        acc.violations.push(json!({"kind":"stream","case":case,"scale":scale,"start":s,"end":e,"chunk":cs,
                            "file":show(&data),"expected":show(expect),"got":g,"error":err,
                            "message":format!("AlignedBoundaryStream(start={s},end={e},size={size},chunk={cs}) does not yield the lines whose first byte lies in [start,end): expected bytes [{xlo},{xhi})")}));
                    }
                    acc.bump("stream_mismatches", 1);
                }
            }
        }
    }
}

// ------------------------------------------------------------------ (iii)
fn pad_for(kind: &str, id: i64) -> String {
    let c = (b'a' + (id % 26) as u8) as char;
    match kind {
        "s" => c.to_string(),
        "l" => std::iter::repeat(c).take(40).collect(),
        "h" => std::iter::repeat(c).take(17000).collect(),
        "g" => std::iter::repeat(c).take(40000).collect(),
        "q" => format!("{c}\n{c}"),
        _ => String::new(),
    }
}

/// bytes of a file for a layout, and its expected rows (fid, id, pad)
fn materialise(fmt: &str, fid: i64, file: &Value, semi: bool) -> (Vec<u8>, Vec<(i64, i64, String)>, Vec<u64>) {
    let lay = &file["lay"];
    let lines = lay["lines"].as_array().unwrap();
    let term = if semi { ";" } else if lay["crlf"].as_bool().unwrap() { "\r\n" } else { "\n" };
    let mut out: Vec<String> = vec![];
    if fmt == "csv" && lay["header"].as_bool().unwrap() {
        out.push("fid,id,pad".to_string());
    }
    let mut rows = vec![];
    for (i, k) in lines.iter().enumerate() {
        let kind = k.as_str().unwrap();
        let id = (i + 1) as i64;
        if kind == "e" {
            out.push(String::new());
            continue;
        }
        let pad = pad_for(kind, id);
        rows.push((fid, id, pad.clone()));
        if fmt == "csv" {
            if kind == "q" { out.push(format!("{fid},{id},\"{pad}\"")); } else { out.push(format!("{fid},{id},{pad}")); }
        } else {
            out.push(format!("{{\"fid\":{fid},\"id\":{id},\"pad\":{}}}", serde_json::to_string(&pad).unwrap()));
        }
    }
    // first byte of every record's line
    let mut offs = vec![];
    {
        let mut o = 0u64;
        let mut li = 0usize;
        let hdr = fmt == "csv" && lay["header"].as_bool().unwrap();
        for (j, l) in out.iter().enumerate() {
            let is_header = hdr && j == 0;
            if !is_header {
                if lines[li].as_str().unwrap() != "e" { offs.push(o); }
                li += 1;
            }
            o += (l.len() + term.len()) as u64;
        }
    }
    let mut s = out.join(term);
    if lay["trail"].as_bool().unwrap() && !out.is_empty() {
        s.push_str(term);
    }
    // the specification's record list must be what we materialised
    let ids: Vec<i64> = file["records"].as_array().unwrap().iter().map(|v| v.as_i64().unwrap()).collect();
    assert_eq!(ids, rows.iter().map(|r| r.1).collect::<Vec<_>>(), "layout/records mismatch");
    (s.into_bytes(), rows, offs)
}

fn schema() -> Schema {
    Schema::new(vec![
        Field::new("fid", DataType::Int64, true),
        Field::new("id", DataType::Int64, true),
        Field::new("pad", DataType::Utf8, true),
    ])
}

struct ScanOut {
    /// per output partition: (file index, start, end) of the plan's file group
    groups: Option<Vec<Vec<(usize, u64, u64)>>>,
    partitions: Vec<Vec<(i64, i64, String)>>,
    plan_root: String,
    ranges: Vec<Req>,
}

async fn scan(fmt: &str, files: &[(Vec<u8>, Vec<(i64, i64, String)>, Vec<u64>)], tp: usize, chunk: usize, local: bool, nlv: bool,
              header: bool, dir: &str, steal: bool, semi: bool, ordered: bool) -> Result<ScanOut, String> {
    let cfg = SessionConfig::new()
        .with_target_partitions(tp)
        .with_batch_size(4)
        .set_bool("datafusion.optimizer.repartition_file_scans", true)
        .set_bool("datafusion.execution.enable_file_stream_work_stealing", steal)
        .set_u64("datafusion.optimizer.repartition_file_min_size", 1);
    let ctx = SessionContext::new_with_config(cfg);
    let ext = if fmt == "csv" { ".csv" } else { ".json" };
    let mut recorder: Option<Arc<Recorder>> = None;
    let table_path = if local {
        let d = std::env::current_dir().unwrap().join(dir);
        let _ = std::fs::remove_dir_all(&d);
        std::fs::create_dir_all(&d).map_err(|e| e.to_string())?;
        for (i, (b, _, _)) in files.iter().enumerate() {
            std::fs::write(d.join(format!("f{i}{ext}")), b).map_err(|e| e.to_string())?;
        }
        format!("{}/", d.display())
    } else {
        let mem: Arc<dyn ObjectStore> = Arc::new(InMemory::new());
        for (i, (b, _, _)) in files.iter().enumerate() {
            mem.put(&Path::from(format!("t/f{i}{ext}")), PutPayload::from(Bytes::from(b.clone()))).await.unwrap();
        }
        let chunked: Arc<dyn ObjectStore> = Arc::new(ChunkedStore::new(mem, chunk.max(1)));
        let rec = Arc::new(Recorder::new(chunked));
        ctx.register_object_store(&url::Url::parse("mem://c26").unwrap(), rec.clone());
        recorder = Some(rec);
        "mem://c26/t/".to_string()
    };
    let sch = schema();
    if fmt == "csv" {
        let mut o = CsvReadOptions::new().schema(&sch).has_header(header).file_extension(ext).newlines_in_values(nlv);
        if semi { o = o.terminator(Some(b';')); }
        if ordered { o = o.file_sort_order(vec![vec![col("id").sort(true, false)]]); }
        ctx.register_csv("t", &table_path, o).await.map_err(|e| format!("register: {e}"))?;
    } else {
        let mut o = JsonReadOptions::default().schema(&sch).file_extension(ext);
        if ordered { o = o.file_sort_order(vec![vec![col("id").sort(true, false)]]); }
        ctx.register_json("t", &table_path, o).await.map_err(|e| format!("register: {e}"))?;
    }
    let df = ctx.sql(if ordered { "SELECT fid, id, pad FROM t ORDER BY id" } else { "SELECT fid, id, pad FROM t" }).await.map_err(|e| format!("sql: {e}"))?;
    let plan = df.create_physical_plan().await.map_err(|e| format!("plan: {e}"))?;
    if let Some(r) = &recorder { r.take(); }
    let groups = plan.downcast_ref::<datafusion::datasource::source::DataSourceExec>()
        .and_then(|d| d.data_source().downcast_ref::<datafusion::datasource::physical_plan::FileScanConfig>())
        .map(|c| c.file_groups.iter().map(|g| g.files().iter().map(|f| {
            let name = f.object_meta.location.filename().unwrap_or("").to_string();
            let idx: usize = name.trim_start_matches('f').split('.').next().unwrap().parse().unwrap_or(usize::MAX);
            let (a, b) = f.range.as_ref().map(|r| (r.start as u64, r.end as u64)).unwrap_or((0, u64::MAX));
            (idx, a, b)
        }).collect::<Vec<_>>()).collect::<Vec<_>>());
    let n = plan.output_partitioning().partition_count();
    let task = ctx.task_ctx();
    let mut partitions = vec![];
    for p in 0..n {
        let st = plan.execute(p, Arc::clone(&task)).map_err(|e| format!("execute: {e}"))?;
        let batches: Vec<arrow::record_batch::RecordBatch> = st.try_collect().await.map_err(|e| format!("scan error: {e}"))?;
        let mut rows = vec![];
        for b in batches {
            let fid = b.column(0).as_primitive::<Int64Type>();
            let id = b.column(1).as_primitive::<Int64Type>();
            let pad = b.column(2).as_string::<i32>();
            for i in 0..b.num_rows() {
                rows.push((
                    if fid.is_null(i) { -1 } else { fid.value(i) },
                    if id.is_null(i) { -1 } else { id.value(i) },
                    if pad.is_null(i) { "<NULL>".to_string() } else { pad.value(i).to_string() },
                ));
            }
        }
        partitions.push(rows);
    }
    Ok(ScanOut { groups, partitions, plan_root: plan.name().to_string(), ranges: recorder.map(|r| r.take()).unwrap_or_default() })
}

fn short_row(r: &(i64, i64, String)) -> Value {
    json!([r.0, r.1, if r.2.len() > 8 { format!("{}x{}", &r.2[..1], r.2.len()) } else { r.2.clone() }])
}

async fn e2e_case(acc: &mut Acc, case: &Value, idx: usize, tps: &[usize], fmts: &[&str]) {
    let chunk = case["chunk"].as_u64().unwrap_or(7) as usize;
    let local = case["store"].as_str() == Some("local");
    for fmt in fmts {
        let files: Vec<(Vec<u8>, Vec<(i64, i64, String)>, Vec<u64>)> = case["files"].as_array().unwrap().iter().enumerate()
            .map(|(i, f)| materialise(fmt, i as i64, f, false)).collect();
        let layouts = case["files"].as_array().unwrap();
        let variant = case["variant"].as_str().unwrap_or("plain");
        let semi = variant == "semi" && *fmt == "csv";
        let ordered = variant == "ordered";
        if semi { acc.bump("e2e_csv_custom_terminator_cases", 1); }
        if ordered { acc.bump("e2e_declared_order_cases", 1); }
        let nlv = *fmt == "csv" && layouts.iter().any(|f| f["lay"]["lines"].as_array().unwrap().iter().any(|k| k == "q"));
        // one table has one header setting: use the first file's; re-materialise the others to agree
        let header = *fmt == "csv" && layouts[0]["lay"]["header"].as_bool().unwrap();
        let files: Vec<_> = if *fmt == "csv" {
            layouts.iter().enumerate().map(|(i, f)| {
                let mut f = f.clone();
                f["lay"]["header"] = json!(header);
                materialise(fmt, i as i64, &f, semi)
            }).collect()
        } else { files };
        let mut expected: Vec<(i64, i64, String)> = files.iter().flat_map(|f| f.1.clone()).collect();
        expected.sort();
        let total: usize = files.iter().map(|f| f.0.len()).sum();
        for &tp in tps {
            acc.evaluations += 1;
            let dir = format!("e2e/{idx}");
            let fmt_s = fmt.to_string();
            let files_c = files.clone();
            let steal = (tp + idx) % 2 == 0;
            let r = match tokio::spawn(async move { scan(&fmt_s, &files_c, tp, chunk, local, nlv, header, &dir, steal, semi, ordered).await }).await {
                Ok(r) => r,
                Err(j) => Err(format!("panic: {j}")),
            };
            let replay = json!({"kind":"e2e","files":case["files"],"chunk":chunk,"store":case["store"],"fmt":fmt,"tp":tp,"idx":idx,"variant":variant});
            match r {
                Err(e) if e.starts_with("register") || e.starts_with("sql") || e.starts_with("plan") => {
                    acc.tool_errors.push(format!("e2e {fmt} tp={tp}: {e}"));
                }
                Err(e) => {
                    acc.bump("e2e_mismatches", 1);
                    if acc.violations.len() < 20 {
                        acc.violations.push(json!({"kind":"e2e","case":replay,"error":e,
                            "message":format!("{fmt} scan with {tp} target partitions failed although every file is well formed: {e}")}));
                    }
                }
                Ok(out) => {
                    let mut got: Vec<(i64, i64, String)> = out.partitions.iter().flatten().cloned().collect();
                    got.sort();
                    let nparts = out.partitions.len();
                    if std::env::var("VERIF_DEBUG").is_ok() {
                        eprintln!("{fmt} tp={tp} root={} ranges={:?} rows={:?}", out.plan_root, out.ranges, out.partitions.iter().map(|p| p.iter().map(|r| r.1).collect::<Vec<_>>()).collect::<Vec<_>>());
                    }
                    let mut order_ok = true;
                    if steal {
                        // partitions may take over sibling ranges at run time: only the bag is defined
                    } else if out.plan_root == "DataSourceExec" {
                        for p in &out.partitions {
                            let mut last: BTreeMap<i64, i64> = BTreeMap::new();
                            for r in p {
                                if let Some(l) = last.get(&r.0) { if *l >= r.1 { order_ok = false; } }
                                last.insert(r.0, r.1);
                            }
                        }
                    } else {
                        acc.bump("e2e_order_unchecked", 1);
                    }
                    // without work stealing every output partition must hold exactly the records its
                    // byte ranges own (ownership rule of Boundary.tla on the real offsets)
                    let mut own_ok = true;
                    if !steal && out.plan_root == "DataSourceExec" {
                        if let Some(groups) = &out.groups {
                            if groups.len() == nparts {
                                acc.bump("e2e_partition_ownership_checked", 1);
                                for (p, g) in groups.iter().enumerate() {
                                    let mut want = vec![];
                                    for (fi, a, b) in g {
                                        if let Some(f) = files.get(*fi) {
                                            for (row, off) in f.1.iter().zip(f.2.iter()) {
                                                if a <= off && off < b { want.push(row.clone()); }
                                            }
                                        }
                                    }
                                    if want != out.partitions[p] { own_ok = false; }
                                }
                            }
                        }
                    }
                    if !own_ok { order_ok = false; }
                    if ordered {
                        // ORDER BY id over files declared sorted by id: the output must be ascending in id
                        let all: Vec<i64> = out.partitions.iter().flatten().map(|r| r.1).collect();
                        if all.windows(2).any(|w| w[0] > w[1]) { order_ok = false; }
                        if out.plan_root != "SortExec" { acc.bump("e2e_order_by_without_sortexec_root", 1); }
                    }
                    let nranges = out.ranges.iter().filter(|r| matches!(r, Req::Get{head:false, range:Some(_), ..})).count();
                    acc.bump("e2e_ranged_gets", nranges as u64);
                    if let Some(g) = &out.groups {
                        let planned = g.iter().flatten().filter(|x| x.2 != u64::MAX).count();
                        if nranges > planned { acc.bump("e2e_refill_gets", (nranges - planned) as u64); }
                        if nranges >= planned + 2 { acc.bump("e2e_scans_with_two_or_more_refill_gets", 1); }
                    }
                    if nparts > 1 { acc.bump("e2e_multi_partition_scans", 1); }
                    if nparts > 1 && !expected.is_empty() {
                        acc.nontrivial.insert(format!("{}|{}|{}|{}|{}", serde_json::to_string(&case["files"]).unwrap(), fmt, tp, chunk, local));
                    }
                    if acc.samples.len() < 4 && nparts > 2 && expected.len() > 2 && out.partitions.iter().filter(|p| !p.is_empty()).count() > 1 {
                        acc.samples.push(json!({"kind":"e2e","fmt":fmt,"target_partitions":tp,"output_partitions":nparts,"bytes":total,
                            "store": if local {"local"} else {"chunked-memory"}, "chunk":chunk,
                            "layouts":layouts.iter().map(|f| f["lay"].clone()).collect::<Vec<_>>(),
                            "rows_per_partition":out.partitions.iter().map(|p| p.len()).collect::<Vec<_>>(),
                            "get_ranges":out.ranges.iter().filter_map(|r| match r { Req::Get{head:false, range:Some((a,b)), path} => Some(json!([path,a,b])), _ => None }).collect::<Vec<_>>(),
                            "expected_rows":expected.len()}));
                    }
                    if got != expected || !order_ok {
                        acc.bump("e2e_mismatches", 1);
                        if acc.violations.len() < 20 {
                            let missing: Vec<Value> = expected.iter().filter(|r| !got.contains(r)).take(5).map(short_row).collect();
                            let extra: Vec<Value> = got.iter().filter(|r| !expected.contains(r)).take(5).map(short_row).collect();
                            acc.violations.push(json!({"kind":"e2e","case":replay,
                                "expected_rows":expected.len(),"got_rows":got.len(),"missing":missing,"unexpected":extra,"order_and_ownership_ok":order_ok,"work_stealing":steal,
                                "rows_per_partition":out.partitions.iter().map(|p| p.len()).collect::<Vec<_>>(),
                                "message":format!("{fmt} scan with target_partitions={tp} (chunk {chunk}, {} store): result is not the files' records, each once (and, without work stealing, each partition exactly the records its byte ranges own, in file order)", if local {"local"} else {"memory"})}));
                        }
                    }
                }
            }
        }
        // the real FileGroupPartitioner's ranges replayed through the real stream
        partitioner_case(acc, case, &files, fmt).await;
    }
}

/// Ranges produced by the real FileGroupPartitioner, read by the real AlignedBoundaryStream over
/// (a) the actual file and (b) a file of the same size whose every byte is a line: the
/// concatenation over the ranges of one file (in range order) must be the file.
async fn partitioner_case(acc: &mut Acc, case: &Value, files: &[(Vec<u8>, Vec<(i64, i64, String)>, Vec<u64>)], fmt: &str) {
    let mem: Arc<dyn ObjectStore> = Arc::new(InMemory::new());
    for (i, (b, _, _)) in files.iter().enumerate() {
        mem.put(&Path::from(format!("a{i}")), PutPayload::from(Bytes::from(b.clone()))).await.unwrap();
        mem.put(&Path::from(format!("n{i}")), PutPayload::from(Bytes::from(vec![b'\n'; b.len()]))).await.unwrap();
    }
    let store: Arc<dyn ObjectStore> = Arc::new(ChunkedStore::new(mem, 5));
    let pfs: Vec<PartitionedFile> = files.iter().enumerate().map(|(i, (b, _, _))| PartitionedFile::new(format!("a{i}"), b.len() as u64)).collect();
    let groupings: Vec<Vec<FileGroup>> = vec![
        vec![FileGroup::new(pfs.clone())],
        pfs.iter().map(|f| FileGroup::new(vec![f.clone()])).collect(),
    ];
    for (gi, groups) in groupings.iter().enumerate() {
        for preserve in [false, true] {
            for tp in 1..=8usize {
                for min_size in [0usize, 1, 64] {
                    let p = FileGroupPartitioner::new().with_target_partitions(tp).with_repartition_file_min_size(min_size)
                        .with_preserve_order_within_groups(preserve);
                    let Some(res) = p.repartition_file_groups(groups) else { acc.bump("partitioner_none", 1); continue; };
                    acc.evaluations += 1;
                    acc.bump("partitioner_layouts", 1);
                    let mut per_file: BTreeMap<String, Vec<(u64, u64)>> = BTreeMap::new();
                    for g in &res {
                        for f in g.files() {
                            let size = f.object_meta.size;
                            let r = f.range.as_ref().map(|r| (r.start as u64, r.end as u64)).unwrap_or((0, size));
                            per_file.entry(f.object_meta.location.to_string()).or_default().push(r);
                        }
                    }
                    for (i, (bytes, _, _)) in files.iter().enumerate() {
                        let mut ranges = per_file.get(&format!("a{i}")).cloned().unwrap_or_default();
                        ranges.sort();
                        if ranges.len() > 1 {
                            acc.nontrivial.insert(format!("part|{}|{:?}", bytes.len(), ranges));
                        }
                        for variant in ["a", "n"] {
                            let want: Vec<u8> = if variant == "a" { bytes.clone() } else { vec![b'\n'; bytes.len()] };
                            let mut cat = vec![];
                            let mut err = None;
                            for (s, e) in &ranges {
                                if bytes.is_empty() { continue; }
                                match run_stream_guarded(Arc::clone(&store), Path::from(format!("{variant}{i}")), *s, *e, bytes.len() as u64).await {
                                    Ok(b) => cat.extend(b),
                                    Err(e) => err = Some(e),
                                }
                            }
                            if cat != want || err.is_some() {
                                acc.bump("partitioner_mismatches", 1);
                                if acc.violations.len() < 20 {
                                    acc.violations.push(json!({"kind":"partitioner","case":{"kind":"e2e","files":case["files"],"chunk":case["chunk"],"store":case["store"],"fmt":fmt,"tp":tp},
                                        "grouping":gi,"preserve_order":preserve,"target_partitions":tp,"min_size":min_size,"file_size":bytes.len(),
                                        "ranges":ranges,"error":err,
                                        "message":format!("the byte ranges FileGroupPartitioner assigns to a file of {} bytes, read through AlignedBoundaryStream, do not reproduce the file ({} variant): lines lost or duplicated", bytes.len(), if variant=="a" {"actual"} else {"every-byte-a-line"})}));
                                }
                            }
                        }
                    }
                }
            }
        }
    }
}

pub fn main() {
    let rt = tokio::runtime::Builder::new_multi_thread().worker_threads(4).enable_all().build().unwrap();
    let out_path = arg("--out").expect("--out");
    let mut acc = Acc { evaluations: 0, violations: vec![], tool_errors: vec![], samples: vec![], nontrivial: Default::default(), counters: Default::default() };
    rt.block_on(async {
        if let Some(rp) = arg("--replay") {
            let v: Value = serde_json::from_str(&std::fs::read_to_string(&rp).unwrap()).unwrap();
            let case = &v["case"];
            if v["kind"] == "stream" {
                let only = (v["start"].as_u64().unwrap(), v["end"].as_u64().unwrap(), v["chunk"].as_u64().unwrap() as usize);
                stream_case(&mut acc, case, &[only.2], v["scale"].as_u64().unwrap_or(1) as usize, Some(only)).await;
            } else {
                let tp = case["tp"].as_u64().unwrap() as usize;
                let fmt = case["fmt"].as_str().unwrap().to_string();
                e2e_case(&mut acc, case, case["idx"].as_u64().unwrap_or(0) as usize, &[tp], &[fmt.as_str()]).await;
            }
            return;
        }
        if let Some(p) = arg("--cases") {
            let chunks: Vec<usize> = arg("--chunks").unwrap_or("1,2,3,5,0".into()).split(',').map(|s| s.parse().unwrap()).collect();
            for c in read_ndjson(&p) {
                stream_case(&mut acc, &c, &chunks, 1, None).await;
            }
            acc.bump("stream_evaluations", acc.evaluations);
        }
        if let Some(p) = arg("--scaled") {
            let before = acc.evaluations;
            for c in read_ndjson(&p) {
                let k = c["k"].as_u64().unwrap() as usize;
                let chunks: Vec<usize> = c["chunks"].as_array().unwrap().iter().map(|v| v.as_u64().unwrap() as usize).collect();
                stream_case(&mut acc, &c, &chunks, k, None).await;
            }
            let n = acc.evaluations - before;
            acc.bump("scaled_evaluations", n);
        }
        if let Some(p) = arg("--e2e") {
            let before = acc.evaluations;
            let tps: Vec<usize> = (1..=8).collect();
            for (i, c) in read_ndjson(&p).iter().enumerate() {
                e2e_case(&mut acc, c, i, &tps, &["csv", "json"]).await;
            }
            let n = acc.evaluations - before;
            acc.bump("e2e_evaluations", n);
        }
    });
    let res = json!({
        "evaluations": acc.evaluations,
        "distinct_nontrivial": acc.nontrivial.len(),
        "violations": acc.violations,
        "tool_errors": acc.tool_errors,
        "samples": acc.samples,
        "counters": acc.counters,
    });
    std::fs::write(&out_path, serde_json::to_string(&res).unwrap()).unwrap();
    summary(json!({"evaluations": acc.evaluations, "violations": res["violations"].as_array().unwrap().len()}));
}
