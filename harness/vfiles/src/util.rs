//! Shared helpers: engine cells -> JSON, specification values -> JSON, bag comparison.
use arrow::array::{Array, ArrayRef, AsArray};
use arrow::datatypes::*;
use arrow::record_batch::RecordBatch;
use serde_json::{json, Value};

/// One cell as canonical JSON: null, integer, bool, string.
pub fn cell(a: &ArrayRef, i: usize) -> Value {
    if a.is_null(i) || a.data_type() == &DataType::Null {
        return Value::Null;
    }
    match a.data_type() {
        DataType::Int8 => json!(a.as_primitive::<Int8Type>().value(i)),
        DataType::Int16 => json!(a.as_primitive::<Int16Type>().value(i)),
        DataType::Int32 => json!(a.as_primitive::<Int32Type>().value(i)),
        DataType::Int64 => json!(a.as_primitive::<Int64Type>().value(i)),
        DataType::UInt8 => json!(a.as_primitive::<UInt8Type>().value(i)),
        DataType::UInt16 => json!(a.as_primitive::<UInt16Type>().value(i)),
        DataType::UInt32 => json!(a.as_primitive::<UInt32Type>().value(i)),
        DataType::UInt64 => json!(a.as_primitive::<UInt64Type>().value(i)),
        DataType::Float64 => json!(a.as_primitive::<Float64Type>().value(i)),
        DataType::Boolean => json!(a.as_boolean().value(i)),
        DataType::Utf8 => json!(a.as_string::<i32>().value(i)),
        DataType::LargeUtf8 => json!(a.as_string::<i64>().value(i)),
        DataType::Utf8View => json!(a.as_string_view().value(i)),
        DataType::Date32 | DataType::Date64 | DataType::Timestamp(_, _) | DataType::Decimal128(_, _) => {
            let c = arrow::compute::cast(a, &DataType::Utf8).expect("to utf8");
            cell(&c, i)
        }
        DataType::Dictionary(_, _) => {
            let c = arrow::compute::cast(a, &DataType::Utf8).expect("dictionary to utf8");
            cell(&c, i)
        }
        DataType::Struct(fields) => {
            let s = a.as_struct();
            let mut m = serde_json::Map::new();
            for (j, f) in fields.iter().enumerate() {
                m.insert(f.name().clone(), cell(s.column(j), i));
            }
            Value::Object(m)
        }
        other => json!(format!("<{other}>")),
    }
}

pub fn batches_rows(batches: &[RecordBatch]) -> Vec<Vec<Value>> {
    let mut rows = vec![];
    for b in batches {
        for i in 0..b.num_rows() {
            rows.push((0..b.num_columns()).map(|c| cell(b.column(c), i)).collect());
        }
    }
    rows
}

/// Specification value {"k":..,"v":..} -> canonical JSON (strings through the pool, 1-based).
pub fn spec_val(v: &Value, pool: &[String]) -> Value {
    match v["k"].as_str().unwrap_or("?") {
        "n" => Value::Null,
        "i" => json!(v["v"].as_i64().unwrap()),
        "b" => json!(v["v"].as_i64().unwrap() == 1),
        "s" => json!(pool[(v["v"].as_i64().unwrap() - 1) as usize]),
        k => json!(format!("<spec kind {k}>")),
    }
}

pub fn spec_rows(rows: &Value, pool: &[String]) -> Vec<Vec<Value>> {
    rows.as_array().unwrap().iter().map(|r| r.as_array().unwrap().iter().map(|v| spec_val(v, pool)).collect()).collect()
}

fn key(r: &[Value]) -> String {
    serde_json::to_string(r).unwrap()
}

/// (missing from got, unexpected in got) as row keys; both empty = same bag
pub fn bag_diff(expected: &[Vec<Value>], got: &[Vec<Value>]) -> (Vec<String>, Vec<String>) {
    let mut e: Vec<String> = expected.iter().map(|r| key(r)).collect();
    let mut g: Vec<String> = got.iter().map(|r| key(r)).collect();
    e.sort();
    g.sort();
    let (mut i, mut j) = (0, 0);
    let (mut missing, mut extra) = (vec![], vec![]);
    while i < e.len() || j < g.len() {
        if j >= g.len() || (i < e.len() && e[i] < g[j]) {
            missing.push(e[i].clone());
            i += 1;
        } else if i >= e.len() || g[j] < e[i] {
            extra.push(g[j].clone());
            j += 1;
        } else {
            i += 1;
            j += 1;
        }
    }
    (missing, extra)
}

pub fn pool_of(case: &Value) -> Vec<String> {
    case["pool"].as_array().map(|a| a.iter().map(|s| s.as_str().unwrap().to_string()).collect()).unwrap_or_default()
}

/// Accumulator shared by the exploration drivers.
#[derive(Default)]
pub struct Acc {
    pub evaluations: u64,
    pub violations: Vec<Value>,
    pub tool_errors: Vec<String>,
    pub samples: Vec<Value>,
    pub nontrivial: std::collections::HashSet<String>,
    pub counters: std::collections::BTreeMap<String, u64>,
}
impl Acc {
    pub fn bump(&mut self, k: &str, n: u64) {
        *self.counters.entry(k.to_string()).or_default() += n;
    }
    pub fn violation(&mut self, v: Value) {
        self.bump("violations_total", 1);
        if self.violations.len() < 25 {
            self.violations.push(v);
        }
    }
    pub fn finish(self, out_path: &str) {
        let n = self.violations.len();
        let res = json!({
            "evaluations": self.evaluations,
            "distinct_nontrivial": self.nontrivial.len(),
            "violations": self.violations,
            "tool_errors": self.tool_errors,
            "samples": self.samples,
            "counters": self.counters,
        });
        std::fs::write(out_path, serde_json::to_string(&res).unwrap()).unwrap();
        vcommon::util::summary(json!({"evaluations": self.evaluations, "violations": n}));
    }
}
