//! FFI driver (C45) — DESIGN.md §7.7.
mod c45;

fn main() {
    let a: Vec<String> = std::env::args().collect();
    match a.get(1).map(|s| s.as_str()).unwrap_or("") {
        "c45" => c45::main(),
        _ => {
            eprintln!("usage: vffi c45 --wrap udf|udaf|udwf|table|all --in FILE --out FILE");
            std::process::exit(2);
        }
    }
}
