//! C45 — components wrapped for the foreign-function interface and forced onto the foreign path
//! (library marker overridden, as the crate's own tests do) must behave as the native component.
//!
//! `vaux c45 --wrap udf|udaf|udwf|table|all --in cases.ndjson --out res.ndjson`
//! For each case the SQL runs in a native session and in a session whose scalar / aggregate / window
//! functions and/or table providers were replaced by their Foreign* counterparts.
use std::sync::Arc;

use datafusion::catalog::TableProvider;
use datafusion::datasource::MemTable;
use datafusion::execution::TaskContextProvider;
use datafusion::logical_expr::{AggregateUDF, AggregateUDFImpl, ScalarUDF, ScalarUDFImpl, WindowUDF, WindowUDFImpl};
use datafusion::prelude::*;
use datafusion_ffi::execution::FFI_TaskContextProvider;
use datafusion_ffi::table_provider::FFI_TableProvider;
use datafusion_ffi::udaf::FFI_AggregateUDF;
use datafusion_ffi::udf::FFI_ScalarUDF;
use datafusion_ffi::udwf::FFI_WindowUDF;
use serde_json::{Value, json};
use vcommon::sqlexec::{ExecOpts, batches_to_rows, session, table_partitions};
use vcommon::util::{arg, read_ndjson, summary, write_ndjson};

extern "C" fn foreign_marker() -> usize {
    datafusion_ffi::get_library_marker_id() + 1
}

struct Wrapped {
    udfs: Vec<Arc<ScalarUDF>>,
    udafs: Vec<Arc<AggregateUDF>>,
    udwfs: Vec<Arc<WindowUDF>>,
    failed: Vec<String>,
}

fn wrap_all(wrap: &str) -> Wrapped {
    let ctx = SessionContext::new();
    let st = ctx.state();
    let mut w = Wrapped { udfs: vec![], udafs: vec![], udwfs: vec![], failed: vec![] };
    if wrap == "udf" || wrap == "all" {
        let mut names: Vec<_> = st.scalar_functions().iter().collect();
        names.sort_by(|a, b| a.0.cmp(b.0));
        for (name, f) in names {
            if f.name() != name {
                continue; // alias entry
            }
            let f = Arc::clone(f);
            match std::panic::catch_unwind(std::panic::AssertUnwindSafe(|| {
                let mut ffi = FFI_ScalarUDF::from(f);
                ffi.library_marker_id = foreign_marker;
                let imp: Arc<dyn ScalarUDFImpl> = (&ffi).into();
                ScalarUDF::new_from_shared_impl(imp)
            })) {
                Ok(u) => w.udfs.push(Arc::new(u)),
                Err(_) => w.failed.push(format!("udf {name}")),
            }
        }
    }
    if wrap == "udaf" || wrap == "all" {
        for (name, f) in st.aggregate_functions().iter() {
            if f.name() != name {
                continue;
            }
            let f = Arc::clone(f);
            match std::panic::catch_unwind(std::panic::AssertUnwindSafe(|| {
                let mut ffi = FFI_AggregateUDF::from(f);
                ffi.library_marker_id = foreign_marker;
                let imp: Arc<dyn AggregateUDFImpl> = (&ffi).into();
                AggregateUDF::new_from_shared_impl(imp)
            })) {
                Ok(u) => w.udafs.push(Arc::new(u)),
                Err(_) => w.failed.push(format!("udaf {name}")),
            }
        }
    }
    if wrap == "udwf" || wrap == "all" {
        for (name, f) in st.window_functions().iter() {
            if f.name() != name {
                continue;
            }
            let f = Arc::clone(f);
            match std::panic::catch_unwind(std::panic::AssertUnwindSafe(|| {
                let mut ffi = FFI_WindowUDF::from(f);
                ffi.library_marker_id = foreign_marker;
                let imp: Arc<dyn WindowUDFImpl> = (&ffi).into();
                WindowUDF::new_from_shared_impl(imp)
            })) {
                Ok(u) => w.udwfs.push(Arc::new(u)),
                Err(_) => w.failed.push(format!("udwf {name}")),
            }
        }
    }
    w
}

async fn run(ctx: &SessionContext, sql: &str) -> Value {
    let r = async {
        let df = ctx.sql(sql).await.map_err(|e| format!("plan: {e}"))?;
        let types: Vec<String> = df.schema().fields().iter().map(|f| format!("{}", f.data_type())).collect();
        let names: Vec<String> = df.schema().fields().iter().map(|f| f.name().clone()).collect();
        let b = df.collect().await.map_err(|e| format!("exec: {e}"))?;
        Ok::<_, String>(json!({"rows": batches_to_rows(&b), "types": types, "names": names}))
    };
    match r.await {
        Ok(v) => v,
        Err(e) => json!({"err": e}),
    }
}

fn providers(case: &Value, opts: &ExecOpts) -> Vec<(String, Arc<dyn TableProvider>)> {
    case["tables"].as_array().unwrap().iter().map(|t| {
        let (schema, parts) = table_partitions(t, opts);
        let mt: Arc<dyn TableProvider> = Arc::new(MemTable::try_new(schema, parts).unwrap());
        (t["name"].as_str().unwrap().to_string(), mt)
    }).collect()
}

pub fn main() {
    let wrap = arg("--wrap").unwrap_or("all".into());
    let cases = read_ndjson(&arg("--in").expect("--in"));
    let mut opts = ExecOpts::default();
    if let Some(p) = arg("--partitions") {
        opts.partitions = p.parse().unwrap();
    }
    let rt = tokio::runtime::Builder::new_multi_thread().worker_threads(4).enable_all().build().unwrap();
    let w = wrap_all(&wrap);
    let mut out = Vec::with_capacity(cases.len());
    for c in &cases {
        let sql = c["sql"].as_str().unwrap();
        let r = rt.block_on(async {
            // native
            let ctx_n = session(&opts).unwrap();
            for (n, p) in providers(c, &opts) {
                ctx_n.register_table(n.as_str(), p).unwrap();
            }
            let native = run(&ctx_n, sql).await;
            // foreign
            let ctx_f = Arc::new(session(&opts).unwrap());
            for u in &w.udfs {
                ctx_f.register_udf(u.as_ref().clone());
            }
            for u in &w.udafs {
                ctx_f.register_udaf(u.as_ref().clone());
            }
            for u in &w.udwfs {
                ctx_f.register_udwf(u.as_ref().clone());
            }
            let tcp = Arc::clone(&ctx_f) as Arc<dyn TaskContextProvider>;
            for (n, p) in providers(c, &opts) {
                if wrap == "table" || wrap == "all" {
                    let mut ffi = FFI_TableProvider::new(p, true, None, FFI_TaskContextProvider::from(&tcp), None);
                    ffi.library_marker_id = foreign_marker;
                    let fp: Arc<dyn TableProvider> = (&ffi).into();
                    ctx_f.register_table(n.as_str(), fp).unwrap();
                } else {
                    ctx_f.register_table(n.as_str(), p).unwrap();
                }
            }
            let foreign = match tokio::spawn({
                let ctx_f = Arc::clone(&ctx_f);
                let sql = sql.to_string();
                async move { run(&ctx_f, &sql).await }
            }).await {
                Ok(v) => v,
                Err(e) => json!({"err": format!("panic: {e}")}),
            };
            json!({"id": c["id"], "native": native, "foreign": foreign})
        });
        out.push(r);
    }
    write_ndjson(&arg("--out").expect("--out"), &out);
    summary(json!({"cases": cases.len(), "wrapped": {"udf": w.udfs.len(), "udaf": w.udafs.len(), "udwf": w.udwfs.len()}, "wrap_failed": w.failed}));
}
