//! C33 driver: every TLC-generated expression (spec/sem/ExprGen.tla) is turned into a physical expression
//! and evaluated (a) on the whole exhaustive table, (b) on slices / re-materialised chunks of many sizes,
//! (c) through `evaluate_selection` under many selection masks and on the selected rows alone; every per-row
//! result is compared with the column TLC computed with the reference semantics `Expr.Eval`.

use crate::ast::{self, Env};
use arrow::array::*;
use arrow::compute::{concat_batches, take_record_batch};
use arrow::datatypes::SchemaRef;
use arrow::record_batch::RecordBatch;
use datafusion::physical_expr::PhysicalExpr;
use datafusion::prelude::SessionContext;
use datafusion_common::DFSchema;
use serde_json::{Value, json};
use std::collections::BTreeMap;
use std::panic::{AssertUnwindSafe, catch_unwind};
use std::sync::Arc;
use vcommon::util;

pub struct Tbl {
    pub schema: SchemaRef,
    pub dfschema: DFSchema,
    pub batch: RecordBatch,
}

pub fn load_tables(h: &Value, nullable: bool) -> BTreeMap<String, Tbl> {
    let mut m = BTreeMap::new();
    for (name, t) in h["tables"].as_object().unwrap() {
        let (schema, batch) = ast::table_batch(t, nullable);
        let dfschema = DFSchema::try_from(schema.as_ref().clone()).unwrap();
        m.insert(name.clone(), Tbl { schema, dfschema, batch });
    }
    m
}

pub enum Outcome {
    Arr(ArrayRef),
    Err(String),
    Panic(String),
}

pub fn panic_msg(e: Box<dyn std::any::Any + Send>) -> String {
    if let Some(s) = e.downcast_ref::<&str>() {
        s.to_string()
    } else if let Some(s) = e.downcast_ref::<String>() {
        s.clone()
    } else {
        "panic".into()
    }
}

pub fn eval(phys: &Arc<dyn PhysicalExpr>, batch: &RecordBatch, sel: Option<&BooleanArray>) -> Outcome {
    let r = catch_unwind(AssertUnwindSafe(|| {
        let v = match sel {
            None => phys.evaluate(batch),
            Some(s) => phys.evaluate_selection(batch, s),
        };
        v.and_then(|cv| cv.into_array(batch.num_rows()))
    }));
    match r {
        Ok(Ok(a)) => Outcome::Arr(a),
        Ok(Err(e)) => Outcome::Err(e.to_string()),
        Err(p) => Outcome::Panic(panic_msg(p)),
    }
}

pub struct Rng(u64);
impl Rng {
    pub fn new(seed: u64) -> Self {
        Rng(seed.wrapping_mul(0x9E3779B97F4A7C15) ^ 0xD1B54A32D192ED03)
    }
    pub fn next(&mut self) -> u64 {
        let mut x = self.0;
        x ^= x << 13;
        x ^= x >> 7;
        x ^= x << 17;
        self.0 = x;
        x
    }
    pub fn below(&mut self, n: usize) -> usize {
        (self.next() % n as u64) as usize
    }
}

#[derive(Default)]
struct Stats {
    evals: u64,
    rows_compared: u64,
    err_allowed: u64,
    succeeded_on_err: u64,
    plan_errors: u64,
    methods: BTreeMap<String, u64>,
    /// the case is being evaluated on a table whose string column is Utf8View / dictionary encoded
    string_variant: bool,
    variant_cases: u64,
    variant_plan_errors: u64,
}

/// Compare one engine outcome with the reference.  `rows[j]` = table row of batch position j,
/// `checked[j]` = whether position j is in scope (selected).  Returns a failure description.
fn check(out: &Outcome, rows: &[usize], checked: &[bool], exp: &[i64], kind: &str, env: &Env, st: &mut Stats) -> Option<Value> {
    st.evals += 1;
    // an expression that errs on some row of the table may also fail when asked to evaluate an EMPTY batch
    // (constant sub-expressions such as 0/0 are evaluated regardless of the rows)
    let any_err = rows.iter().zip(checked).any(|(r, c)| *c && exp[*r] == env.errcode)
        || (rows.is_empty() && exp.iter().any(|x| *x == env.errcode));
    match out {
        Outcome::Err(e) | Outcome::Panic(e) => {
            if any_err {
                st.err_allowed += 1;
                None
            } else {
                let what = if matches!(out, Outcome::Panic(_)) { "panicked" } else { "failed" };
                Some(json!({"what": format!("engine {what} although the reference evaluates every row in scope without error"), "engine_error": e,
                            "batch_rows": rows.len()}))
            }
        }
        Outcome::Arr(a) => {
            if any_err {
                st.succeeded_on_err += 1;
            }
            if a.len() != rows.len() {
                return Some(json!({"what": format!("result has {} rows for a batch of {}", a.len(), rows.len())}));
            }
            let want_dt = ast::kind_dt(kind);
            // with Utf8View / dictionary string columns the engine may keep the column's string encoding
            let stringish = |dt: &arrow::datatypes::DataType| match dt {
                arrow::datatypes::DataType::Utf8 | arrow::datatypes::DataType::Utf8View | arrow::datatypes::DataType::LargeUtf8 => true,
                arrow::datatypes::DataType::Dictionary(_, v) => matches!(v.as_ref(), arrow::datatypes::DataType::Utf8 | arrow::datatypes::DataType::Utf8View | arrow::datatypes::DataType::LargeUtf8),
                _ => false,
            };
            let type_ok = a.data_type() == &want_dt || (kind == "s" && st.string_variant && stringish(a.data_type()));
            if !type_ok && checked.iter().any(|c| *c) {
                return Some(json!({"what": format!("result data type {} but the expression has type {}", a.data_type(), want_dt)}));
            }
            for j in 0..rows.len() {
                if !checked[j] || exp[rows[j]] == env.errcode {
                    continue;
                }
                st.rows_compared += 1;
                match ast::code_at(a, j, env) {
                    Ok(c) if c == exp[rows[j]] => {}
                    Ok(c) => {
                        return Some(json!({"what": "value differs from the reference", "table_row": rows[j] + 1, "position": j,
                                           "engine": ast::show_code(c, env), "reference": ast::show_code(exp[rows[j]], env)}));
                    }
                    Err(m) => return Some(json!({"what": m, "table_row": rows[j] + 1, "position": j})),
                }
            }
            None
        }
    }
}

fn mask_of(bits: &[Option<bool>]) -> BooleanArray {
    BooleanArray::from(bits.to_vec())
}

/// All evaluation layouts of one case; returns failures (at most one per layout family).
fn run_case(case: &Value, tbl: &Tbl, phys: &Arc<dyn PhysicalExpr>, env: &Env, seed: u64, st: &mut Stats) -> Vec<Value> {
    let exp: Vec<i64> = case["exp"].as_array().unwrap().iter().map(|x| x.as_i64().unwrap()).collect();
    let kind = case["k"].as_str().unwrap();
    let n = tbl.batch.num_rows();
    assert_eq!(exp.len(), n, "expected column length");
    let mut fails: Vec<Value> = vec![];
    let mut rng = Rng::new(seed ^ (case["id"].as_u64().unwrap() << 20) ^ (case["p"].as_u64().unwrap_or(0) << 40));
    let all: Vec<usize> = (0..n).collect();
    let yes = vec![true; n];
    let mut push = |layout: String, f: Option<Value>, fails: &mut Vec<Value>| {
        if let Some(mut f) = f {
            if fails.iter().any(|x| x["family"] == layout.split(':').next().unwrap()) {
                return;
            }
            f["layout"] = json!(layout);
            f["family"] = json!(layout.split(':').next().unwrap());
            fails.push(f);
        }
    };

    // (a) whole table
    let o = eval(phys, &tbl.batch, None);
    push("whole".into(), check(&o, &all, &yes, &exp, kind, env, st), &mut fails);

    // (b) zero-copy slices of many sizes (non-zero offsets), and re-materialised chunks
    for size in [1usize, 5, 7, 25, 64, 100] {
        let mut off = 0;
        while off < n {
            let len = size.min(n - off);
            let b = tbl.batch.slice(off, len);
            let o = eval(phys, &b, None);
            push(format!("slice:{size}@{off}"), check(&o, &all[off..off + len], &yes[..len], &exp, kind, env, st), &mut fails);
            off += len;
        }
    }
    for size in [3usize, 36] {
        let mut off = 0;
        while off < n {
            let len = size.min(n - off);
            let idx = UInt32Array::from((off..off + len).map(|x| x as u32).collect::<Vec<_>>());
            let b = take_record_batch(&tbl.batch, &idx).unwrap();
            let o = eval(phys, &b, None);
            push(format!("chunk:{size}@{off}"), check(&o, &all[off..off + len], &yes[..len], &exp, kind, env, st), &mut fails);
            off += len;
        }
    }
    // a shuffled copy of the table (breaks the regular runs of equal values)
    {
        let mut perm: Vec<usize> = (0..n).collect();
        for i in (1..n).rev() {
            perm.swap(i, rng.below(i + 1));
        }
        let idx = UInt32Array::from(perm.iter().map(|x| *x as u32).collect::<Vec<_>>());
        let b = take_record_batch(&tbl.batch, &idx).unwrap();
        let o = eval(phys, &b, None);
        push("shuffled".into(), check(&o, &perm, &yes, &exp, kind, env, st), &mut fails);
    }

    // (c) evaluate_selection == evaluating the selected rows alone == reference on the selected rows
    let mut sel_case = |b: &RecordBatch, rows: &[usize], bits: &[Option<bool>], tag: String, fails: &mut Vec<Value>, st: &mut Stats| {
        let mask = mask_of(bits);
        let checked: Vec<bool> = bits.iter().map(|x| *x == Some(true)).collect();
        let o = eval(phys, b, Some(&mask));
        push(format!("selection:{tag}"), check(&o, rows, &checked, &exp, kind, env, st), fails);
        // the selected rows alone (built with `take`, independent of the filter kernel)
        let pos: Vec<u32> = (0..rows.len()).filter(|j| checked[*j]).map(|j| j as u32).collect();
        let sub_rows: Vec<usize> = pos.iter().map(|j| rows[*j as usize]).collect();
        if sub_rows.is_empty() && st.string_variant {
            // a zero-row batch of a dictionary-encoded column trips an assertion inside the arrow kernels (not the
            // code under test); empty batches are exercised on the Utf8 table
            return;
        }
        let sub = take_record_batch(b, &UInt32Array::from(pos)).unwrap();
        let o2 = eval(phys, &sub, None);
        let ok = vec![true; sub_rows.len()];
        push(format!("selected-rows-alone:{tag}"), check(&o2, &sub_rows, &ok, &exp, kind, env, st), fails);
    };
    // whole table under structured and random masks
    let mut masks: Vec<(String, Vec<Option<bool>>)> = vec![
        ("all-true".into(), vec![Some(true); n]),
        ("all-false".into(), vec![Some(false); n]),
        ("all-null".into(), vec![None; n]),
        ("alternate".into(), (0..n).map(|i| Some(i % 2 == 0)).collect()),
        ("prefix".into(), (0..n).map(|i| Some(i < n / 3)).collect()),
        ("suffix".into(), (0..n).map(|i| Some(i >= n - 7)).collect()),
    ];
    for k in 0..3 {
        let one = rng.below(n);
        masks.push((format!("single{k}"), (0..n).map(|i| Some(i == one)).collect()));
    }
    for (k, pct) in [5u64, 30, 50, 80, 95].iter().enumerate() {
        masks.push((format!("random{k}"), (0..n).map(|_| Some(rng.next() % 100 < *pct)).collect()));
        masks.push((
            format!("random-nulls{k}"),
            (0..n).map(|_| if rng.next() % 4 == 0 { None } else { Some(rng.next() % 100 < *pct) }).collect(),
        ));
    }
    // the rows on which the reference is an error are excluded: the others must evaluate without raising
    if exp.iter().any(|x| *x == env.errcode) {
        masks.push(("non-error-rows".into(), exp.iter().map(|x| Some(*x != env.errcode)).collect()));
    }
    for (tag, bits) in &masks {
        sel_case(&tbl.batch, &all, bits, format!("whole/{tag}"), &mut fails, st);
    }
    // every mask of 4-row batches (consecutive windows as slices, random picks re-materialised)
    for g in 0..6 {
        let (b, rows): (RecordBatch, Vec<usize>) = if g < 3 {
            let off = rng.below(n - 4);
            (tbl.batch.slice(off, 4), (off..off + 4).collect())
        } else {
            let rows: Vec<usize> = (0..4).map(|_| rng.below(n)).collect();
            let idx = UInt32Array::from(rows.iter().map(|x| *x as u32).collect::<Vec<_>>());
            (take_record_batch(&tbl.batch, &idx).unwrap(), rows)
        };
        for m in 0..16u32 {
            let bits: Vec<Option<bool>> = (0..4).map(|j| Some(m >> j & 1 == 1)).collect();
            sel_case(&b, &rows, &bits, format!("4rows{g}/mask{m}"), &mut fails, st);
        }
    }
    // batches assembled from several small batches (concat) under a random mask
    {
        let mut rows = vec![];
        let mut rng2 = Rng::new(rng.next());
        let mut parts2 = vec![];
        for _ in 0..5 {
            let off = rng2.below(n - 9);
            let len = 1 + rng2.below(9);
            parts2.push(tbl.batch.slice(off, len));
            rows.extend(off..off + len);
        }
        let b = concat_batches(&tbl.schema, &parts2).unwrap();
        let bits: Vec<Option<bool>> = (0..rows.len()).map(|_| Some(rng2.next() % 2 == 0)).collect();
        sel_case(&b, &rows, &bits, "concat/random".into(), &mut fails, st);
    }
    fails
}

fn uses_col(e: &Value, i: i64) -> bool {
    match e {
        Value::Object(m) => (m.get("op").map(|o| o == "col").unwrap_or(false) && m.get("i").and_then(|x| x.as_i64()) == Some(i)) || m.values().any(|v| uses_col(v, i)),
        Value::Array(a) => a.iter().any(|v| uses_col(v, i)),
        _ => false,
    }
}

fn method_tags(phys: &Arc<dyn PhysicalExpr>) -> Vec<String> {
    let dbg = format!("{phys:?}");
    let disp = format!("{phys}");
    let mut tags = vec![];
    for m in ["WithExprScalarLookupTable", "WithExpression", "InfallibleExprOrNull", "ScalarOrScalar", "ExpressionOrExpression", "NoExpression"] {
        // "WithExpression" must not count "WithExprScalarLookupTable"
        let cnt = dbg.matches(&format!("eval_method: {m}")).count();
        if cnt > 0 {
            tags.push(format!("case:{m}"));
        }
    }
    if disp.contains("IN (SET)") {
        tags.push("inlist:static-filter".into());
    }
    if disp.contains(" IN ([") {
        tags.push("inlist:dynamic".into());
    }
    for (needle, tag) in [("LikeExpr", "like"), ("CastExpr", "cast"), ("TryCastExpr", "try_cast"), ("NegativeExpr", "negative"), ("NotExpr", "not"),
                          ("IsNullExpr", "is_null"), ("IsNotNullExpr", "is_not_null"), ("RegexMatch", "similar:match"), ("RegexIMatch", "similar:imatch"),
                          ("RegexNotMatch", "similar:notmatch"), ("RegexNotIMatch", "similar:notimatch"), ("SqlSimilarToPattern", "similar:dynamic-pattern"),
                          ("IsDistinctFrom", "is_distinct_from"), ("IsNotDistinctFrom", "is_not_distinct_from")] {
        if dbg.contains(needle) {
            tags.push(tag.into());
        }
    }
    tags
}

pub fn main() {
    let inp = util::arg("--in").expect("--in");
    let out = util::arg("--out").expect("--out");
    let threads: usize = util::arg("--threads").and_then(|s| s.parse().ok()).unwrap_or(4);
    let seed = util::seed();
    let lines = util::read_ndjson(&inp);
    let header = lines.iter().find(|c| c["id"] == 0).expect("header case (id 0) missing").clone();
    let mut env = ast::env_from_header(&header);
    env.coalesce_as_case = true;
    let mut env_x = env.clone();
    env_x.xstrings = true;
    let cases: Vec<Value> = lines.into_iter().filter(|c| c["id"] != 0).collect();
    let per: Vec<(Vec<Value>, Stats)> = std::thread::scope(|s| {
        let mut hs = vec![];
        for t in 0..threads {
            let cases = &cases;
            let env_s = &env;
            let env_x = &env_x;
            let header = &header;
            hs.push(s.spawn(move || {
                let tables = load_tables(header, true);
                // (table, string column, encoding) variants: the string column stored as Utf8View / dictionary
                let mut variants: Vec<(&str, i64, &str, Tbl)> = vec![];
                for (tn, colno) in [("A", 3i64), ("C", 1i64)] {
                    if header["tables"].get(tn).is_none() {
                        continue;
                    }
                    for enc in ["view", "dict"] {
                        let (schema, batch) = ast::table_batch_enc(&header["tables"][tn], true, enc);
                        let dfschema = DFSchema::try_from(schema.as_ref().clone()).unwrap();
                        variants.push((tn, colno, enc, Tbl { schema, dfschema, batch }));
                    }
                }
                let ctx = SessionContext::new();
                let mut st = Stats::default();
                let mut outv = vec![];
                for (i, c) in cases.iter().enumerate() {
                    if i % threads != t {
                        continue;
                    }
                    let tbl = &tables[c["tbl"].as_str().unwrap()];
                    let env = if c["tbl"] == "C" { env_x } else { env_s };
                    let built = catch_unwind(AssertUnwindSafe(|| {
                        ast::to_expr(&c["e"], env).and_then(|e| ctx.create_physical_expr(e, &tbl.dfschema).map_err(|e| e.to_string()))
                    }));
                    let phys = match built {
                        Ok(Ok(p)) => p,
                        Ok(Err(e)) => {
                            st.plan_errors += 1;
                            outv.push(json!({"id": c["id"], "p": c["p"], "plan_error": e}));
                            continue;
                        }
                        Err(p) => {
                            st.plan_errors += 1;
                            outv.push(json!({"id": c["id"], "p": c["p"], "plan_error": format!("PANIC: {}", panic_msg(p))}));
                            continue;
                        }
                    };
                    let tags = method_tags(&phys);
                    for tg in &tags {
                        *st.methods.entry(tg.clone()).or_insert(0) += 1;
                    }
                    let fails = run_case(c, tbl, &phys, env, seed, &mut st);
                    if !fails.is_empty() {
                        outv.push(json!({"id": c["id"], "p": c["p"], "physical": format!("{phys}"), "fails": fails}));
                    }
                    // the same case over other physical encodings of the string column (Utf8View, dictionary)
                    {
                        for (tn, colno, enc, vt) in &variants {
                            if c["tbl"] != *tn || !uses_col(&c["e"], *colno) {
                                continue;
                            }
                            let built = catch_unwind(AssertUnwindSafe(|| {
                                ast::to_expr(&c["e"], env).and_then(|e| ctx.create_physical_expr(e, &vt.dfschema).map_err(|e| e.to_string()))
                            }));
                            let phys = match built {
                                Ok(Ok(p)) => p,
                                _ => {
                                    st.variant_plan_errors += 1;
                                    continue;
                                }
                            };
                            st.variant_cases += 1;
                            st.string_variant = true;
                            let mut fails = run_case(c, vt, &phys, env, seed, &mut st);
                            st.string_variant = false;
                            if !fails.is_empty() {
                                for f in fails.iter_mut() {
                                    f["string_encoding"] = json!(enc);
                                }
                                outv.push(json!({"id": c["id"], "p": c["p"], "physical": format!("{phys}"), "fails": fails, "string_encoding": enc}));
                            }
                        }
                    }
                }
                (outv, st)
            }));
        }
        hs.into_iter().map(|h| h.join().unwrap()).collect()
    });
    let mut results = vec![];
    let mut tot = Stats::default();
    for (o, st) in per {
        results.extend(o);
        tot.evals += st.evals;
        tot.rows_compared += st.rows_compared;
        tot.err_allowed += st.err_allowed;
        tot.succeeded_on_err += st.succeeded_on_err;
        tot.plan_errors += st.plan_errors;
        tot.variant_cases += st.variant_cases;
        tot.variant_plan_errors += st.variant_plan_errors;
        for (k, v) in st.methods {
            *tot.methods.entry(k).or_insert(0) += v;
        }
    }
    util::write_ndjson(&out, &results);
    let failing = results.iter().filter(|r| r.get("fails").is_some()).count();
    util::summary(json!({"cases": cases.len(), "evaluations": tot.evals, "rows_compared": tot.rows_compared, "failing_cases": failing,
                         "plan_errors": tot.plan_errors, "string_encoding_variant_cases": tot.variant_cases,
                         "string_encoding_variant_plan_errors": tot.variant_plan_errors, "engine_errors_where_reference_errs": tot.err_allowed,
                         "engine_succeeded_where_reference_errs": tot.succeeded_on_err, "strategies": tot.methods}));
}
