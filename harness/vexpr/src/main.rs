//! Expression-level semantic drivers (DESIGN.md §7.1): C33 evaluation strategies, C04 simplifier, C41 parameters.
mod ast;
mod c04;
mod c33;
mod c41;
mod extras;

fn main() {
    let a: Vec<String> = std::env::args().collect();
    // panics of the code under test are caught and reported as data; keep stderr readable
    if std::env::var("VERIF_PANIC").is_err() {
        std::panic::set_hook(Box::new(|_| {}));
    }
    match a.get(1).map(|s| s.as_str()).unwrap_or("") {
        "c33" => c33::main(),
        "c04" => c04::main(),
        "c41" => c41::main(),
        _ => {
            eprintln!("usage: vexpr c33 --in cases.ndjson --out results.ndjson");
            std::process::exit(2);
        }
    }
}
